/- Round 5: the heap-passing transliteration of the expansion / regex functions (`Paths/MatcherObj.lean`) computes the
   stateless functions of `Paths/Matcher.lean` on the CONTENTS of the dict at the address it is given, and only ever
   ALLOCATES: the heap afterwards is the heap before plus new dicts (`env.copy()` of `_no_cycle`), on the normal path and
   on every exception path (`MissingEnvironment` out of a nested expansion included). -/
import CLModel.Paths.MatcherObj
namespace C12H
open Rx PM

theorem lt_of_read {h : Heap} {a : Addr} {env : Env} (hr : h[a]? = some env) : a < h.length := by
  rcases Nat.lt_or_ge a h.length with hlt | hge
  · exact hlt
  · rw [List.getElem?_eq_none hge] at hr; cases hr

/-- a dict that exists is not touched by allocations -/
theorem read_ext {h : Heap} {a : Addr} {env : Env} (ex : Heap) (hr : h[a]? = some env) : (h ++ ex)[a]? = some env := by
  rw [List.getElem?_append_left (lt_of_read hr)]; exact hr

theorem read_new (h : Heap) (e : Env) : (h ++ [e])[h.length]? = some e := by
  simp

theorem derase_of_lookup_none {env : Env} {name : Text} (h : env.lookup name = none) : derase env name = env := by
  induction env with
  | nil => rfl
  | cons p ps ih =>
    obtain ⟨k, v⟩ := p
    simp only [List.lookup] at h
    cases hk : name == k with
    | true => simp [hk] at h
    | false =>
      simp only [hk] at h
      have hk' : (k == name) = false := by
        cases hkn : k == name with
        | false => rfl
        | true => have := eq_of_beq hkn; subst this; simp at hk
      unfold derase
      simp only [List.filter, hk', Bool.not_false]
      congr 1
      exact ih h

/-- `_no_cycle(env)`: the dict it returns holds `env` without the name; `env` itself is untouched -/
theorem noCycleH_spec {h : Heap} {a : Addr} {env : Env} (name : Text) (hr : h[a]? = some env) :
    ∃ ex a1, noCycleH name a h = some (a1, h ++ ex) ∧ (h ++ ex)[a1]? = some (derase env name) := by
  unfold noCycleH
  simp only [hr]
  cases hl : env.lookup name with
  | none => exact ⟨[], a, by simp, by simpa [derase_of_lookup_none hl] using hr⟩
  | some v => exact ⟨[derase env name], h.length, by simp, read_new h _⟩

/-- the heap-passing recursion agrees with the stateless one and only allocates -/
def RecOK (rh : ExpRecH) (r : ExpRec) : Prop :=
  ∀ v a rm h env, h[a]? = some env → ∃ ex, rh v a rm h = some (r v env rm, h ++ ex)

theorem getAndroidLocaleH_spec {rh : ExpRecH} {r : ExpRec} (hrec : RecOK rh r) {h : Heap} {a : Addr} {env : Env}
    (hr : h[a]? = some env) : ∃ ex, getAndroidLocaleH rh a h = some (getAndroidLocale r env, h ++ ex) := by
  unfold getAndroidLocaleH getAndroidLocale
  simp only [hr]
  cases hl : env.lookup localeName with
  | none => exact ⟨[], by simp [pure, Except.pure]⟩
  | some v =>
    obtain ⟨ex1, a1, h1, hr1⟩ := noCycleH_spec androidName hr
    obtain ⟨ex2, h2⟩ := hrec v a1 false (h ++ ex1) _ hr1
    simp only [h1, h2]
    refine ⟨ex1 ++ ex2, ?_⟩
    cases r v (derase env androidName) false with
    | error e => simp [bind, Except.bind, List.append_assoc]
    | ok b =>
      cases ht : toAndroid b with
      | error e => simp [bind, Except.bind, List.append_assoc, ht]
      | ok x => simp [bind, Except.bind, pure, Except.pure, List.append_assoc, ht]

theorem expandNodeH_spec {rh : ExpRecH} {r : ExpRec} (hrec : RecOK rh r) (n : Node) (rm : Bool) {h : Heap} {a : Addr}
    {env : Env} (hr : h[a]? = some env) : ∃ ex, expandNodeH rh n a rm h = some (expandNode r n env rm, h ++ ex) := by
  cases n with
  | lit s => exact ⟨[], by simp [expandNodeH, expandNode, pure, Except.pure]⟩
  | var name rep =>
    unfold expandNodeH expandNode
    simp only [hr]
    cases hl : env.lookup name with
    | none => exact ⟨[], by simp [throw, throwThe, MonadExceptOf.throw]⟩
    | some v =>
      obtain ⟨ex1, a1, h1, hr1⟩ := noCycleH_spec name hr
      obtain ⟨ex2, h2⟩ := hrec v a1 rm (h ++ ex1) _ hr1
      simp only [h1, h2]
      exact ⟨ex1 ++ ex2, by simp [List.append_assoc]⟩
  | android rep =>
    unfold expandNodeH expandNode
    obtain ⟨ex, he⟩ := getAndroidLocaleH_spec hrec hr
    simp only [he]
    refine ⟨ex, ?_⟩
    cases getAndroidLocale r env with
    | error e => simp [bind, Except.bind]
    | ok o =>
      cases o with
      | none => simp [bind, Except.bind, throw, throwThe, MonadExceptOf.throw]
      | some x => simp [bind, Except.bind, pure, Except.pure]
  | star k =>
    unfold expandNodeH expandNode
    simp only [hr]
    refine ⟨[], ?_⟩
    cases env.lookup (sname k) with
    | none => simp [throw, throwThe, MonadExceptOf.throw]
    | some v => cases v <;> simp [pure, Except.pure, throw, throwThe, MonadExceptOf.throw]
  | starstar k sfx =>
    unfold expandNodeH expandNode
    simp only [hr]
    refine ⟨[], ?_⟩
    cases env.lookup (sname k) with
    | none => simp [throw, throwThe, MonadExceptOf.throw]
    | some v => cases v <;> simp [pure, Except.pure, throw, throwThe, MonadExceptOf.throw]

theorem expandChildrenH_spec {rh : ExpRecH} {r : ExpRec} (hrec : RecOK rh r) (cs : List Node) (rm : Bool) {a : Addr}
    {env : Env} : ∀ {h : Heap}, h[a]? = some env →
      ∃ ex, expandChildrenH rh cs a rm h = some (expandChildren r cs env rm, h ++ ex) := by
  induction cs with
  | nil => intro h _; exact ⟨[], by simp [expandChildrenH, expandChildren, pure, Except.pure]⟩
  | cons c cs ih =>
    intro h hr
    obtain ⟨ex1, h1⟩ := expandNodeH_spec hrec c true hr
    obtain ⟨ex2, h2⟩ := ih (read_ext ex1 hr)
    unfold expandChildrenH expandChildren
    simp only [h1]
    cases hn : expandNode r c env true with
    | ok s =>
      simp only [h2]
      refine ⟨ex1 ++ ex2, ?_⟩
      cases expandChildren r cs env rm with
      | error e => simp [bind, Except.bind, List.append_assoc]
      | ok tl => simp [bind, Except.bind, pure, Except.pure, List.append_assoc]
    | error e =>
      cases e with
      | missingEnv =>
        cases rm with
        | true => exact ⟨ex1, by simp [throw, throwThe, MonadExceptOf.throw]⟩
        | false => exact ⟨ex1, by simp [pure, Except.pure]⟩
      | notStr =>
        simp only [h2]
        refine ⟨ex1 ++ ex2, ?_⟩
        cases expandChildren r cs env rm with
        | error e => simp [throw, throwThe, MonadExceptOf.throw, List.append_assoc]
        | ok tl => simp [throw, throwThe, MonadExceptOf.throw, List.append_assoc]
      | keyError => exact ⟨ex1, by simp [throw, throwThe, MonadExceptOf.throw]⟩
      | reError => exact ⟨ex1, by simp [throw, throwThe, MonadExceptOf.throw]⟩
      | recursion => exact ⟨ex1, by simp [throw, throwThe, MonadExceptOf.throw]⟩
      | typeError => exact ⟨ex1, by simp [throw, throwThe, MonadExceptOf.throw]⟩
      | indexError => exact ⟨ex1, by simp [throw, throwThe, MonadExceptOf.throw]⟩

theorem rootOfH_spec {rh : ExpRecH} {r : ExpRec} (hrec : RecOK rh r) (p : Pattern) {h : Heap} {a : Addr} {env : Env}
    (hr : h[a]? = some env) : ∃ ex, rootOfH rh p a h = some (rootOf r p env, h ++ ex) := by
  unfold rootOfH rootOf
  cases p.root with
  | none => exact ⟨[], by simp [pure, Except.pure]⟩
  | some rt =>
    cases hn : p.nodes with
    | nil => exact ⟨[], by simp [throw, throwThe, MonadExceptOf.throw]⟩
    | cons n0 rest =>
      obtain ⟨ex1, h1⟩ := expandNodeH_spec hrec n0 false hr
      simp only [h1]
      refine ⟨ex1, ?_⟩
      cases expandNode r n0 env false with
      | ok seg => simp [pure, Except.pure]
      | error e => cases e <;> simp [throw, throwThe, MonadExceptOf.throw]

theorem expandPatH_spec {rh : ExpRecH} {r : ExpRec} (hrec : RecOK rh r) (p : Pattern) (rm : Bool) {h : Heap} {a : Addr}
    {env : Env} (hr : h[a]? = some env) : ∃ ex, expandPatH rh p a rm h = some (expandPat r p env rm, h ++ ex) := by
  unfold expandPatH expandPat
  obtain ⟨ex1, h1⟩ := rootOfH_spec hrec p hr
  obtain ⟨ex2, h2⟩ := expandChildrenH_spec hrec p.nodes rm (read_ext ex1 hr)
  simp only [h1]
  cases rootOf r p env with
  | error e => exact ⟨ex1, by simp [bind, Except.bind]⟩
  | ok root =>
    simp only [h2]
    refine ⟨ex1 ++ ex2, ?_⟩
    cases expandChildren r p.nodes env rm with
    | error e => simp [bind, Except.bind, List.append_assoc]
    | ok body => simp [bind, Except.bind, pure, Except.pure, List.append_assoc]

/-- **nested expansion never touches the dict it was given**, for every nesting bound, value, address and heap -/
theorem expandValH_spec : ∀ f : Nat, RecOK (expandValH f) (expandVal f) := by
  intro f
  induction f with
  | zero =>
    intro v a rm h env _
    cases v with
    | str s => exact ⟨[], by simp [expandValH, expandVal, pure, Except.pure]⟩
    | pat p => exact ⟨[], by simp [expandValH, expandVal, throw, throwThe, MonadExceptOf.throw]⟩
  | succ f ih =>
    intro v a rm h env hr
    cases v with
    | str s => exact ⟨[], by simp [expandValH, expandVal, pure, Except.pure]⟩
    | pat p =>
      obtain ⟨ex, he⟩ := expandPatH_spec ih p rm hr
      exact ⟨ex, by simpa [expandValH, expandVal] using he⟩

/-- `pattern.expand(env, raise_missing)` at top level -/
theorem expandTopH_spec (p : Pattern) (rm : Bool) {h : Heap} {a : Addr} {env : Env} (hr : h[a]? = some env) :
    ∃ ex, expandTopH p a rm h = some (expandPat (expandVal (fuelFor env)) p env rm, h ++ ex) := by
  unfold expandTopH
  rw [hr]
  exact expandPatH_spec (expandValH_spec _) p rm hr

/-! ### the regular expression -/

def RxRecOK (rh : RxRecH) (r : RxRec) : Prop :=
  ∀ v a h env, h[a]? = some env → ∃ ex, rh v a h = some (r v env, h ++ ex)

theorem rxNodeH_spec {rh : RxRecH} {r : RxRec} (hrec : RxRecOK rh r) (n : Node) {h : Heap} {a : Addr} {env : Env}
    (hr : h[a]? = some env) : ∃ ex, rxNodeH rh n a h = some (rxNode r n env, h ++ ex) := by
  cases n with
  | lit s => exact ⟨[], by simp [rxNodeH, rxNode, pure, Except.pure]⟩
  | var name rep =>
    unfold rxNodeH rxNode
    cases rep with
    | true => exact ⟨[], by simp [pure, Except.pure]⟩
    | false =>
      simp only [hr, Bool.false_eq_true, if_false]
      cases hl : env.lookup name with
      | none => exact ⟨[], by simp [pure, Except.pure]⟩
      | some v =>
        obtain ⟨ex1, a1, h1, hr1⟩ := noCycleH_spec name hr
        obtain ⟨ex2, h2⟩ := hrec v a1 (h ++ ex1) _ hr1
        simp only [h1, h2]
        refine ⟨ex1 ++ ex2, ?_⟩
        cases r v (derase env name) with
        | error e => simp [bind, Except.bind, List.append_assoc]
        | ok bn => obtain ⟨body, ns⟩ := bn; simp [bind, Except.bind, pure, Except.pure, List.append_assoc]
  | android rep =>
    unfold rxNodeH rxNode
    cases rep with
    | true => exact ⟨[], by simp [pure, Except.pure]⟩
    | false =>
      simp only [hr, Bool.false_eq_true, if_false]
      obtain ⟨ex, he⟩ := getAndroidLocaleH_spec (expandValH_spec (fuelFor env)) hr
      simp only [he]
      refine ⟨ex, ?_⟩
      cases getAndroidLocale (expandVal (fuelFor env)) env with
      | error e => simp [bind, Except.bind]
      | ok o => cases o <;> simp [bind, Except.bind, pure, Except.pure]
  | star k => exact ⟨[], by simp [rxNodeH, rxNode, pure, Except.pure]⟩
  | starstar k sfx => exact ⟨[], by simp [rxNodeH, rxNode, pure, Except.pure]⟩

theorem rxChildrenH_spec {rh : RxRecH} {r : RxRec} (hrec : RxRecOK rh r) (cs : List Node) {a : Addr} {env : Env} :
    ∀ {h : Heap}, h[a]? = some env → ∃ ex, rxChildrenH rh cs a h = some (rxChildren r cs env, h ++ ex) := by
  induction cs with
  | nil => intro h _; exact ⟨[], by simp [rxChildrenH, rxChildren, pure, Except.pure]⟩
  | cons c cs ih =>
    intro h hr
    obtain ⟨ex1, h1⟩ := rxNodeH_spec hrec c hr
    obtain ⟨ex2, h2⟩ := ih (read_ext ex1 hr)
    unfold rxChildrenH rxChildren
    simp only [h1]
    cases rxNode r c env with
    | error e => exact ⟨ex1, by simp [bind, Except.bind]⟩
    | ok xn =>
      obtain ⟨x, nx⟩ := xn
      simp only [h2]
      refine ⟨ex1 ++ ex2, ?_⟩
      cases rxChildren r cs env with
      | error e => simp [bind, Except.bind, List.append_assoc]
      | ok yn => obtain ⟨y, ny⟩ := yn; simp [bind, Except.bind, pure, Except.pure, List.append_assoc]

theorem rxPatH_spec {rh : RxRecH} {r : RxRec} (hrec : RxRecOK rh r) (p : Pattern) {h : Heap} {a : Addr} {env : Env}
    (hr : h[a]? = some env) : ∃ ex, rxPatH rh p a h = some (rxPat r p env, h ++ ex) := by
  unfold rxPatH rxPat
  rw [hr]
  obtain ⟨ex1, h1⟩ := rootOfH_spec (expandValH_spec (fuelFor env)) p hr
  obtain ⟨ex2, h2⟩ := rxChildrenH_spec hrec p.nodes (read_ext ex1 hr)
  simp only [h1]
  cases rootOf (expandVal (fuelFor env)) p env with
  | error e => exact ⟨ex1, by simp [bind, Except.bind]⟩
  | ok root =>
    simp only [h2]
    refine ⟨ex1 ++ ex2, ?_⟩
    cases rxChildren r p.nodes env with
    | error e => simp [bind, Except.bind, List.append_assoc]
    | ok yn => obtain ⟨y, ny⟩ := yn; simp [bind, Except.bind, pure, Except.pure, List.append_assoc]

theorem rxValH_spec : ∀ f : Nat, RxRecOK (rxValH f) (rxVal f) := by
  intro f
  induction f with
  | zero =>
    intro v a h env _
    cases v with
    | str s => exact ⟨[], by simp [rxValH, rxVal, pure, Except.pure]⟩
    | pat p => exact ⟨[], by simp [rxValH, rxVal, throw, throwThe, MonadExceptOf.throw]⟩
  | succ f ih =>
    intro v a h env hr
    cases v with
    | str s => exact ⟨[], by simp [rxValH, rxVal, pure, Except.pure]⟩
    | pat p =>
      obtain ⟨ex, he⟩ := rxPatH_spec ih p hr
      exact ⟨ex, by simpa [rxValH, rxVal] using he⟩

/-- `_cache_regex` compiles what the stateless model compiles and leaves every existing dict alone -/
theorem regexOfH_spec (p : Pattern) {h : Heap} {a : Addr} {env : Env} (hr : h[a]? = some env) :
    ∃ ex, regexOfH p a h = some (Matcher.regexOf { pattern := p, env := env }, h ++ ex) := by
  unfold regexOfH Matcher.regexOf
  rw [hr]
  obtain ⟨ex, he⟩ := rxPatH_spec (rxValH_spec (fuelFor env)) p hr
  simp only [he]
  refine ⟨ex, ?_⟩
  cases rxPat (rxVal (fuelFor env)) p env with
  | error e => simp [bind, Except.bind]
  | ok xn =>
    obtain ⟨items, names⟩ := xn
    simp only [bind, Except.bind]
    split <;> simp_all [pure, Except.pure, throw, throwThe, MonadExceptOf.throw]

end C12H

/-
Two runs of `compareProjects` that differ only in the quiet level go through the SAME history of events: the calls, the
printed lines and the junk counter coincide, and the two `ObserverList`s are runs of one common event sequence — so
every summary number, the error flag and the exit status coincide and the details only shrink (theorems of
CLModel/Props/C10.lean).  The control flow never looks at anything quiet-dependent: a return value of `notify` is a
function of the filters alone.  Core Lean only.
-/
import CLModel.Compare.ProjectsPipe
import CLModel.Proofs.C10Proj
import CLModel.Proofs.C10ProjPipe
namespace C10P
open TreeM ObsM ProjM

/-- what `ObserverList.notify` returns, from the filters of the project observers -/
def rvFromFilters (flts : List (Option Filter)) (cat : Cat) (f : File) (d : Data) : Ret :=
  listRet (flts.map (fun flt => rvOf flt cat f d))

theorem list_rv_filters {l l' : ObsList} {cat f d rv} (h : l.notify cat f d = .ok (l', rv)) :
    rv = rvFromFilters l.filters cat f d := by
  obtain ⟨h1, _, _⟩ := list_notify_spec h
  rw [h1, rvFromFilters, ObsList.filters, List.map_map]
  rfl

/-- two observer lists with the same project filters -/
def SameFilters (l1 l2 : ObsList) : Prop := l1.filters = l2.filters

/-- both lists make the same run and end with the same filters -/
def SyncRun (l1 l2 l1' l2' : ObsList) (evs : List Ev) : Prop :=
  l1.run evs = .ok l1' ∧ l2.run evs = .ok l2'

theorem SyncRun.filters {l1 l2 l1' l2' : ObsList} {evs : List Ev} (hs : SameFilters l1 l2)
    (h : SyncRun l1 l2 l1' l2' evs) : SameFilters l1' l2' := by
  unfold SameFilters at hs ⊢
  rw [run_filters _ _ _ h.1, run_filters _ _ _ h.2, hs]

theorem SyncRun.trans {l1 l2 m1 m2 n1 n2 : ObsList} {a b : List Ev}
    (h1 : SyncRun l1 l2 m1 m2 a) (h2 : SyncRun m1 m2 n1 n2 b) : SyncRun l1 l2 n1 n2 (a ++ b) :=
  ⟨run_append _ _ _ _ _ h1.1 h2.1, run_append _ _ _ _ _ h1.2 h2.2⟩

theorem notify_sync {l1 l2 l1' l2' : ObsList} {cat f d rv1 rv2} (hs : SameFilters l1 l2)
    (h1 : l1.notify cat f d = .ok (l1', rv1)) (h2 : l2.notify cat f d = .ok (l2', rv2)) :
    rv1 = rv2 ∧ SyncRun l1 l2 l1' l2' [.notify cat f d] := by
  refine ⟨?_, notify_run h1, notify_run h2⟩
  rw [list_rv_filters h1, list_rv_filters h2, hs]

/-! ### the contract of `compareBody` for two quiet levels -/

/-- `ContentComparer.compare` never looks at anything but the return values of `notify`: started on two observer lists
    with the same project filters it raises the same events, prints the same lines and spends the same junk ids -/
def CompareSync (w : World) : Prop :=
  ∀ c junk l1 l2 r1 r2, SameFilters l1 l2 → w.compareBody c junk l1 = .ok r1 → w.compareBody c junk l2 = .ok r2 →
    r1.2 = r2.2 ∧ ∃ evs, SyncRun l1 l2 r1.1 r2.1 evs

/-! ### states -/

structure SimSt (st1 st2 : St) : Prop where
  filters : SameFilters st1.obs st2.obs
  out : st1.out = st2.out
  calls : st1.calls = st2.calls
  junk : st1.junk = st2.junk

/-- `mergeCopy` appends lines that depend on the world and the arguments only -/
theorem mergeCopy_out (w : World) (m : Option Path) (miss : List (List Nat)) :
    ∃ printed : List Text, ∀ st st', mergeCopy w m miss st = .ok st' → st' = { st with out := st.out ++ printed } := by
  unfold mergeCopy
  cases m with
  | none => exact ⟨[], fun st st' h => by injection h with h; subst h; simp⟩
  | some mf =>
    simp only
    cases hm : Merge.merge (!mf.isEmpty) Gen.Tables.CAN_COPY [] [] miss with
    | nothing => exact ⟨[], fun st st' h => by simp only at h; injection h with h; subst h; simp⟩
    | copyRef | copyL10n | copyL10nPlus _ | written _ | typeError =>
      simp only
      cases hd : w.makeMergeDir mf with
      | some msg => exact ⟨[], fun st st' h => by simp [fail] at h⟩
      | none => exact ⟨_, fun st st' h => by simp only at h; injection h with h; exact h.symm⟩

theorem mergeCopy_sim {w : World} {m : Option Path} {miss : List (List Nat)} {st1 st2 st1' st2' : St}
    (hs : SimSt st1 st2) (h1 : mergeCopy w m miss st1 = .ok st1') (h2 : mergeCopy w m miss st2 = .ok st2') :
    SimSt st1' st2' ∧ st1'.obs = st1.obs ∧ st2'.obs = st2.obs := by
  obtain ⟨printed, hp⟩ := mergeCopy_out w m miss
  rw [hp _ _ h1, hp _ _ h2]
  exact ⟨⟨hs.filters, by simp [hs.out], hs.calls, hs.junk⟩, rfl, rfl⟩

theorem stNotify_sim {st1 st2 st1' st2' : St} {cat f d rv1 rv2} (hs : SimSt st1 st2)
    (h1 : stNotify st1 cat f d = .ok (st1', rv1)) (h2 : stNotify st2 cat f d = .ok (st2', rv2)) :
    rv1 = rv2 ∧ SimSt st1' st2' ∧ SyncRun st1.obs st2.obs st1'.obs st2'.obs [.notify cat f d] := by
  obtain ⟨n1, c1, j1, o1⟩ := stNotify_ok h1
  obtain ⟨n2, c2, j2, o2⟩ := stNotify_ok h2
  obtain ⟨hrv, hsync⟩ := notify_sync hs.filters n1 n2
  exact ⟨hrv, ⟨hsync.filters hs.filters, by rw [o1, o2, hs.out], by rw [c1, c2, hs.calls], by rw [j1, j2, hs.junk]⟩, hsync⟩

/-- the common run of two states -/
def SyncSt (st1 st2 st1' st2' : St) : Prop :=
  SimSt st1' st2' ∧ ∃ evs, SyncRun st1.obs st2.obs st1'.obs st2'.obs evs

theorem SyncSt.trans {a1 a2 b1 b2 c1 c2 : St} (h1 : SyncSt a1 a2 b1 b2) (h2 : SyncSt b1 b2 c1 c2) : SyncSt a1 a2 c1 c2 := by
  obtain ⟨_, e1, r1⟩ := h1
  obtain ⟨s2, e2, r2⟩ := h2
  exact ⟨s2, e1 ++ e2, r1.trans r2⟩

theorem SyncSt.of_eq_obs {st1 st2 st1' st2' : St} (hs : SimSt st1' st2') (e1 : st1'.obs = st1.obs) (e2 : st2'.obs = st2.obs) :
    SyncSt st1 st2 st1' st2' :=
  ⟨hs, [], by rw [e1, e2]; exact ⟨rfl, rfl⟩⟩

theorem addMerge_sim {w : World} {c : Call} {st1 st2 st1' st2' : St} (hs : SimSt st1 st2)
    (h1 : addMerge w c st1 = .ok st1') (h2 : addMerge w c st2 = .ok st2') :
    SimSt st1' st2' ∧ st1'.obs = st1.obs ∧ st2'.obs = st2.obs := by
  unfold addMerge at h1 h2
  simp only at h1 h2
  cases hp : w.parserCaps c.ref.file <;> simp only [hp] at h1 h2 <;> split at h1
  · rename_i hc
    simp only [hc, ↓reduceIte] at h2
    exact mergeCopy_sim hs h1 h2
  · rename_i hc
    simp only [hc] at h2
    injection h1 with h1; injection h2 with h2
    subst h1; subst h2
    exact ⟨hs, rfl, rfl⟩
  · rename_i hc
    simp only [hc, ↓reduceIte] at h2
    exact mergeCopy_sim hs h1 h2
  · rename_i hc
    simp only [hc] at h2
    injection h1 with h1; injection h2 with h2
    subst h1; subst h2
    exact ⟨hs, rfl, rfl⟩

theorem ccRemove_sync {w : World} {c : Call} {st1 st2 st1' st2' : St} (hs : SimSt st1 st2)
    (h1 : ccRemove w c st1 = .ok st1') (h2 : ccRemove w c st2 = .ok st2') : SyncSt st1 st2 st1' st2' := by
  unfold ccRemove at h1 h2
  split at h1
  · cases h1
  · rename_i a1 rv1 hn1
    split at h2
    · cases h2
    · rename_i a2 rv2 hn2
      obtain ⟨_, hsim, hrun⟩ := stNotify_sim hs hn1 hn2
      obtain ⟨hsim', e1, e2⟩ := mergeCopy_sim hsim h1 h2
      refine ⟨hsim', [.notify .obsoleteFile c.l10n .none], ?_⟩
      rw [e1, e2]
      exact hrun

theorem ccAdd_sync {w : World} {c : Call} {st1 st2 st1' st2' : St} (hs : SimSt st1 st2)
    (h1 : ccAdd w c st1 = .ok st1') (h2 : ccAdd w c st2 = .ok st2') : SyncSt st1 st2 st1' st2' := by
  unfold ccAdd at h1 h2
  split at h1
  · cases h1
  · rename_i a1 hm1
    split at h2
    · cases h2
    · rename_i a2 hm2
      obtain ⟨hsa, ea1, ea2⟩ := addMerge_sim hs hm1 hm2
      split at h1
      · cases h1
      · rename_i b1 rv1 hn1
        split at h2
        · cases h2
        · rename_i b2 rv2 hn2
          obtain ⟨hrv, hsb, hrun⟩ := stNotify_sim hsa hn1 hn2
          rw [ea1, ea2] at hrun
          subst hrv
          have base : SyncSt st1 st2 b1 b2 := ⟨hsb, [.notify .missingFile c.l10n .none], hrun⟩
          by_cases hi : (rv1 == Ret.ignore) = true
          · simp only [hi, ↓reduceIte] at h1 h2
            injection h1 with h1; injection h2 with h2
            subst h1; subst h2
            exact base
          · simp only [hi, Bool.false_eq_true, ↓reduceIte] at h1 h2
            cases hp : w.parserCaps c.ref.file with
            | none =>
              simp only [hp] at h1 h2
              injection h1 with h1; injection h2 with h2
              subst h1; subst h2
              exact base
            | some caps =>
              simp only [hp] at h1 h2
              rw [hsb.junk] at h1
              cases hpr : w.parseRef c.refFull c.ref.file b2.junk with
              | mk res junk' =>
                rw [hpr] at h1 h2
                cases res with
                | error msg =>
                  simp only at h1 h2
                  split at h1
                  · cases h1
                  · rename_i d1 r1 hn3
                    split at h2
                    · cases h2
                    · rename_i d2 r2 hn4
                      injection h1 with h1; injection h2 with h2
                      subst h1; subst h2
                      have hs' : SimSt { b1 with junk := junk' } { b2 with junk := junk' } :=
                        ⟨hsb.filters, hsb.out, hsb.calls, rfl⟩
                      obtain ⟨_, hsd, hrun2⟩ := stNotify_sim hs' hn3 hn4
                      exact base.trans ⟨hsd, [.notify .error c.ref (.str msg)], hrun2⟩
                | ok nw =>
                  obtain ⟨n, words⟩ := nw
                  simp only at h1 h2
                  injection h1 with h1; injection h2 with h2
                  subst h1; subst h2
                  refine base.trans ⟨⟨?_, hsb.out, hsb.calls, rfl⟩, [.stats c.l10n [(.missing, n)], .stats c.l10n [(.missing_w, words)]], ?_, ?_⟩
                  · unfold SameFilters
                    have f1 := run_filters _ _ _ (run_append [_] [_] _ _ _ (stats_run b1.obs c.l10n [(.missing, n)])
                      (stats_run (b1.obs.updateStats c.l10n [(.missing, n)]) c.l10n [(.missing_w, words)]))
                    have f2 := run_filters _ _ _ (run_append [_] [_] _ _ _ (stats_run b2.obs c.l10n [(.missing, n)])
                      (stats_run (b2.obs.updateStats c.l10n [(.missing, n)]) c.l10n [(.missing_w, words)]))
                    rw [f1, f2]
                    exact hsb.filters
                  · exact run_append [_] [_] _ _ _ (stats_run b1.obs c.l10n [(.missing, n)])
                      (stats_run (b1.obs.updateStats c.l10n [(.missing, n)]) c.l10n [(.missing_w, words)])
                  · exact run_append [_] [_] _ _ _ (stats_run b2.obs c.l10n [(.missing, n)])
                      (stats_run (b2.obs.updateStats c.l10n [(.missing, n)]) c.l10n [(.missing_w, words)])

theorem ccCompare_sync {w : World} (hw : CompareSync w) {c : Call} {st1 st2 st1' st2' : St} (hs : SimSt st1 st2)
    (h1 : ccCompare w c st1 = .ok st1') (h2 : ccCompare w c st2 = .ok st2') : SyncSt st1 st2 st1' st2' := by
  unfold ccCompare at h1 h2
  cases hp : w.parserCaps c.ref.file with
  | none =>
    simp only [hp] at h1 h2
    obtain ⟨hsim, e1, e2⟩ := mergeCopy_sim hs h1 h2
    exact SyncSt.of_eq_obs hsim e1 e2
  | some caps =>
    simp only [hp] at h1 h2
    rw [hs.junk] at h1
    cases hb1 : w.compareBody c st2.junk st1.obs with
    | error e => rw [hb1] at h1; simp [fail] at h1
    | ok r1 =>
      cases hb2 : w.compareBody c st2.junk st2.obs with
      | error e => rw [hb2] at h2; simp [fail] at h2
      | ok r2 =>
        rw [hb1] at h1; rw [hb2] at h2
        obtain ⟨o1, p1, j1⟩ := r1
        obtain ⟨o2, p2, j2⟩ := r2
        simp only at h1 h2
        injection h1 with h1; injection h2 with h2
        subst h1; subst h2
        obtain ⟨heq, evs, hrun⟩ := hw c st2.junk st1.obs st2.obs _ _ hs.filters hb1 hb2
        simp only [Prod.mk.injEq] at heq
        obtain ⟨hp', hj'⟩ := heq
        exact ⟨⟨hrun.filters hs.filters, by simp [hs.out, hp'], hs.calls, hj'⟩, evs, hrun⟩

theorem runCall_sync {w : World} (hw : CompareSync w) {c : Call} {st1 st2 st1' st2' : St} (hs : SimSt st1 st2)
    (h1 : runCall w c st1 = .ok st1') (h2 : runCall w c st2 = .ok st2') : SyncSt st1 st2 st1' st2' := by
  unfold runCall at h1 h2
  simp only at h1 h2
  have hs' : SimSt { st1 with calls := st1.calls ++ [c] } { st2 with calls := st2.calls ++ [c] } :=
    ⟨hs.filters, hs.out, by simp [hs.calls], hs.junk⟩
  cases hk : c.kind with
  | add => simp only [hk] at h1 h2; have r := ccAdd_sync hs' h1 h2; exact r
  | remove => simp only [hk] at h1 h2; have r := ccRemove_sync hs' h1 h2; exact r
  | compare => simp only [hk] at h1 h2; have r := ccCompare_sync hw hs' h1 h2; exact r

theorem itemLoop_sync {w : World} (hw : CompareSync w) (base : Path) (files : Files) :
    ∀ (items : List Item) (locale : Option Text) (st1 st2 : St) (loc1 loc2 : Option Text) (st1' st2' : St),
      SimSt st1 st2 → itemLoop w base files items (locale, st1) = .ok (loc1, st1') →
      itemLoop w base files items (locale, st2) = .ok (loc2, st2') → SyncSt st1 st2 st1' st2'
  | [], locale, st1, st2, loc1, loc2, st1', st2', hs, h1, h2 => by
    simp only [itemLoop, Except.ok.injEq, Prod.mk.injEq] at h1 h2
    obtain ⟨_, e1⟩ := h1
    obtain ⟨_, e2⟩ := h2
    subst e1; subst e2
    exact SyncSt.of_eq_obs hs rfl rfl
  | it :: rest, locale, st1, st2, loc1, loc2, st1', st2', hs, h1, h2 => by
    simp only [itemLoop] at h1 h2
    cases hmk : mkCall w base files (localeAfter locale) it with
    | error e => rw [hmk] at h1; cases h1
    | ok c =>
      rw [hmk] at h1 h2
      simp only at h1 h2
      cases hr1 : runCall w c st1 with
      | error e => rw [hr1] at h1; cases h1
      | ok m1 =>
        cases hr2 : runCall w c st2 with
        | error e => rw [hr2] at h2; cases h2
        | ok m2 =>
          rw [hr1] at h1; rw [hr2] at h2
          simp only at h1 h2
          have s1 := runCall_sync hw hs hr1 hr2
          exact s1.trans (itemLoop_sync hw base files rest _ m1 m2 loc1 loc2 st1' st2' s1.1 h1 h2)

theorem localeLoop_sync {w : World} (hw : CompareSync w) (a1 a2 : Args)
    (hargs : a1.l10nBaseDir = a2.l10nBaseDir ∧ a1.mergeStage = a2.mergeStage ∧ a1.clobberMerge = a2.clobberMerge) :
    ∀ (locales : List (Option Text)) (st1 st2 st1' st2' : St), SimSt st1 st2 →
      localeLoop w a1 locales st1 = .ok st1' → localeLoop w a2 locales st2 = .ok st2' → SyncSt st1 st2 st1' st2'
  | [], st1, st2, st1', st2', hs, h1, h2 => by
    simp only [localeLoop, Except.ok.injEq] at h1 h2
    subst h1; subst h2
    exact SyncSt.of_eq_obs hs rfl rfl
  | locale :: rest, st1, st2, st1', st2', hs, h1, h2 => by
    simp only [localeLoop] at h1 h2
    cases hpf : w.projectFiles locale with
    | error e => rw [hpf] at h1; simp [fail] at h1
    | ok files =>
      rw [hpf] at h1 h2
      simp only at h1 h2
      cases hc1 : clobber a1 files st1 with
      | error e => rw [hc1] at h1; cases h1
      | ok c1 =>
        cases hc2 : clobber a2 files st2 with
        | error e => rw [hc2] at h2; cases h2
        | ok c2 =>
          rw [hc1] at h1; rw [hc2] at h2
          simp only at h1 h2
          have e1 := clobber_ok hc1
          have e2 := clobber_ok hc2
          subst e1; subst e2
          rw [hargs.1] at h1
          cases hi1 : itemLoop w a2.l10nBaseDir files files.items (locale, c1) with
          | error e => rw [hi1] at h1; cases h1
          | ok p1 =>
            cases hi2 : itemLoop w a2.l10nBaseDir files files.items (locale, c2) with
            | error e => rw [hi2] at h2; cases h2
            | ok p2 =>
              rw [hi1] at h1; rw [hi2] at h2
              obtain ⟨l1, m1⟩ := p1
              obtain ⟨l2, m2⟩ := p2
              simp only at h1 h2
              have s1 := itemLoop_sync hw a2.l10nBaseDir files files.items locale c1 c2 l1 l2 m1 m2 hs hi1 hi2
              exact s1.trans (localeLoop_sync hw a1 a2 hargs rest m1 m2 st1' st2' s1.1 h1 h2)

/-! ### the composed model keeps the contract -/

theorem pipeNotify_sync {env : Pipe.Env} {l1 l2 l1' l2' : ObsList} {cat : Cat} {d : Data} {rv1 rv2 : Ret}
    (hs : SameFilters l1 l2) (h1 : Pipe.notify env l1 cat d = .ok (l1', rv1)) (h2 : Pipe.notify env l2 cat d = .ok (l2', rv2)) :
    rv1 = rv2 ∧ SyncRun l1 l2 l1' l2' [.notify cat env.file d] := by
  unfold Pipe.notify at h1 h2
  split at h1
  · cases h1
  · rename_i r1 hn1
    split at h2
    · cases h2
    · rename_i r2 hn2
      injection h1 with h1; injection h2 with h2
      subst h1; subst h2
      exact notify_sync hs hn1 hn2

/-- two lists end a common run with the same filters -/
def Sync (l1 l2 l1' l2' : ObsList) : Prop := ∃ evs, SyncRun l1 l2 l1' l2' evs

theorem Sync.refl (l1 l2 : ObsList) : Sync l1 l2 l1 l2 := ⟨[], rfl, rfl⟩

theorem Sync.trans {a1 a2 b1 b2 c1 c2 : ObsList} (h1 : Sync a1 a2 b1 b2) (h2 : Sync b1 b2 c1 c2) : Sync a1 a2 c1 c2 := by
  obtain ⟨e1, r1⟩ := h1
  obtain ⟨e2, r2⟩ := h2
  exact ⟨e1 ++ e2, r1.trans r2⟩

theorem Sync.filters {a1 a2 b1 b2 : ObsList} (hs : SameFilters a1 a2) (h : Sync a1 a2 b1 b2) : SameFilters b1 b2 := by
  obtain ⟨e, r⟩ := h
  exact r.filters hs

theorem notifyDups_sync {env : Pipe.Env} {cat : Cat} :
    ∀ (l : List (Cmp.Key × Nat)) (a1 a2 b1 b2 : ObsList), SameFilters a1 a2 →
      Pipe.notifyDups env cat l a1 = .ok b1 → Pipe.notifyDups env cat l a2 = .ok b2 → Sync a1 a2 b1 b2
  | [], a1, a2, b1, b2, _, h1, h2 => by
    simp only [Pipe.notifyDups, Except.ok.injEq] at h1 h2
    subst h1; subst h2
    exact Sync.refl _ _
  | (k, n) :: rest, a1, a2, b1, b2, hs, h1, h2 => by
    simp only [Pipe.notifyDups] at h1 h2
    split at h1
    · cases h1
    · rename_i m1 rv1 hn1
      split at h2
      · cases h2
      · rename_i m2 rv2 hn2
        obtain ⟨_, hr⟩ := pipeNotify_sync hs hn1 hn2
        have s1 : Sync a1 a2 m1 m2 := ⟨_, hr⟩
        exact s1.trans (notifyDups_sync rest m1 m2 b1 b2 (s1.filters hs) h1 h2)

theorem checkLoop_sync {env : Pipe.Env} {refent l10nent : Pipe.PEnt} :
    ∀ (cs : List Pipe.CheckRes) (a1 a2 : ObsList) (skips : List Pipe.PEnt) (b1 b2 : ObsList) (sk1 sk2 : List Pipe.PEnt),
      SameFilters a1 a2 → Pipe.checkLoop env refent l10nent cs (a1, skips) = .ok (b1, sk1) →
      Pipe.checkLoop env refent l10nent cs (a2, skips) = .ok (b2, sk2) → sk1 = sk2 ∧ Sync a1 a2 b1 b2
  | [], a1, a2, skips, b1, b2, sk1, sk2, _, h1, h2 => by
    simp only [Pipe.checkLoop, Except.ok.injEq, Prod.mk.injEq] at h1 h2
    obtain ⟨e1, e2⟩ := h1
    obtain ⟨e3, e4⟩ := h2
    subst e1; subst e2; subst e3; subst e4
    exact ⟨rfl, Sync.refl _ _⟩
  | c :: cs, a1, a2, skips, b1, b2, sk1, sk2, hs, h1, h2 => by
    simp only [Pipe.checkLoop] at h1 h2
    cases hpos : Pipe.resolvePos env.l10nText env.cls l10nent c.pos with
    | none => rw [hpos] at h1; cases h1
    | some lc =>
      obtain ⟨line, col⟩ := lc
      simp only [hpos] at h1 h2
      split at h1
      · cases h1
      · rename_i m1 rv1 hn1
        split at h2
        · cases h2
        · rename_i m2 rv2 hn2
          obtain ⟨_, hr⟩ := pipeNotify_sync hs hn1 hn2
          have s1 : Sync a1 a2 m1 m2 := ⟨_, hr⟩
          obtain ⟨e, s2⟩ := checkLoop_sync cs m1 m2 _ b1 b2 sk1 sk2 (s1.filters hs) h1 h2
          exact ⟨e, s1.trans s2⟩

/-- two loop states that differ in the observers only -/
structure SimLoop (s1 s2 : Pipe.LoopSt) : Prop where
  filters : SameFilters s1.obs s2.obs
  stats : s1.stats = s2.stats
  missings : s1.missings = s2.missings
  skips : s1.skips = s2.skips

theorem step_sync {env : Pipe.Env} {ref l10n : List Pipe.PEnt} {s1 s2 t1 t2 : Pipe.LoopSt} {p : AR.Label × Cmp.Key}
    (hs : SimLoop s1 s2) (h1 : Pipe.step env ref l10n s1 p = .ok t1) (h2 : Pipe.step env ref l10n s2 p = .ok t2) :
    SimLoop t1 t2 ∧ Sync s1.obs s2.obs t1.obs t2.obs := by
  obtain ⟨o1, st1, mi1, sk1⟩ := s1
  obtain ⟨o2, st2, mi2, sk2⟩ := s2
  obtain ⟨hf, e1, e2, e3⟩ := hs
  simp only at hf e1 e2 e3
  subst e1; subst e2; subst e3
  unfold Pipe.step at h1 h2
  simp only at h1 h2
  cases hl : p.1 with
  | delete =>
    simp only [hl] at h1 h2
    cases hlk : Pipe.lookup ref p.2 with
    | error e => rw [hlk] at h1; cases h1
    | ok refent =>
      simp only [hlk] at h1 h2
      by_cases hj : refent.junk = true
      · simp only [hj, ↓reduceIte] at h1 h2
        split at h1
        · cases h1
        · rename_i m1 rv1 hn1
          split at h2
          · cases h2
          · rename_i m2 rv2 hn2
            injection h1 with h1; injection h2 with h2
            subst h1; subst h2
            obtain ⟨_, hr⟩ := pipeNotify_sync hf hn1 hn2
            exact ⟨⟨hr.filters hf, rfl, rfl, rfl⟩, _, hr⟩
      · simp only [hj, Bool.false_eq_true, ↓reduceIte] at h1 h2
        split at h1
        · cases h1
        · rename_i m1 rv1 hn1
          split at h2
          · cases h2
          · rename_i m2 rv2 hn2
            obtain ⟨hrv, hr⟩ := pipeNotify_sync hf hn1 hn2
            subst hrv
            cases rv1
            all_goals
              simp only at h1 h2
              injection h1 with h1; injection h2 with h2
              subst h1; subst h2
              exact ⟨⟨hr.filters hf, rfl, rfl, rfl⟩, _, hr⟩
  | add =>
    simp only [hl] at h1 h2
    cases hlk : Pipe.lookup l10n p.2 with
    | error e => rw [hlk] at h1; cases h1
    | ok l10nent =>
      simp only [hlk] at h1 h2
      by_cases hj : l10nent.junk = true
      · simp only [hj, ↓reduceIte] at h1 h2
        cases hm : Pipe.junkMessage env.l10nText env.cls l10nent with
        | error e => rw [hm] at h1; cases h1
        | ok msg =>
          simp only [hm] at h1 h2
          split at h1
          · cases h1
          · rename_i m1 rv1 hn1
            split at h2
            · cases h2
            · rename_i m2 rv2 hn2
              injection h1 with h1; injection h2 with h2
              subst h1; subst h2
              obtain ⟨_, hr⟩ := pipeNotify_sync hf hn1 hn2
              exact ⟨⟨hr.filters hf, rfl, rfl, rfl⟩, _, hr⟩
      · simp only [hj, Bool.false_eq_true, ↓reduceIte] at h1 h2
        split at h1
        · cases h1
        · rename_i m1 rv1 hn1
          split at h2
          · cases h2
          · rename_i m2 rv2 hn2
            obtain ⟨hrv, hr⟩ := pipeNotify_sync hf hn1 hn2
            subst hrv
            by_cases hne : (rv1 != Ret.ignore) = true
            · simp only [hne, ↓reduceIte] at h1 h2
              injection h1 with h1; injection h2 with h2
              subst h1; subst h2
              exact ⟨⟨hr.filters hf, rfl, rfl, rfl⟩, _, hr⟩
            · simp only [hne, Bool.false_eq_true, ↓reduceIte] at h1 h2
              injection h1 with h1; injection h2 with h2
              subst h1; subst h2
              exact ⟨⟨hr.filters hf, rfl, rfl, rfl⟩, _, hr⟩
  | equal =>
    simp only [hl] at h1 h2
    cases hlr : Pipe.lookup ref p.2 with
    | error e => rw [hlr] at h1; cases h1
    | ok refent =>
      cases hll : Pipe.lookup l10n p.2 with
      | error e => rw [hlr, hll] at h1; cases h1
      | ok l10nent =>
        simp only [hlr, hll] at h1 h2
        split at h1
        · cases h1
        · rename_i stats hst
          simp only [hst] at h2
          cases hck : Pipe.runChecker env.ck refent l10nent with
          | error e => rw [hck] at h1; cases h1
          | ok results =>
            simp only [hck] at h1 h2
            split at h1
            · cases h1
            · rename_i m1 k1 hc1
              split at h2
              · cases h2
              · rename_i m2 k2 hc2
                injection h1 with h1; injection h2 with h2
                subst h1; subst h2
                obtain ⟨ek, s⟩ := checkLoop_sync results o1 o2 sk1 m1 m2 k1 k2 hf hc1 hc2
                exact ⟨⟨s.filters hf, rfl, rfl, ek⟩, s⟩

theorem foldE_step_sync {env : Pipe.Env} {ref l10n : List Pipe.PEnt} :
    ∀ (ar : List (AR.Label × Cmp.Key)) (s1 s2 t1 t2 : Pipe.LoopSt), SimLoop s1 s2 →
      Pipe.foldE (Pipe.step env ref l10n) ar s1 = .ok t1 → Pipe.foldE (Pipe.step env ref l10n) ar s2 = .ok t2 →
      SimLoop t1 t2 ∧ Sync s1.obs s2.obs t1.obs t2.obs
  | [], s1, s2, t1, t2, hs, h1, h2 => by
    simp only [Pipe.foldE, Except.ok.injEq] at h1 h2
    subst h1; subst h2
    exact ⟨hs, Sync.refl _ _⟩
  | p :: rest, s1, s2, t1, t2, hs, h1, h2 => by
    simp only [Pipe.foldE] at h1 h2
    split at h1
    · cases h1
    · rename_i m1 hs1
      split at h2
      · cases h2
      · rename_i m2 hs2
        obtain ⟨hm, sy⟩ := step_sync hs hs1 hs2
        obtain ⟨ht, sy2⟩ := foldE_step_sync rest m1 m2 t1 t2 hm h1 h2
        exact ⟨ht, sy.trans sy2⟩

theorem compareParsed_sync {env : Pipe.Env} {ref l10n : List Pipe.PEnt} {a1 a2 b1 b2 : ObsList} {o1 o2 : Merge.Outcome}
    (hs : SameFilters a1 a2) (h1 : Pipe.compareParsed env ref l10n a1 = .ok (b1, o1))
    (h2 : Pipe.compareParsed env ref l10n a2 = .ok (b2, o2)) : o1 = o2 ∧ Sync a1 a2 b1 b2 := by
  unfold Pipe.compareParsed at h1 h2
  simp only at h1 h2
  split at h1
  · cases h1
  · rename_i c1 hd1
    split at h2
    · cases h2
    · rename_i c2 hd2
      have s1 := notifyDups_sync _ _ _ _ _ hs hd1 hd2
      split at h1
      · cases h1
      · rename_i d1 he1
        split at h2
        · cases h2
        · rename_i d2 he2
          have s2 := notifyDups_sync _ _ _ _ _ (s1.filters hs) he1 he2
          split at h1
          · cases h1
          · rename_i t1 hf1
            split at h2
            · cases h2
            · rename_i t2 hf2
              obtain ⟨hl, s3⟩ := foldE_step_sync _ { obs := d1 } { obs := d2 } t1 t2
                ⟨s2.filters (s1.filters hs), rfl, rfl, rfl⟩ hf1 hf2
              rw [hl.missings, hl.skips] at h1
              split at h1
              · cases h1
              · rename_i out1 hm1
                rw [hm1] at h2
                simp only at h2
                injection h1 with h1; injection h2 with h2
                simp only [Prod.mk.injEq] at h1 h2
                obtain ⟨e1, e2⟩ := h1
                obtain ⟨e3, e4⟩ := h2
                subst e1; subst e2; subst e3; subst e4
                refine ⟨rfl, ((s1.trans s2).trans s3).trans ?_⟩
                rw [hl.stats]
                exact ⟨[.stats env.file (Pipe.statsList t2.stats)], stats_run _ _ _, stats_run _ _ _⟩

theorem compareBodyOf_sync (ext : Pipe.Ext) (cs : List (Path × ProjPipe.Content)) (md : List (Path × Text)) (c : Call)
    (junk : Nat) (l1 l2 : ObsList) (r1 r2 : ObsList × List Text × Nat) (hs : SameFilters l1 l2)
    (h1 : ProjPipe.compareBodyOf ext cs md c junk l1 = .ok r1) (h2 : ProjPipe.compareBodyOf ext cs md c junk l2 = .ok r2) :
    r1.2 = r2.2 ∧ ∃ evs, SyncRun l1 l2 r1.1 r2.1 evs := by
  unfold ProjPipe.compareBodyOf at h1 h2
  simp only at h1 h2
  cases hfm : ProjPipe.fmtOfName c.ref.file with
  | none => rw [hfm] at h1; cases h1
  | some fmt =>
    simp only [hfm] at h1 h2
    cases hck : Pipe.plainFmt fmt with
    | false => rw [hck] at h1; cases h1
    | true =>
      simp only [hck] at h1 h2
      cases hrc : ProjPipe.lookupContent cs c.refFull with
      | none => rw [hrc] at h1; cases h1
      | some rc =>
        simp only [hrc] at h1 h2
        cases rc with
        | error msg =>
          simp only at h1 h2
          split at h1
          · cases h1
          · rename_i m1 rv1 hn1
            split at h2
            · cases h2
            · rename_i m2 rv2 hn2
              injection h1 with h1; injection h2 with h2
              subst h1; subst h2
              obtain ⟨_, hr⟩ := notify_sync hs hn1 hn2
              exact ⟨rfl, _, hr⟩
        | text rt =>
          simp only at h1 h2
          cases hpr : Pipe.parseFile ext fmt rt.toArray junk with
          | error e => rw [hpr] at h1; cases h1
          | ok pr =>
            obtain ⟨ref, junk1⟩ := pr
            simp only [hpr] at h1 h2
            cases hlc : ProjPipe.lookupContent cs (some c.l10nFull) with
            | none => rw [hlc] at h1; cases h1
            | some lc =>
              simp only [hlc] at h1 h2
              cases lc with
              | error msg =>
                simp only at h1 h2
                split at h1
                · cases h1
                · rename_i m1 rv1 hn1
                  split at h2
                  · cases h2
                  · rename_i m2 rv2 hn2
                    injection h1 with h1; injection h2 with h2
                    subst h1; subst h2
                    obtain ⟨_, hr⟩ := notify_sync hs hn1 hn2
                    exact ⟨rfl, _, hr⟩
              | text lt =>
                simp only at h1 h2
                cases hpl : Pipe.parseFile ext fmt lt.toArray junk1 with
                | error e => rw [hpl] at h1; cases h1
                | ok pl =>
                  obtain ⟨l10n, junk2⟩ := pl
                  simp only [hpl] at h1 h2
                  split at h1
                  · cases h1
                  · rename_i b1 o1 hc1
                    split at h2
                    · cases h2
                    · rename_i b2 o2 hc2
                      obtain ⟨ho, sy⟩ := compareParsed_sync hs hc1 hc2
                      subst ho
                      cases hmg : c.merge with
                      | none =>
                        simp only [hmg] at h1 h2
                        injection h1 with h1; injection h2 with h2
                        subst h1; subst h2
                        exact ⟨rfl, sy⟩
                      | some mf =>
                        simp only [hmg] at h1 h2
                        by_cases hcap : (Pipe.capsOf fmt != Gen.Tables.CAN_NONE) = true
                        · simp only [hcap, ↓reduceIte] at h1 h2
                          cases hmd : List.find? (fun x => x.fst == mf) md with
                          | some e => rw [hmd] at h1; cases h1
                          | none =>
                            simp only [hmd] at h1 h2
                            injection h1 with h1; injection h2 with h2
                            subst h1; subst h2
                            exact ⟨rfl, sy⟩
                        · simp only [hcap, Bool.false_eq_true, ↓reduceIte] at h1 h2
                          injection h1 with h1; injection h2 with h2
                          subst h1; subst h2
                          exact ⟨rfl, sy⟩

theorem worldOf_compareSync (ext : Pipe.Ext) (cwd : Path) (enums : List (Option Text × Except ProjM.PyErr Files))
    (existing : List Path) (md : List (Path × Text)) (cs : List (Path × ProjPipe.Content)) :
    CompareSync (ProjPipe.worldOf ext cwd enums existing md cs) :=
  fun c junk l1 l2 r1 r2 hs h1 h2 => compareBodyOf_sync ext cs md c junk l1 l2 r1 r2 hs h1 h2

/-! ### two runs of `compareProjects` at two quiet levels -/

theorem All₂.join {α β γ : Type} {R : α → β → Prop} {S : α → γ → Prop} :
    ∀ {l : List α} {a : List β} {b : List γ}, All₂ R l a → All₂ S l b → All₂ (fun x y => ∃ z, R z x ∧ S z y) a b
  | [], _, _, h1, h2 => by cases h1; cases h2; exact All₂.nil
  | z :: zs, _, _, h1, h2 => by
    cases h1 with
    | cons r1 t1 =>
      cases h2 with
      | cons r2 t2 => exact All₂.cons ⟨z, r1, r2⟩ (All₂.join t1 t2)

theorem mkObservers_quiet (projects : List Project) (a : Args) (q : Nat) :
    mkObservers projects { a with quiet := q } = (filtersOf projects a).map (Obs.init q) := by
  simp [mkObservers, filtersOf, List.map_map, Function.comp_def]

/-- the two runs go through one common history -/
theorem compareProjects_sync {w : World} (hw : CompareSync w) (projects : List Project) (a : Args) (q q' : Nat)
    (junk : Nat) (st1 st2 : St)
    (h1 : compareProjects w projects { a with quiet := q } junk = .ok st1)
    (h2 : compareProjects w projects { a with quiet := q' } junk = .ok st2) :
    SimSt st1 st2 ∧ ∃ evs,
      (ObsList.init q ((filtersOf projects a).map (Obs.init q))).run evs = .ok st1.obs ∧
      (ObsList.init q' ((filtersOf projects a).map (Obs.init q'))).run evs = .ok st2.obs := by
  unfold compareProjects at h1 h2
  simp only at h1 h2
  have hal : allLocales projects { a with quiet := q } = allLocales projects { a with quiet := q' } := rfl
  rw [hal] at h1
  cases hs : sortedLocales (allLocales projects { a with quiet := q' }) with
  | error e => rw [hs] at h1; simp [fail] at h1
  | ok locales =>
    rw [hs] at h1 h2
    simp only at h1 h2
    rw [mkObservers_quiet] at h1 h2
    have h0 : SimSt { obs := ObsList.init q ((filtersOf projects a).map (Obs.init q)), junk := junk }
        { obs := ObsList.init q' ((filtersOf projects a).map (Obs.init q')), junk := junk } := by
      refine ⟨?_, rfl, rfl, rfl⟩
      unfold SameFilters ObsList.filters ObsList.init
      simp only [List.map_map]
      apply List.map_congr_left
      intro x _
      rfl
    obtain ⟨hsim, evs, r1, r2⟩ := localeLoop_sync hw { a with quiet := q } { a with quiet := q' } ⟨rfl, rfl, rfl⟩
      locales _ _ st1 st2 h0 h1 h2
    exact ⟨hsim, evs, r1, r2⟩

end C10P

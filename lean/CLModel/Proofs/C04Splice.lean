/- C04: what `merge` stages for printed `.properties` texts (text level), and the decidable stability predicates
   whose negations are the known findings F4 and F14. -/
import CLModel.Proofs.C04Junk
namespace C04R
open P Rx Merge Gen.Tables

/-- the text at `merge_file` after the merge, given the text of the l10n file (`none`: nothing staged from the
    l10n text: no file, a copy of the reference, or an exception) -/
def staged (contents : List Nat) : Outcome → Option (List Nat)
  | .copyL10n => some contents
  | .copyL10nPlus tr => some (contents ++ tr)
  | .written t => some t
  | _ => none

/-- the localized text: printed records, the last one with or without its final newline -/
def l10nText (rs : List PRec) (finalNl : Bool) : List Nat :=
  if finalNl then printProps rs else (printProps rs).dropLast

/-! ### stability predicates (decidable) -/

/-- properties: the text does not end in an odd run of backslashes (else an appended newline is a line continuation) -/
def evenBackslashTail (t : List Nat) : Bool := (t.reverse.takeWhile (· == 92)).length % 2 == 0

/-- a cut `[a, b)` does not fuse two lines: it starts at a line start, or it does not end in a newline, or it
    reaches the end of the text -/
def cutKeepsLines (contents : List Nat) (a b : Nat) : Bool :=
  a == 0 || decide (b ≤ a) || contents[a - 1]? == some 10 || contents[b - 1]? != some 10 || decide (contents.length ≤ b)

/-- stability of a `.properties`/`.ini` splice: every cut keeps the line structure, and — if reference entries are
    appended — the kept text does not end in an odd run of backslashes -/
def SpliceStable (contents : List Nat) (sorted : List Skip) (missingAlls : List (List Nat)) : Bool :=
  sorted.all (fun sk => match sk.span with | some (a, b) => cutKeepsLines contents a b | none => false) &&
  ((missingAlls.isEmpty && sorted.all (·.junk)) || evenBackslashTail (chunks contents sorted none))

theorem evenBackslashTail_of_last (t : List Nat) (h : ∀ c, t.getLast? = some c → c ≠ 92) :
    evenBackslashTail t = true := by
  unfold evenBackslashTail
  cases hr : t.reverse with
  | nil => simp
  | cons c rest =>
    have : t.getLast? = some c := by
      rw [List.getLast?_eq_head?_reverse, hr]; rfl
    have hc := h c this
    have hb : (c == 92) = false := by simp [hc]
    simp [List.takeWhile, hb]

theorem printRec_getLast (r : PRec) : (printRec r).getLast? = some 10 := by
  simp [printRec, List.getLast?_append, List.getLast?_cons]

theorem printProps_getLast (rs : List PRec) : ∀ c, (printProps rs).getLast? = some c → c = 10 := by
  induction rs with
  | nil => intro c h; simp [printProps] at h
  | cons r rs ih =>
    intro c h
    have e : printProps (r :: rs) = printRec r ++ printProps rs := by simp [printProps]
    rw [e, List.getLast?_append] at h
    cases hl : (printProps rs).getLast? with
    | none =>
      rw [hl, printRec_getLast] at h
      simpa using h.symm
    | some d =>
      rw [hl] at h
      simp at h
      subst h
      exact ih d hl

theorem printProps_dropLast (rs : List PRec) (h : rs ≠ []) : (printProps rs).dropLast ++ [10] = printProps rs := by
  have hne : printProps rs ≠ [] := by
    cases rs with
    | nil => exact absurd rfl h
    | cons r rs' => simp [printProps, printRec]
  have h1 := List.dropLast_concat_getLast hne
  have h2 : (printProps rs).getLast hne = 10 := printProps_getLast rs _ (List.getLast?_eq_some_getLast hne)
  rw [h2] at h1
  exact h1

theorem last_sep_val (v : List Nat) (h : ∀ c ∈ v, c ≠ 92) : (61 :: v).getLast (by simp) ≠ 92 := by
  have hm := List.getLast_mem (l := 61 :: v) (by simp)
  rcases List.mem_cons.mp hm with e | e
  · rw [e]; decide
  · exact h _ e

/-- the last character of a printed list without its final newline is a value character or `=` -/
theorem l10nText_last (rs : List PRec) (finalNl : Bool) (hrs : ∀ r ∈ rs, SafeRec r) :
    ∀ c, (l10nText rs finalNl).getLast? = some c → c ≠ 92 := by
  intro c hc
  unfold l10nText at hc
  cases finalNl with
  | true =>
    simp only [if_true] at hc
    have := printProps_getLast rs c hc
    omega
  | false =>
    simp only [Bool.false_eq_true, if_false] at hc
    rcases List.eq_nil_or_concat rs with rfl | ⟨init, r, rfl⟩
    · simp [printProps] at hc
    · rw [List.concat_eq_append] at hc hrs
      have hs := hrs r (by simp)
      have e : printProps (init ++ [r]) = (printProps init ++ (r.1 ++ 61 :: r.2)) ++ [10] := by
        simp [printProps, printRec]
      rw [e, List.dropLast_concat, List.getLast?_append] at hc
      have e2 : (r.1 ++ 61 :: r.2).getLast? = some ((61 :: r.2).getLast (by simp)) := by
        rw [List.getLast?_append]
        simp [List.getLast?_eq_some_getLast]
      rw [e2] at hc
      simp only [Option.some_or, Option.some.injEq] at hc
      subst hc
      exact last_sep_val r.2 (fun c hc => (hs.val c hc).1)

/-! ### the trailing block for printed reference entries -/

theorem ensureNewline_printRec (r : PRec) : ensureNewline (printRec r) = printRec r := by
  simp [ensureNewline, printRec_getLast]

theorem flatten_ensure_printed (ms : List PRec) :
    ((ms.map printRec).map ensureNewline).flatten = printProps ms := by
  induction ms with
  | nil => simp [printProps]
  | cons r ms ih =>
    simp only [List.map_cons, List.flatten_cons, ih, ensureNewline_printRec]
    simp [printProps]

theorem printProps_append (a b : List PRec) : printProps (a ++ b) = printProps a ++ printProps b := by
  simp [printProps]

theorem trailing_printed (ms : List PRec) : trailing (ms.map printRec) [] = 10 :: printProps ms := by
  simp only [trailing, List.filter_nil, List.map_nil, List.append_nil, List.map_cons, List.flatten_cons,
    flatten_ensure_printed]
  simp [ensureNewline]

theorem trailing_printed_junk (ms : List PRec) (sp : Option (Nat × Nat)) (x : List Nat) :
    trailing (ms.map printRec) [{ span := sp, junk := true, refAll := x }] = 10 :: printProps ms := by
  simp only [trailing, List.filter_cons, Bool.not_true, Bool.false_eq_true, if_false, List.filter_nil, List.map_nil,
    List.append_nil, List.map_cons, List.flatten_cons, flatten_ensure_printed]
  simp [ensureNewline]

theorem trailing_printed_entity (ms : List PRec) (sp : Option (Nat × Nat)) (r : PRec) :
    trailing (ms.map printRec) [{ span := sp, junk := false, refAll := printRec r }] =
      10 :: printProps (ms ++ [r]) := by
  have e : ms.map printRec ++ [printRec r] = (ms ++ [r]).map printRec := by simp
  have e2 : trailing (ms.map printRec) [{ span := sp, junk := false, refAll := printRec r }] =
      ensureNewline [10] ++ ((ms.map printRec ++ [printRec r]).map ensureNewline).flatten := by
    simp [trailing]
  rw [e2, e, flatten_ensure_printed]
  simp [ensureNewline]

/-- cutting one span out -/
theorem chunks_one (A X B : List Nat) (sk : Skip) (h : sk.span = some (A.length, A.length + X.length)) :
    chunks (A ++ (X ++ B)) [sk] none = A ++ B := by
  simp only [chunks, h, List.drop_zero, Nat.sub_zero]
  rw [List.take_left' rfl, ← List.append_assoc, List.drop_left' (by simp)]

/-- what `merge` stages for `.properties` when nothing is cut and reference entries are appended -/
theorem merge_append (contents : List Nat) (m : List Nat) (ms : List (List Nat)) :
    staged contents (merge true cap_properties contents [] (m :: ms)) = some (contents ++ trailing (m :: ms) []) := by
  simp [merge, hasCap, cap_properties, CAN_SKIP, CAN_MERGE, CAN_COPY, CAN_NONE, staged]

/-- … and when exactly one span is cut -/
theorem merge_one_skip (contents : List Nat) (sk : Skip) (ms : List (List Nat)) :
    staged contents (merge true cap_properties contents [sk] ms) =
      some (chunks contents [sk] none ++ trailing ms [sk]) := by
  simp [merge, hasCap, cap_properties, CAN_SKIP, CAN_MERGE, CAN_COPY, CAN_NONE, staged, sortSkips]

/-! ### the entity of one record inside a printed list -/

theorem mem_expEntries (rs1 : List PRec) (rb : PRec) (rs2 : List PRec) :
    ∀ off, propsEntity_c02 (off + (printProps rs1).length) rb.1.length rb.2.length ∈ expEntries off (rs1 ++ rb :: rs2) := by
  induction rs1 with
  | nil => intro off; simp [printProps, expEntries]
  | cons r rs1 ih =>
    intro off
    have e : printProps (r :: rs1) = printRec r ++ printProps rs1 := by simp [printProps]
    simp only [List.cons_append, expEntries, List.mem_cons]
    right; right
    have := ih (off + r.1.length + 1 + r.2.length + 1)
    rw [e, List.length_append, printRec_length]
    rw [show off + (r.1.length + 1 + r.2.length + 1 + (printProps rs1).length) =
      off + r.1.length + 1 + r.2.length + 1 + (printProps rs1).length by omega]
    exact this

/-! ### the staged texts as token lists -/

theorem toks_two (rs ms : List PRec) :
    printProps rs ++ 10 :: printProps ms = printToks (rs.map .record ++ .nl :: ms.map .record) ∧
      recsOf (rs.map .record ++ .nl :: ms.map .record) = rs ++ ms := by
  constructor
  · rw [printToks_append, printToks_recs]
    simp [printToks, printToks_recs]
  · rw [recsOf_append, recsOf_recs]
    simp [recsOf, recsOf_recs]

theorem toks_three (rs1 rs2 ms : List PRec) :
    printProps rs1 ++ 10 :: (printProps rs2 ++ 10 :: printProps ms) =
        printToks (rs1.map .record ++ .nl :: (rs2.map .record ++ .nl :: ms.map .record)) ∧
      recsOf (rs1.map .record ++ .nl :: (rs2.map .record ++ .nl :: ms.map .record)) = rs1 ++ rs2 ++ ms := by
  obtain ⟨a, b⟩ := toks_two rs2 ms
  constructor
  · rw [printToks_append, printToks_recs]
    simp only [printToks]
    rw [← a]
  · rw [recsOf_append, recsOf_recs]
    simp only [recsOf]
    rw [b, List.append_assoc]

theorem l10nText_append_toks (rs ms : List PRec) (finalNl : Bool) :
    ∃ toks, l10nText rs finalNl ++ 10 :: printProps ms = printToks toks ∧ recsOf toks = rs ++ ms := by
  cases finalNl with
  | true => exact ⟨_, by simpa [l10nText] using (toks_two rs ms).1, (toks_two rs ms).2⟩
  | false =>
    by_cases h : rs = []
    · subst h
      exact ⟨_, by simpa [l10nText, printProps] using (toks_two [] ms).1, (toks_two [] ms).2⟩
    · refine ⟨(rs ++ ms).map .record, ?_, recsOf_recs _⟩
      rw [printToks_recs, printProps_append, ← printProps_dropLast rs h]
      simp [l10nText]

/-- a text that is a token list of safe records re-parses to exactly these records -/
theorem reparse_toks (t : List Nat) (toks : List Tok) (recs : List PRec) (ht : t = printToks toks)
    (hr : recsOf toks = recs) (hs : ∀ r ∈ recs, SafeRec r) :
    ∃ es, walk .properties t.toArray = .done es ∧
      entitiesOf .properties t.toArray es = recs.map expectedView ∧ junkOf t.toArray es = [] := by
  subst ht; subst hr
  exact walk_toks toks hs

/-! ### the printed class is stable -/

theorem printProps_ne_nil (rs : List PRec) (h : rs ≠ []) : printProps rs ≠ [] := by
  cases rs with
  | nil => exact absurd rfl h
  | cons r rs' => simp [printProps, printRec]

theorem printProps_last_elem (rs : List PRec) (h : rs ≠ []) :
    (printProps rs)[(printProps rs).length - 1]? = some 10 := by
  have hne := printProps_ne_nil rs h
  rw [← List.getLast?_eq_getElem?, List.getLast?_eq_some_getLast hne]
  congr 1
  exact printProps_getLast rs _ (List.getLast?_eq_some_getLast hne)

/-- a cut that starts right after a printed list of records starts at a line start -/
theorem cutKeepsLines_after_printed (rs : List PRec) (rest : List Nat) (b : Nat) :
    cutKeepsLines (printProps rs ++ rest) (printProps rs).length b = true := by
  unfold cutKeepsLines
  by_cases h : rs = []
  · subst h; simp [printProps]
  · have hne := printProps_ne_nil rs h
    have hl : 0 < (printProps rs).length := List.length_pos_iff.mpr hne
    rw [List.getElem?_append_left (by omega), printProps_last_elem rs h]
    simp

theorem last_printed_two (X : List Nat) (rs : List PRec) :
    ∀ c, (X ++ 10 :: printProps rs).getLast? = some c → c ≠ 92 := by
  intro c hc
  rw [show X ++ 10 :: printProps rs = (X ++ [10]) ++ printProps rs by simp, List.getLast?_append] at hc
  cases hl : (printProps rs).getLast? with
  | none =>
    rw [hl] at hc
    simp at hc
    omega
  | some d =>
    rw [hl] at hc
    simp at hc
    have := printProps_getLast rs d hl
    omega

theorem append_stable (rs ms : List PRec) (finalNl : Bool) (hrs : ∀ r ∈ rs, SafeRec r) :
    SpliceStable (l10nText rs finalNl) [] (ms.map printRec) = true := by
  have : chunks (l10nText rs finalNl) [] none = l10nText rs finalNl := by simp [chunks]
  simp [SpliceStable, this, evenBackslashTail_of_last _ (l10nText_last rs finalNl hrs)]

theorem cut_stable (rs1 rs2 : List PRec) (G : List Nat) (missingAlls : List (List Nat)) (jk : Bool) (ra : List Nat) :
    SpliceStable (withGarbage rs1 G rs2)
      [{ span := some ((printProps rs1).length, (printProps rs1).length + G.length + 1), junk := jk, refAll := ra }]
      missingAlls = true := by
  have e : withGarbage rs1 G rs2 = printProps rs1 ++ ((G ++ [10]) ++ printProps rs2) := by simp [withGarbage]
  have hc : chunks (withGarbage rs1 G rs2)
      [{ span := some ((printProps rs1).length, (printProps rs1).length + G.length + 1), junk := jk, refAll := ra }] none =
      printProps (rs1 ++ rs2) := by
    rw [e, chunks_one _ _ _ _ (by simp; omega), printProps_append]
  have hk := cutKeepsLines_after_printed rs1 ((G ++ [10]) ++ printProps rs2) ((printProps rs1).length + G.length + 1)
  rw [← e] at hk
  have hl : evenBackslashTail (printProps (rs1 ++ rs2)) = true :=
    evenBackslashTail_of_last _ (fun c hc => by have := printProps_getLast _ c hc; omega)
  simp [SpliceStable, hc, hk, hl]

theorem skip_entity_stable (rs1 rs2 : List PRec) (rb : PRec) (missingAlls : List (List Nat)) (jk : Bool) (ra : List Nat) :
    SpliceStable (printProps (rs1 ++ rb :: rs2))
      [{ span := some ((printProps rs1).length, (printProps rs1).length + rb.1.length + 1 + rb.2.length), junk := jk, refAll := ra }]
      missingAlls = true := by
  have e : printProps (rs1 ++ rb :: rs2) = printProps rs1 ++ ((rb.1 ++ 61 :: rb.2) ++ 10 :: printProps rs2) := by
    simp [printProps, printRec]
  have hc : chunks (printProps (rs1 ++ rb :: rs2))
      [{ span := some ((printProps rs1).length, (printProps rs1).length + rb.1.length + 1 + rb.2.length), junk := jk, refAll := ra }] none =
      printProps rs1 ++ 10 :: printProps rs2 := by
    rw [e, chunks_one _ _ _ _ (by simp; omega)]
  have hk := cutKeepsLines_after_printed rs1 ((rb.1 ++ 61 :: rb.2) ++ 10 :: printProps rs2)
    ((printProps rs1).length + rb.1.length + 1 + rb.2.length)
  rw [← e] at hk
  have hl : evenBackslashTail (printProps rs1 ++ 10 :: printProps rs2) = true :=
    evenBackslashTail_of_last _ (last_printed_two _ rs2)
  simp [SpliceStable, hc, hk, hl]

end C04R

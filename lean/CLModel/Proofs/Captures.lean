/- Capture invariant of the regex engine: for a regex without look-around, every capture recorded
   during a successful match lies inside the matched region, and a group that sits on every
   path through the regex (`mustCap`) is recorded. -/
import CLModel.Rx.Basic
import CLModel.Proofs.RxLemmas
namespace Rx

/-- no look-around node anywhere -/
def noLook : Re → Bool
  | .seq a b | .alt a b => noLook a && noLook b
  | .rep _ _ _ r | .group _ r => noLook r
  | .look _ _ _ => false
  | _ => true

/-- group `g` is recorded by every successful match -/
def mustCap (g : Nat) : Re → Bool
  | .seq a b => mustCap g a || mustCap g b
  | .alt a b => mustCap g a && mustCap g b
  | .group i r => i == g || mustCap g r
  | .rep mn _ _ r => decide (0 < mn) && mustCap g r
  | _ => false

/-- `st'` extends `st`: position not smaller, captures are `new ++ old` with the new ones inside
    `[st.pos, st'.pos]`; if `must`, one of the new ones is group `g`. -/
def Ext (g : Nat) (must : Bool) (st st' : St) : Prop :=
  st.pos ≤ st'.pos ∧ ∃ new, st'.caps = new ++ st.caps ∧
    (∀ c ∈ new, st.pos ≤ c.2.1 ∧ c.2.1 ≤ c.2.2 ∧ c.2.2 ≤ st'.pos) ∧
    (must = true → ∃ c ∈ new, c.1 = g)

theorem Ext.refl (g : Nat) (st : St) : Ext g false st st :=
  ⟨Nat.le_refl _, [], by simp, by simp, by simp⟩

theorem Ext.step (g : Nat) (st : St) (n : Nat) : Ext g false st { st with pos := st.pos + n } :=
  ⟨by simp, [], by simp, by simp, by simp⟩

theorem Ext.trans {g b1 b2 st st1 st2} (h1 : Ext g b1 st st1) (h2 : Ext g b2 st1 st2) :
    Ext g (b1 || b2) st st2 := by
  obtain ⟨p1, n1, e1, c1, m1⟩ := h1
  obtain ⟨p2, n2, e2, c2, m2⟩ := h2
  refine ⟨by omega, n2 ++ n1, by rw [e2, e1, List.append_assoc], ?_, ?_⟩
  · intro c hc
    rcases List.mem_append.mp hc with hc | hc
    · have := c2 c hc; omega
    · have := c1 c hc; omega
  · intro hb
    rcases Bool.or_eq_true_iff.mp hb with hb | hb
    · obtain ⟨c, hc, hg⟩ := m1 hb
      exact ⟨c, List.mem_append.mpr (Or.inr hc), hg⟩
    · obtain ⟨c, hc, hg⟩ := m2 hb
      exact ⟨c, List.mem_append.mpr (Or.inl hc), hg⟩

theorem Ext.weaken {g b1 b2 st st'} (h : Ext g b1 st st') (hb : b2 = true → b1 = true) :
    Ext g b2 st st' := by
  obtain ⟨p1, n1, e1, c1, m1⟩ := h
  exact ⟨p1, n1, e1, c1, fun h => m1 (hb h)⟩

def GoodC (g : Nat) (b : Bool) (f : St → K → Option St) : Prop :=
  ∀ st k res, f st k = some res → ∃ st', Ext g b st st' ∧ k st' = some res

theorem loop_caps (body : St → K → Option St) (g : Nat) (b : Bool) (gr : Bool)
    (hb : GoodC g b body) :
    ∀ fuel mn mx, GoodC g (decide (0 < mn) && b) (fun st k => loop body gr fuel mn mx st k) := by
  intro fuel
  induction fuel with
  | zero => intro mn mx st k res h; simp [loop] at h
  | succ fuel ih =>
    intro mn mx st k res h
    simp only [loop] at h
    generalize hmdef : (if mx == some 0 then none else
          body st (fun st' => if st'.pos ≤ st.pos then none else
            loop body gr fuel (mn - 1) (mx.map (· - 1)) st' k)) = more at h
    have hmore : ∀ res, more = some res →
        ∃ st', Ext g (decide (0 < mn) && b) st st' ∧ k st' = some res := by
      intro res hm
      rw [← hmdef] at hm
      split at hm
      · cases hm
      · obtain ⟨st1, h1, h3⟩ := hb _ _ _ hm
        split at h3
        · cases h3
        · obtain ⟨st2, h4, h6⟩ := ih (mn - 1) (mx.map (· - 1)) st1 k res h3
          refine ⟨st2, (h1.trans h4).weaken ?_, h6⟩
          intro hx
          simp only [Bool.and_eq_true] at hx
          simp [hx.2]
    split at h
    · exact hmore _ h
    · have hz : mn = 0 := by omega
      subst hz
      split at h
      · rcases orElse_some h with h' | ⟨_, h'⟩
        · exact hmore _ h'
        · exact ⟨st, by simpa using Ext.refl g st, h'⟩
      · rcases orElse_some h with h' | ⟨_, h'⟩
        · exact ⟨st, by simpa using Ext.refl g st, h'⟩
        · exact hmore _ h'

theorem m_caps (s : Array Nat) (g : Nat) : ∀ r, noLook r = true → GoodC g (mustCap g r) (m s r) := by
  intro r
  induction r with
  | eps => intro _ st k res h; exact ⟨st, Ext.refl g st, by simpa [m] using h⟩
  | lit c =>
    intro _ st k res h
    simp only [m] at h
    split at h
    · exact ⟨_, Ext.step g st 1, h⟩
    · cases h
  | notLit c =>
    intro _ st k res h
    simp only [m] at h
    split at h
    · split at h
      · exact ⟨_, Ext.step g st 1, h⟩
      · cases h
    · cases h
  | any da =>
    intro _ st k res h
    simp only [m] at h
    split at h
    · split at h
      · exact ⟨_, Ext.step g st 1, h⟩
      · cases h
    · cases h
  | cls neg items =>
    intro _ st k res h
    simp only [m] at h
    split at h
    · split at h
      · exact ⟨_, Ext.step g st 1, h⟩
      · cases h
    · cases h
  | seq a b iha ihb =>
    intro hn st k res h
    simp only [noLook, Bool.and_eq_true] at hn
    simp only [m] at h
    obtain ⟨st1, h1, h3⟩ := iha hn.1 _ _ _ h
    obtain ⟨st2, h4, h6⟩ := ihb hn.2 _ _ _ h3
    exact ⟨st2, h1.trans h4, h6⟩
  | alt a b iha ihb =>
    intro hn st k res h
    simp only [noLook, Bool.and_eq_true] at hn
    simp only [m] at h
    rcases orElse_some h with h' | ⟨_, h'⟩
    · obtain ⟨st1, h1, h3⟩ := iha hn.1 _ _ _ h'
      exact ⟨st1, h1.weaken (by simp [mustCap]; intro x _; exact x), h3⟩
    · obtain ⟨st1, h1, h3⟩ := ihb hn.2 _ _ _ h'
      exact ⟨st1, h1.weaken (by simp [mustCap]), h3⟩
  | group i r ih =>
    intro hn st k res h
    simp only [noLook] at hn
    simp only [m] at h
    obtain ⟨st1, ⟨p1, n1, e1, c1, m1⟩, h3⟩ := ih hn _ _ _ h
    refine ⟨{ st1 with caps := (i, st.pos, st1.pos) :: st1.caps }, ⟨p1, (i, st.pos, st1.pos) :: n1, by simp [e1], ?_, ?_⟩, h3⟩
    · intro c hc
      rcases List.mem_cons.mp hc with rfl | hc
      · simp; omega
      · exact c1 c hc
    · intro hm
      simp only [mustCap, Bool.or_eq_true, beq_iff_eq] at hm
      rcases hm with rfl | hm
      · exact ⟨_, List.mem_cons_self .., rfl⟩
      · obtain ⟨c, hc, hg⟩ := m1 hm
        exact ⟨c, List.mem_cons_of_mem _ hc, hg⟩
  | backref i =>
    intro _ st k res h
    simp only [m] at h
    split at h
    · split at h
      · exact ⟨_, Ext.step g st _, h⟩
      · cases h
    · cases h
  | bol ml => intro _ st k res h; simp only [m] at h; split at h
              · exact ⟨st, Ext.refl g st, h⟩
              · cases h
  | eol ml => intro _ st k res h; simp only [m] at h; split at h
              · exact ⟨st, Ext.refl g st, h⟩
              · cases h
  | eos => intro _ st k res h; simp only [m] at h; split at h
           · exact ⟨st, Ext.refl g st, h⟩
           · cases h
  | look ahead neg r ih => intro hn; simp [noLook] at hn
  | rep mn mx gr r ih =>
    intro hn st k res h
    simp only [noLook] at hn
    simp only [m] at h
    exact loop_caps (m s r) g (mustCap g r) gr (ih hn) (s.size + 2 - st.pos) mn mx st k res h

/-- a `mustCap` group of a look-around-free regex is set after a match at `p`, inside `[p, end]` -/
theorem matchAt_group {s : Array Nat} {r : Re} {p : Nat} {st : St} (g : Nat)
    (h : matchAt s r p = some st) (hn : noLook r = true) (hm : mustCap g r = true) :
    ∃ a b, st.group g = some (a, b) ∧ p ≤ a ∧ a ≤ b ∧ b ≤ st.pos := by
  obtain ⟨st', ⟨_, new, e1, c1, m1⟩, h3⟩ := m_caps s g r hn ⟨p, []⟩ some st h
  simp at h3; subst h3
  obtain ⟨c, hc, hg⟩ := m1 hm
  simp only [List.append_nil] at e1
  have hf : ∃ c', new.find? (·.1 == g) = some c' := by
    cases hfind : new.find? (·.1 == g) with
    | some c' => exact ⟨c', rfl⟩
    | none =>
      have := List.find?_eq_none.mp hfind c hc
      simp [hg] at this
  obtain ⟨c', hc'⟩ := hf
  have hmem := List.mem_of_find?_eq_some hc'
  obtain ⟨i, a, b⟩ := c'
  have := c1 _ hmem
  refine ⟨a, b, ?_, this⟩
  simp [St.group, capOf, e1, hc']

/-! ### groups that may be unset: position and minimal length of whatever was captured -/

/-- every `group g` node of the regex has a body of minimal length at least `L` -/
def grpMin (g L : Nat) : Re → Bool
  | .seq a b | .alt a b => grpMin g L a && grpMin g L b
  | .rep _ _ _ r | .look _ _ r => grpMin g L r
  | .group i r => (i != g || decide (L ≤ minLen r)) && grpMin g L r
  | _ => true

/-- `st'` extends `st` by at least `n` characters; the new captures lie inside `[st.pos, st'.pos]`
    and those of group `g` are at least `L` long -/
def ExtL (g L n : Nat) (st st' : St) : Prop :=
  st.pos + n ≤ st'.pos ∧ ∃ new, st'.caps = new ++ st.caps ∧
    ∀ c ∈ new, st.pos ≤ c.2.1 ∧ c.2.1 ≤ c.2.2 ∧ c.2.2 ≤ st'.pos ∧ (c.1 = g → c.2.1 + L ≤ c.2.2)

theorem ExtL.refl (g L : Nat) (st : St) : ExtL g L 0 st st :=
  ⟨Nat.le_refl _, [], by simp, by simp⟩

theorem ExtL.step (g L : Nat) (st : St) (n : Nat) : ExtL g L n st { st with pos := st.pos + n } :=
  ⟨by simp, [], by simp, by simp⟩

theorem ExtL.trans {g L n1 n2 st st1 st2} (h1 : ExtL g L n1 st st1) (h2 : ExtL g L n2 st1 st2) :
    ExtL g L (n1 + n2) st st2 := by
  obtain ⟨p1, l1, e1, c1⟩ := h1
  obtain ⟨p2, l2, e2, c2⟩ := h2
  refine ⟨by omega, l2 ++ l1, by rw [e2, e1, List.append_assoc], ?_⟩
  intro c hc
  rcases List.mem_append.mp hc with hc | hc
  · have := c2 c hc; exact ⟨by omega, this.2.1, this.2.2.1, this.2.2.2⟩
  · have := c1 c hc; exact ⟨this.1, this.2.1, by omega, this.2.2.2⟩

theorem ExtL.weaken {g L n n' st st'} (h : ExtL g L n st st') (hn : n' ≤ n) : ExtL g L n' st st' := by
  obtain ⟨p1, l1, e1, c1⟩ := h
  exact ⟨by omega, l1, e1, c1⟩

def GoodL (g L n : Nat) (f : St → K → Option St) : Prop :=
  ∀ st k res, f st k = some res → ∃ st', ExtL g L n st st' ∧ k st' = some res

theorem loop_capsL (body : St → K → Option St) (g L n : Nat) (gr : Bool) (hb : GoodL g L n body) :
    ∀ fuel mn mx, GoodL g L (mn * n) (fun st k => loop body gr fuel mn mx st k) := by
  intro fuel
  induction fuel with
  | zero => intro mn mx st k res h; simp [loop] at h
  | succ fuel ih =>
    intro mn mx st k res h
    simp only [loop] at h
    generalize hmdef : (if mx == some 0 then none else
          body st (fun st' => if st'.pos ≤ st.pos then none else
            loop body gr fuel (mn - 1) (mx.map (· - 1)) st' k)) = more at h
    have hmore : ∀ res, more = some res → ∃ st', ExtL g L (mn * n) st st' ∧ k st' = some res := by
      intro res hm
      rw [← hmdef] at hm
      split at hm
      · cases hm
      · obtain ⟨st1, h1, h3⟩ := hb _ _ _ hm
        split at h3
        · cases h3
        · obtain ⟨st2, h4, h6⟩ := ih (mn - 1) (mx.map (· - 1)) st1 k res h3
          refine ⟨st2, (h1.trans h4).weaken ?_, h6⟩
          cases mn with
          | zero => simp
          | succ m => simp [Nat.succ_mul, Nat.add_comm]
    split at h
    · exact hmore _ h
    · have hz : mn = 0 := by omega
      subst hz
      split at h
      · rcases orElse_some h with h' | ⟨_, h'⟩
        · exact hmore _ h'
        · exact ⟨st, by simpa using ExtL.refl g L st, h'⟩
      · rcases orElse_some h with h' | ⟨_, h'⟩
        · exact ⟨st, by simpa using ExtL.refl g L st, h'⟩
        · exact hmore _ h'

theorem m_capsL (s : Array Nat) (g L : Nat) :
    ∀ r, noLook r = true → grpMin g L r = true → GoodL g L (minLen r) (m s r) := by
  intro r
  induction r with
  | eps => intro _ _ st k res h; exact ⟨st, ExtL.refl g L st, by simpa [m] using h⟩
  | lit c =>
    intro _ _ st k res h
    simp only [m] at h
    split at h
    · exact ⟨_, ExtL.step g L st 1, h⟩
    · cases h
  | notLit c =>
    intro _ _ st k res h
    simp only [m] at h
    split at h
    · split at h
      · exact ⟨_, ExtL.step g L st 1, h⟩
      · cases h
    · cases h
  | any da =>
    intro _ _ st k res h
    simp only [m] at h
    split at h
    · split at h
      · exact ⟨_, ExtL.step g L st 1, h⟩
      · cases h
    · cases h
  | cls neg items =>
    intro _ _ st k res h
    simp only [m] at h
    split at h
    · split at h
      · exact ⟨_, ExtL.step g L st 1, h⟩
      · cases h
    · cases h
  | seq a b iha ihb =>
    intro hn hg st k res h
    simp only [noLook, Bool.and_eq_true] at hn
    simp only [grpMin, Bool.and_eq_true] at hg
    simp only [m] at h
    obtain ⟨st1, h1, h3⟩ := iha hn.1 hg.1 _ _ _ h
    obtain ⟨st2, h4, h6⟩ := ihb hn.2 hg.2 _ _ _ h3
    exact ⟨st2, h1.trans h4, h6⟩
  | alt a b iha ihb =>
    intro hn hg st k res h
    simp only [noLook, Bool.and_eq_true] at hn
    simp only [grpMin, Bool.and_eq_true] at hg
    simp only [m] at h
    rcases orElse_some h with h' | ⟨_, h'⟩
    · obtain ⟨st1, h1, h3⟩ := iha hn.1 hg.1 _ _ _ h'
      exact ⟨st1, h1.weaken (by simp [minLen]; omega), h3⟩
    · obtain ⟨st1, h1, h3⟩ := ihb hn.2 hg.2 _ _ _ h'
      exact ⟨st1, h1.weaken (by simp [minLen]; omega), h3⟩
  | group i r ih =>
    intro hn hg st k res h
    simp only [noLook] at hn
    simp only [grpMin, Bool.and_eq_true, Bool.or_eq_true, bne_iff_ne, decide_eq_true_eq] at hg
    simp only [m] at h
    obtain ⟨st1, ⟨p1, n1, e1, c1⟩, h3⟩ := ih hn hg.2 _ _ _ h
    refine ⟨{ st1 with caps := (i, st.pos, st1.pos) :: st1.caps },
      ⟨p1, (i, st.pos, st1.pos) :: n1, by simp [e1], ?_⟩, h3⟩
    intro c hc
    rcases List.mem_cons.mp hc with rfl | hc
    · refine ⟨Nat.le_refl _, by simp only; omega, Nat.le_refl _, fun hi => ?_⟩
      simp only at hi ⊢
      rcases hg.1 with hne | hle
      · exact absurd hi hne
      · omega
    · exact c1 c hc
  | backref i =>
    intro _ _ st k res h
    simp only [m] at h
    split at h
    · split at h
      · exact ⟨_, (ExtL.step g L st _).weaken (by simp [minLen]), h⟩
      · cases h
    · cases h
  | bol ml => intro _ _ st k res h; simp only [m] at h; split at h
              · exact ⟨st, ExtL.refl g L st, h⟩
              · cases h
  | eol ml => intro _ _ st k res h; simp only [m] at h; split at h
              · exact ⟨st, ExtL.refl g L st, h⟩
              · cases h
  | eos => intro _ _ st k res h; simp only [m] at h; split at h
           · exact ⟨st, ExtL.refl g L st, h⟩
           · cases h
  | look ahead neg r ih => intro hn; simp [noLook] at hn
  | rep mn mx gr r ih =>
    intro hn hg st k res h
    simp only [noLook] at hn
    simp only [grpMin] at hg
    simp only [m] at h
    exact loop_capsL (m s r) g L (minLen r) gr (ih hn hg) (s.size + 2 - st.pos) mn mx st k res h

/-- whatever a look-around-free regex captured for group `g` lies inside the match and is at
    least `L` long if every `group g` body is (take `L = 0` for the bare position fact) -/
theorem matchAt_group_opt {s : Array Nat} {r : Re} {p : Nat} {st : St} (g L : Nat) {a b : Nat}
    (h : matchAt s r p = some st) (hn : noLook r = true) (hl : grpMin g L r = true)
    (hg : st.group g = some (a, b)) : p ≤ a ∧ a + L ≤ b ∧ b ≤ st.pos := by
  obtain ⟨st', ⟨_, new, e1, c1⟩, h3⟩ := m_capsL s g L r hn hl ⟨p, []⟩ some st h
  simp at h3; subst h3
  simp only [List.append_nil] at e1
  simp only [St.group, capOf, e1] at hg
  split at hg
  · rename_i i a' b' hf
    simp only [Option.some.injEq, Prod.mk.injEq] at hg
    obtain ⟨rfl, rfl⟩ := hg
    have hmem := List.mem_of_find?_eq_some hf
    have hi : i = g := by simpa using List.find?_some hf
    have := c1 _ hmem
    exact ⟨this.1, this.2.2.2 hi, this.2.2.1⟩
  · cases hg

end Rx

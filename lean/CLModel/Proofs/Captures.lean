/- Capture invariant of the regex engine: for a regex without look-around, every capture recorded
   during a successful match lies inside the matched region, and a group that sits on every
   path through the regex (`mustCap`) is recorded. -/
import CLModel.Rx.Basic
import CLModel.Proofs.RxLemmas
namespace Rx

/-- no look-around node anywhere -/
def noLook : Re → Bool
  | .seq a b | .alt a b => noLook a && noLook b
  | .rep _ _ _ r | .group _ r => noLook r
  | .look _ _ _ => false
  | _ => true

/-- group `g` is recorded by every successful match -/
def mustCap (g : Nat) : Re → Bool
  | .seq a b => mustCap g a || mustCap g b
  | .alt a b => mustCap g a && mustCap g b
  | .group i r => i == g || mustCap g r
  | .rep mn _ _ r => decide (0 < mn) && mustCap g r
  | _ => false

/-- `st'` extends `st`: position not smaller, captures are `new ++ old` with the new ones inside
    `[st.pos, st'.pos]`; if `must`, one of the new ones is group `g`. -/
def Ext (g : Nat) (must : Bool) (st st' : St) : Prop :=
  st.pos ≤ st'.pos ∧ ∃ new, st'.caps = new ++ st.caps ∧
    (∀ c ∈ new, st.pos ≤ c.2.1 ∧ c.2.1 ≤ c.2.2 ∧ c.2.2 ≤ st'.pos) ∧
    (must = true → ∃ c ∈ new, c.1 = g)

theorem Ext.refl (g : Nat) (st : St) : Ext g false st st :=
  ⟨Nat.le_refl _, [], by simp, by simp, by simp⟩

theorem Ext.step (g : Nat) (st : St) (n : Nat) : Ext g false st { st with pos := st.pos + n } :=
  ⟨by simp, [], by simp, by simp, by simp⟩

theorem Ext.trans {g b1 b2 st st1 st2} (h1 : Ext g b1 st st1) (h2 : Ext g b2 st1 st2) :
    Ext g (b1 || b2) st st2 := by
  obtain ⟨p1, n1, e1, c1, m1⟩ := h1
  obtain ⟨p2, n2, e2, c2, m2⟩ := h2
  refine ⟨by omega, n2 ++ n1, by rw [e2, e1, List.append_assoc], ?_, ?_⟩
  · intro c hc
    rcases List.mem_append.mp hc with hc | hc
    · have := c2 c hc; omega
    · have := c1 c hc; omega
  · intro hb
    rcases Bool.or_eq_true_iff.mp hb with hb | hb
    · obtain ⟨c, hc, hg⟩ := m1 hb
      exact ⟨c, List.mem_append.mpr (Or.inr hc), hg⟩
    · obtain ⟨c, hc, hg⟩ := m2 hb
      exact ⟨c, List.mem_append.mpr (Or.inl hc), hg⟩

theorem Ext.weaken {g b1 b2 st st'} (h : Ext g b1 st st') (hb : b2 = true → b1 = true) :
    Ext g b2 st st' := by
  obtain ⟨p1, n1, e1, c1, m1⟩ := h
  exact ⟨p1, n1, e1, c1, fun h => m1 (hb h)⟩

def GoodC (g : Nat) (b : Bool) (f : St → K → Option St) : Prop :=
  ∀ st k res, f st k = some res → ∃ st', Ext g b st st' ∧ k st' = some res

theorem loop_caps (body : St → K → Option St) (g : Nat) (b : Bool) (gr : Bool)
    (hb : GoodC g b body) :
    ∀ fuel mn mx, GoodC g (decide (0 < mn) && b) (fun st k => loop body gr fuel mn mx st k) := by
  intro fuel
  induction fuel with
  | zero => intro mn mx st k res h; simp [loop] at h
  | succ fuel ih =>
    intro mn mx st k res h
    simp only [loop] at h
    generalize hmdef : (if mx == some 0 then none else
          body st (fun st' => if st'.pos ≤ st.pos then none else
            loop body gr fuel (mn - 1) (mx.map (· - 1)) st' k)) = more at h
    have hmore : ∀ res, more = some res →
        ∃ st', Ext g (decide (0 < mn) && b) st st' ∧ k st' = some res := by
      intro res hm
      rw [← hmdef] at hm
      split at hm
      · cases hm
      · obtain ⟨st1, h1, h3⟩ := hb _ _ _ hm
        split at h3
        · cases h3
        · obtain ⟨st2, h4, h6⟩ := ih (mn - 1) (mx.map (· - 1)) st1 k res h3
          refine ⟨st2, (h1.trans h4).weaken ?_, h6⟩
          intro hx
          simp only [Bool.and_eq_true] at hx
          simp [hx.2]
    split at h
    · exact hmore _ h
    · have hz : mn = 0 := by omega
      subst hz
      split at h
      · rcases orElse_some h with h' | ⟨_, h'⟩
        · exact hmore _ h'
        · exact ⟨st, by simpa using Ext.refl g st, h'⟩
      · rcases orElse_some h with h' | ⟨_, h'⟩
        · exact ⟨st, by simpa using Ext.refl g st, h'⟩
        · exact hmore _ h'

theorem m_caps (s : Array Nat) (g : Nat) : ∀ r, noLook r = true → GoodC g (mustCap g r) (m s r) := by
  intro r
  induction r with
  | eps => intro _ st k res h; exact ⟨st, Ext.refl g st, by simpa [m] using h⟩
  | lit c =>
    intro _ st k res h
    simp only [m] at h
    split at h
    · exact ⟨_, Ext.step g st 1, h⟩
    · cases h
  | notLit c =>
    intro _ st k res h
    simp only [m] at h
    split at h
    · split at h
      · exact ⟨_, Ext.step g st 1, h⟩
      · cases h
    · cases h
  | any da =>
    intro _ st k res h
    simp only [m] at h
    split at h
    · split at h
      · exact ⟨_, Ext.step g st 1, h⟩
      · cases h
    · cases h
  | cls neg items =>
    intro _ st k res h
    simp only [m] at h
    split at h
    · split at h
      · exact ⟨_, Ext.step g st 1, h⟩
      · cases h
    · cases h
  | seq a b iha ihb =>
    intro hn st k res h
    simp only [noLook, Bool.and_eq_true] at hn
    simp only [m] at h
    obtain ⟨st1, h1, h3⟩ := iha hn.1 _ _ _ h
    obtain ⟨st2, h4, h6⟩ := ihb hn.2 _ _ _ h3
    exact ⟨st2, h1.trans h4, h6⟩
  | alt a b iha ihb =>
    intro hn st k res h
    simp only [noLook, Bool.and_eq_true] at hn
    simp only [m] at h
    rcases orElse_some h with h' | ⟨_, h'⟩
    · obtain ⟨st1, h1, h3⟩ := iha hn.1 _ _ _ h'
      exact ⟨st1, h1.weaken (by simp [mustCap]; intro x _; exact x), h3⟩
    · obtain ⟨st1, h1, h3⟩ := ihb hn.2 _ _ _ h'
      exact ⟨st1, h1.weaken (by simp [mustCap]), h3⟩
  | group i r ih =>
    intro hn st k res h
    simp only [noLook] at hn
    simp only [m] at h
    obtain ⟨st1, ⟨p1, n1, e1, c1, m1⟩, h3⟩ := ih hn _ _ _ h
    refine ⟨{ st1 with caps := (i, st.pos, st1.pos) :: st1.caps }, ⟨p1, (i, st.pos, st1.pos) :: n1, by simp [e1], ?_, ?_⟩, h3⟩
    · intro c hc
      rcases List.mem_cons.mp hc with rfl | hc
      · simp; omega
      · exact c1 c hc
    · intro hm
      simp only [mustCap, Bool.or_eq_true, beq_iff_eq] at hm
      rcases hm with rfl | hm
      · exact ⟨_, List.mem_cons_self .., rfl⟩
      · obtain ⟨c, hc, hg⟩ := m1 hm
        exact ⟨c, List.mem_cons_of_mem _ hc, hg⟩
  | backref i =>
    intro _ st k res h
    simp only [m] at h
    split at h
    · split at h
      · exact ⟨_, Ext.step g st _, h⟩
      · cases h
    · cases h
  | bol ml => intro _ st k res h; simp only [m] at h; split at h
              · exact ⟨st, Ext.refl g st, h⟩
              · cases h
  | eol ml => intro _ st k res h; simp only [m] at h; split at h
              · exact ⟨st, Ext.refl g st, h⟩
              · cases h
  | eos => intro _ st k res h; simp only [m] at h; split at h
           · exact ⟨st, Ext.refl g st, h⟩
           · cases h
  | look ahead neg r ih => intro hn; simp [noLook] at hn
  | rep mn mx gr r ih =>
    intro hn st k res h
    simp only [noLook] at hn
    simp only [m] at h
    exact loop_caps (m s r) g (mustCap g r) gr (ih hn) (s.size + 2 - st.pos) mn mx st k res h

/-- a `mustCap` group of a look-around-free regex is set after a match at `p`, inside `[p, end]` -/
theorem matchAt_group {s : Array Nat} {r : Re} {p : Nat} {st : St} (g : Nat)
    (h : matchAt s r p = some st) (hn : noLook r = true) (hm : mustCap g r = true) :
    ∃ a b, st.group g = some (a, b) ∧ p ≤ a ∧ a ≤ b ∧ b ≤ st.pos := by
  obtain ⟨st', ⟨_, new, e1, c1, m1⟩, h3⟩ := m_caps s g r hn ⟨p, []⟩ some st h
  simp at h3; subst h3
  obtain ⟨c, hc, hg⟩ := m1 hm
  simp only [List.append_nil] at e1
  have hf : ∃ c', new.find? (·.1 == g) = some c' := by
    cases hfind : new.find? (·.1 == g) with
    | some c' => exact ⟨c', rfl⟩
    | none =>
      have := List.find?_eq_none.mp hfind c hc
      simp [hg] at this
  obtain ⟨c', hc'⟩ := hf
  have hmem := List.mem_of_find?_eq_some hc'
  obtain ⟨i, a, b⟩ := c'
  have := c1 _ hmem
  refine ⟨a, b, ?_, this⟩
  simp [St.group, capOf, e1, hc']

end Rx

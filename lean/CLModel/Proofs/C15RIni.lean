/-
C15R, part 3: `.ini` — versions that are a section header followed by printed records (`C02X.printIni`), all with
the same section name: the merged text re-parses to the section and exactly the expected records, without junk.
-/
import CLModel.Proofs.C15RProps
import CLModel.Proofs.C16RIni
namespace C15R
open AR Merge C16R
open P (PRec printRec printProps)

/-- what the merge sees of the section header `[sec]` -/
def mS (ver n : Nat) (sec : List Nat) : Ent :=
  { kind := .section, ekey := .str sec, val := [], all := 91 :: (sec ++ [93]), oid := (ver, n) }

/-- the entries of a printed ini version -/
def iments (ver : Nat) (sec : List Nat) (rs : List PRec) : List Ent := mS ver 0 sec :: mW ver 1 :: ments ver 2 rs

/-! ### the walk, as the merge sees it -/

theorem walkEnts_printIni (ver : Nat) (sec : List Nat) (rs : List PRec) (hsec : ∀ c ∈ sec, c ≠ 93 ∧ c ≠ 10)
    (h : ∀ r ∈ rs, C02X.SafeIniRec r) :
    walkEnts .ini ver (C02X.printIni sec rs).toArray = .ok (iments ver sec rs) := by
  unfold walkEnts
  rw [C02X.walk_ini_printed sec rs hsec h]
  simp only
  generalize hs : (C02X.printIni sec rs).toArray = s
  obtain ⟨hlen, ename, eall, hnl, hdrop⟩ := printIni_facts sec rs s hs
  have e1 : toEnt .ini s ver 0 (C02X.iniSectionEntry sec.length) = .ok (mS ver 0 sec) := by
    simp [toEnt, ekeyOf, C02X.iniSectionEntry, P.Entry.all, mS, ename, eall]
  simp only [C02X.iniExpEntries, List.zipIdx_cons, toEnts, iments]
  rw [e1, toEnt_ws .ini rfl s _ ver (0 + 1) hnl, iniRecEntries_eq,
    toEnts_expEntries .ini rfl s ver rs _ (0 + 1 + 1) hdrop]

/-- the entry lists of all versions -/
def ivers (j : Nat) (sec : List Nat) (vers : List (List PRec)) : List (List Ent) :=
  (vers.zipIdx j).map (fun p => iments p.2 sec p.1)

theorem walkAll_printIni (sec : List Nat) (hsec : ∀ c ∈ sec, c ≠ 93 ∧ c ≠ 10) :
    ∀ (vers : List (List PRec)) (j : Nat), (∀ rs ∈ vers, ∀ r ∈ rs, C02X.SafeIniRec r) →
      walkAll .ini ((vers.map (fun rs => (C02X.printIni sec rs).toArray)).zipIdx j) = .ok (ivers j sec vers) := by
  intro vers
  induction vers with
  | nil => intro _ _; rfl
  | cons rs vers ih =>
    intro j h
    simp only [List.map_cons, List.zipIdx_cons, walkAll, ivers]
    rw [walkEnts_printIni j sec rs hsec (h rs (by simp)), ih (j + 1) (fun rs' hrs' => h rs' (by simp [hrs']))]
    rfl

theorem ivers_getElem? (sec : List Nat) (vers : List (List PRec)) (i : Nat) :
    (ivers 0 sec vers)[i]? = (vers[i]?).map (fun rs => iments i sec rs) := by
  unfold ivers
  rw [List.getElem?_map, List.getElem?_zipIdx]
  cases vers[i]? <;> simp

/-! ### facts about one printed version -/

theorem alt_iments (ver : Nat) (sec : List Nat) (rs : List PRec) : Alt Ent.isWs (iments ver sec rs) :=
  ⟨.inr rfl, .inl rfl, alt_ments ver rs 2⟩

theorem nodupKeys_iments (ver : Nat) (sec : List Nat) (rs : List PRec) (h : (sec :: rs.map (·.1)).Nodup) :
    NodupKeys (iments ver sec rs) := by
  unfold NodupKeys iments
  have h1 : (mS ver 0 sec).keyed = true := rfl
  have h2 : (mW ver 1).keyed = false := rfl
  simp only [List.filter_cons, h1, h2, if_true, Bool.false_eq_true, if_false, List.map_cons]
  rw [keys_ments]
  have := nodup_map_str _ h
  rwa [List.map_cons, List.map_map] at this

theorem mem_iments {ver : Nat} {sec : List Nat} {rs : List PRec} {e : Ent} (h : e ∈ iments ver sec rs) :
    e = mS ver 0 sec ∨ (∃ i, e = mW ver i) ∨ ∃ r ∈ rs, ∃ i, e = mE ver i r := by
  unfold iments at h
  rcases List.mem_cons.1 h with rfl | h
  · exact .inl rfl
  · rcases List.mem_cons.1 h with rfl | h
    · exact .inr (.inl ⟨1, rfl⟩)
    · exact .inr (mem_ments ver rs 2 e h)

theorem mE_mem_iments (ver : Nat) (sec : List Nat) (rs : List PRec) (r : PRec) (hr : r ∈ rs) :
    ∃ i, mE ver i r ∈ iments ver sec rs := by
  obtain ⟨i, hi⟩ := mE_mem_ments ver rs 2 r hr
  exact ⟨i, by simp [iments, hi]⟩

/-- the key under which every version stores its section header -/
def secKey (sec : List Nat) : Key := Key.ent (.str sec)

theorem versionDict_iments_head (i : Nat) (sec : List Nat) (rs : List PRec) (h : (sec :: rs.map (·.1)).Nodup) :
    ∃ d', versionDict i (iments i sec rs) = (secKey sec, mS i 0 sec) :: d' := by
  rw [versionDict_eq i _ (nodupKeys_iments i sec rs h), stamp_eq]
  unfold iments
  rw [stampFrom_cons, pairs]
  have h1 : (mS i 0 sec).kind ≠ .comment := by simp [mS]
  have h2 : (mS i 0 sec).kind ≠ .whitespace := by simp [mS]
  have : ({ mS i 0 sec with oid := (i, 0) } : Ent) = mS i 0 sec := rfl
  rw [this, getKeyValue_ent _ _ h1 h2]
  exact ⟨_, rfl⟩

/-- every entry of a version's dict is the section header under `secKey`, or a good entry -/
theorem good_versionDict_ini (i : Nat) (sec : List Nat) (rs : List PRec) (hs : ∀ r ∈ rs, C02X.SafeIniRec r) :
    ∀ p ∈ versionDict i (iments i sec rs), p.1 = secKey sec ∨ GoodP C04R.IniSafeRec p := by
  intro p hp
  obtain ⟨e, he, hsb, hkey⟩ := versionDict_mem_inv i _ p hp
  rcases mem_iments he with rfl | ⟨j, rfl⟩ | ⟨r, hr, j, rfl⟩
  · exact .inl (hkey rfl)
  · right; left
    exact ⟨by rw [sameBut_isWs _ _ hsb]; rfl, by rw [hsb.2.2.2]; rfl⟩
  · right
    exact goodP_of p r (safe_of_ini (hs r hr)) (by rw [sameBut_isWs _ _ hsb]; rfl) (hkey rfl) (by rw [hsb.2.2.2]; rfl)

theorem mem_versionDicts_ivers (sec : List Nat) (vers : List (List PRec)) (dv : Dict)
    (h : dv ∈ versionDicts (ivers 0 sec vers)) :
    ∃ i rs, vers[i]? = some rs ∧ dv = versionDict i (iments i sec rs) := by
  obtain ⟨i, es, hi, rfl⟩ := (mem_versionDicts _ dv).1 h
  rw [ivers_getElem?] at hi
  cases hv : vers[i]? with
  | none => rw [hv] at hi; simp at hi
  | some rs =>
    rw [hv] at hi
    simp only [Option.map_some, Option.some.injEq] at hi
    exact ⟨i, rs, hv, by rw [← hi]⟩

/-! ### the merged text re-parses -/

theorem wf_tail (p : Key × Ent) (d : Dict) (h : WF (p :: d)) : WF d := by
  constructor
  · have := h.nodup
    rw [List.map_cons, List.nodup_cons] at this
    exact this.2
  · intro q hq
    exact h.ok q (List.mem_cons_of_mem _ hq)

/-- For printed ini versions with the same section (safe records, distinct keys per version, none equal to the section
    name): the merge succeeds; the merged dict is the section header followed by a well-formed dict `d'` of good
    entries; the merged text re-parses, junk-free, into exactly the records of the entries of `d'` that are not
    Whitespace, in dict order. -/
theorem merge_reparses_ini_core (sec : List Nat) (hsec : ∀ c ∈ sec, c ≠ 93 ∧ c ≠ 10) (v : List PRec) (vs : List (List PRec))
    (hsafe : ∀ rs ∈ v :: vs, ∀ r ∈ rs, C02X.SafeIniRec r) (hnd : ∀ rs ∈ v :: vs, (sec :: rs.map (·.1)).Nodup) :
    ∃ t es d S d', mergeTexts .ini ((v :: vs).map (fun rs => (C02X.printIni sec rs).toArray)) = .ok t ∧
      mergeResources (ivers 0 sec (v :: vs)) = some d ∧ d = (secKey sec, S) :: d' ∧ WF d ∧
      (∀ p ∈ d', GoodP C04R.IniSafeRec p) ∧
      P.walk .ini t.toArray = .done es ∧
      P.entitiesOf .ini t.toArray es = ((nws d').map recP).map P.expectedView ∧
      P.junkOf t.toArray es = [] := by
  have hwa := walkAll_printIni sec hsec (v :: vs) 0 hsafe
  have hsome : ∃ d, mergeResources (ivers 0 sec (v :: vs)) = some d := by
    rw [mergeResources_eq]
    cases hvd : versionDicts (ivers 0 sec (v :: vs)) with
    | nil => simp [versionDicts, ivers] at hvd
    | cons d0 ds => exact ⟨_, rfl⟩
  obtain ⟨d, hd⟩ := hsome
  obtain ⟨hwf, hmem, halt⟩ := merged_alt _ d hd
  -- the head
  obtain ⟨d0', hd0⟩ := versionDict_iments_head 0 sec v (hnd v (by simp))
  obtain ⟨ds, hvd⟩ : ∃ ds, versionDicts (ivers 0 sec (v :: vs)) = versionDict 0 (iments 0 sec v) :: ds := by
    unfold versionDicts ivers
    rw [List.zipIdx_cons, List.map_cons, List.zipIdx_cons, List.map_cons]
    exact ⟨_, rfl⟩
  obtain ⟨M, hM⟩ := merged_head _ d hd (secKey sec) (mS 0 0 sec) rfl ⟨_, ds, d0', hvd, hd0⟩ (by
    intro dv hdv x hx
    obtain ⟨i, rs, hi, rfl⟩ := mem_versionDicts_ivers sec _ dv hdv
    obtain ⟨d1', hd1⟩ := versionDict_iments_head i sec rs (hnd rs (List.mem_of_getElem? hi))
    rw [hd1] at hx
    simp only [keysOf, List.map_cons, List.head?_cons, Option.some.injEq] at hx
    exact hx.symm)
  have hnodup := hwf.nodup
  rw [hM, List.map_cons, List.nodup_cons] at hnodup
  have hgood : ∀ p ∈ M, GoodP C04R.IniSafeRec p := by
    intro p hp
    obtain ⟨dv, hdv, hpd⟩ := hmem p (by rw [hM]; exact List.mem_cons_of_mem _ hp)
    obtain ⟨i, rs, hi, rfl⟩ := mem_versionDicts_ivers sec _ dv hdv
    rcases good_versionDict_ini i sec rs (hsafe rs (List.mem_of_getElem? hi)) p hpd with h | h
    · exact absurd (List.mem_map.2 ⟨p, hp, h⟩) hnodup.1
    · exact h
  have ha : Alt pws d := by
    apply halt
    intro dv hdv
    obtain ⟨i, rs, hi, rfl⟩ := mem_versionDicts_ivers sec _ dv hdv
    exact alt_versionDict i _ (nodupKeys_iments i sec rs (hnd rs (List.mem_of_getElem? hi))) (alt_iments i sec rs)
  rw [hM] at ha
  obtain ⟨t, h1, h2, _⟩ := toks_of_alt C04R.IniSafeRec M ha.2 hgood
  have hsf : ∀ r ∈ C04R.recsOf t, C04R.IniSafeRec r := by rw [h2]; exact safe_records _ M hgood
  obtain ⟨es, hw1, hw2, hw3⟩ := C04R.ini_walk_section_toks sec t hsec hsf
  have htext : serialize d = C04R.iniSection sec ++ C04R.printToks t := by
    rw [hM, h1]
    simp [serialize, mS, C04R.iniSection]
  refine ⟨serialize d, es, d, mS 0 0 sec, M, ?_, hd, hM, hwf, hgood, ?_, ?_, ?_⟩
  · unfold mergeTexts
    rw [hwa]
    simp only [hd]
  · rw [htext]; exact hw1
  · rw [htext, hw2, h2]
  · rw [htext]; exact hw3

/-! ### which records -/

/-- the records of the merged dict (ini): every key of every version exactly once, the newest version's record for it.
    `hkeys` and `hnew` are `C15.merged_entity_keys` and `C15.newest_text` for this merge. -/
theorem recs_facts_ini (sec : List Nat) (vers : List (List PRec)) (d : Dict) (S : Ent) (d' : Dict)
    (hd : d = (secKey sec, S) :: d') (hwf : WF d) (hgood : ∀ p ∈ d', GoodP C04R.IniSafeRec p)
    (hnd : ∀ rs ∈ vers, (sec :: rs.map (·.1)).Nodup)
    (hkeys : ∀ ek, Key.ent ek ∈ keysOf d ↔ ∃ es ∈ ivers 0 sec vers, ∃ e ∈ es, e.keyed = true ∧ e.ekey = ek)
    (hnew : ∀ (i : Nat) (es : List Ent), (ivers 0 sec vers)[i]? = some es → NodupKeys es → ∀ e ∈ es, e.keyed = true →
      (∀ j < i, ∀ es', (ivers 0 sec vers)[j]? = some es' → ∀ e' ∈ es', e'.keyed = true → e'.ekey ≠ e.ekey) →
      (dget d (Key.ent e.ekey)).map (·.all) = some e.all) :
    (((nws d').map recP).map (·.1)).Nodup ∧
    (∀ k, k ∈ ((nws d').map recP).map (·.1) ↔ ∃ rs ∈ vers, k ∈ rs.map (·.1)) ∧
    (∀ (i : Nat) (rs : List PRec) (r : PRec), vers[i]? = some rs → r ∈ rs →
      (∀ j < i, ∀ rs' : List PRec, vers[j]? = some rs' → r.1 ∉ rs'.map (·.1)) → r ∈ (nws d').map recP) := by
  have hwf' : WF d' := by rw [hd] at hwf; exact wf_tail _ _ hwf
  have hnodup := hwf.nodup
  rw [hd, List.map_cons, List.nodup_cons] at hnodup
  have hne_sec : ∀ rs ∈ vers, ∀ r ∈ rs, r.1 ≠ sec := by
    intro rs hrs r hr e
    have := (List.nodup_cons.1 (hnd rs hrs)).1
    exact this (List.mem_map.2 ⟨r, hr, e⟩)
  have htail : ∀ k : List Nat, k ≠ sec → (Key.ent (.str k) ∈ keysOf d ↔ Key.ent (.str k) ∈ keysOf d') := by
    intro k hk
    rw [hd]
    simp only [keysOf, List.map_cons, List.mem_cons]
    constructor
    · rintro (h | h)
      · exfalso
        unfold secKey at h
        injection h with h
        injection h with h
        exact hk h
      · exact h
    · exact .inr
  refine ⟨?_, ?_, ?_⟩
  · have h1 : ((nws d').map (·.1)).Nodup := by
      have : ((nws d').map (·.1)).Sublist (d'.map (·.1)) := (List.filter_sublist (l := d')).map _
      exact hwf'.nodup.sublist this
    rw [nws_keys d' hgood] at h1
    have e : ((nws d').map recP).map (fun r => Key.ent (.str r.1))
        = (((nws d').map recP).map (·.1)).map (fun k => Key.ent (.str k)) := by
      simp [List.map_map]
    rw [e] at h1
    exact nodup_of_map _ _ h1
  · intro k
    rw [mem_recs_iff d' hwf' hgood]
    constructor
    · intro hk
      have hksec : k ≠ sec := by
        intro e
        subst e
        exact hnodup.1 hk
      rw [← htail k hksec, hkeys] at hk
      obtain ⟨es, hes, e, he, hkeyed, hek⟩ := hk
      obtain ⟨i, hi, hget⟩ := List.mem_iff_getElem.1 hes
      have hi' : (ivers 0 sec vers)[i]? = some es := by rw [List.getElem?_eq_getElem hi, hget]
      rw [ivers_getElem?] at hi'
      cases hv : vers[i]? with
      | none => rw [hv] at hi'; simp at hi'
      | some rs =>
        rw [hv] at hi'
        simp only [Option.map_some, Option.some.injEq] at hi'
        subst hi'
        refine ⟨rs, List.mem_of_getElem? hv, ?_⟩
        rcases mem_iments he with rfl | ⟨j, rfl⟩ | ⟨r, hr, j, rfl⟩
        · simp only [mS, EKey.str.injEq] at hek
          exact absurd hek.symm hksec
        · exact absurd hkeyed (by simp [mW, Ent.keyed])
        · simp only [mE, EKey.str.injEq] at hek
          rw [← hek]
          exact List.mem_map.2 ⟨r, hr, rfl⟩
    · rintro ⟨rs, hrs, hk⟩
      rw [List.mem_map] at hk
      obtain ⟨r, hr, rfl⟩ := hk
      rw [← htail r.1 (hne_sec rs hrs r hr), hkeys]
      obtain ⟨i, hi, hget⟩ := List.mem_iff_getElem.1 hrs
      have hv : vers[i]? = some rs := by rw [List.getElem?_eq_getElem hi, hget]
      obtain ⟨j, hj⟩ := mE_mem_iments i sec rs r hr
      refine ⟨iments i sec rs, ?_, mE i j r, hj, rfl, rfl⟩
      apply List.mem_of_getElem? (i := i)
      rw [ivers_getElem?, hv]
      rfl
  · intro i rs r hv hr hfirst
    have hrs : rs ∈ vers := List.mem_of_getElem? hv
    obtain ⟨j, hj⟩ := mE_mem_iments i sec rs r hr
    have hi : (ivers 0 sec vers)[i]? = some (iments i sec rs) := by rw [ivers_getElem?, hv]; rfl
    have hn := hnew i _ hi (nodupKeys_iments i sec rs (hnd rs hrs)) (mE i j r) hj rfl (by
      intro j' hj' es' hes' e' he' hkeyed' hek
      rw [ivers_getElem?] at hes'
      cases hv' : vers[j']? with
      | none => rw [hv'] at hes'; simp at hes'
      | some rs' =>
        rw [hv'] at hes'
        simp only [Option.map_some, Option.some.injEq] at hes'
        subst hes'
        rcases mem_iments he' with rfl | ⟨_, rfl⟩ | ⟨r', hr', _, rfl⟩
        · simp only [mS, mE, EKey.str.injEq] at hek
          exact hne_sec rs hrs r hr hek.symm
        · exact absurd hkeyed' (by simp [mW, Ent.keyed])
        · simp only [mE, EKey.str.injEq] at hek
          exact hfirst j' hj' rs' hv' (List.mem_map.2 ⟨r', hr', hek⟩))
    cases hg : dget d (Key.ent (mE i j r).ekey) with
    | none => rw [hg] at hn; simp at hn
    | some e =>
      rw [hg] at hn
      simp only [Option.map_some, Option.some.injEq] at hn
      have hm := dget_mem d _ _ hg
      have hm' : (Key.ent (.str r.1), e) ∈ d' := by
        rw [hd] at hm
        rcases List.mem_cons.1 hm with h | h
        · exfalso
          injection h with h1 _
          unfold secKey at h1
          injection h1 with h1
          injection h1 with h1
          exact hne_sec rs hrs r hr h1
        · exact h
      have hw1 : e.isWs = false := by
        cases h : e.isWs
        · rfl
        · have := (hwf'.ok _ hm').1 h
          cases this
      rw [List.mem_map]
      refine ⟨(Key.ent (.str r.1), e), by rw [nws, List.mem_filter]; exact ⟨hm', by simp [hw1]⟩, ?_⟩
      exact recP_of _ r rfl hn

end C15R

/-
C15, round 5 — helper lemmas for the history theorems of Props/C15.lean: `merge_channels` inside a process that also
compares, lints, serialises and looks parsers up (model: CLModel/Merge/History.lean over CLModel/History/Machine.lean).
Everything about the machine itself comes from C18 (`C18.out_independent_all`).
-/
import CLModel.Merge.History
import CLModel.Props.C18
namespace C15H
open HistM Merge MergeH

/-- no operation writes the entry points -/
theorem step_ep (s : S) (op : HistM.Op) : (HistM.step s op).1.ep = s.ep := by
  cases op <;> simp only [HistM.step, doRewalk] <;> (repeat' split) <;> rfl

theorem reachable_ep (ep : EpEnv) (s : S) (h : Reachable ep s) : s.ep = ep := by
  induction h with
  | init => rfl
  | step s op _ _ ih => rw [step_ep]; exact ih

/-- without plugins `getParser` of the machine is the loop over `__constructors` of C15's model -/
theorem getParser_noPlugins (ep : EpEnv) (hep : NoPlugins ep) (path : Text) :
    HistM.getParser ep path = (getParserClass path).map (fun cls => (cls, true)) := by
  unfold HistM.getParser getParserClass
  cases hf : Gen.Pat.parserConstructors.find? (fun item => (Rx.search path.toArray item.1 0).isSome) with
  | some item => rfl
  | none =>
    cases ep with
    | unavailable => rfl
    | plugins ps =>
      have : ps = [] := hep
      subst this
      rfl

/-- the operations a merging process is allowed are all safe for `HistM.Reachable` -/
theorem safe_of_plain (s : S) (op : HistM.Op) (h : op.mutatesConfig = false) : op.safe s := by
  cases op <;> first | trivial | (simp [HistM.Op.mutatesConfig] at h)

/-- THE machine step of a merge in any reachable state: `C18.out_independent_all` specialised -/
theorem chan_out (ep : EpEnv) (s : S) (h : Reachable ep s) (f : P.Fmt) (texts : List (Array Nat)) :
    (HistM.step s (.mergeChannels f texts)).2 = .chan (mergeTexts f texts) := by
  have h1 := C18.out_independent_all ep s h (.mergeChannels f texts) (by simp [HistM.Op.closed])
  rw [h1]
  rfl

/-- … and in fact in EVERY state, reachable or not: the machine's merge step reads nothing but its arguments -/
theorem chan_out_any (s : S) (f : P.Fmt) (texts : List (Array Nat)) :
    (HistM.step s (.mergeChannels f texts)).2 = .chan (mergeTexts f texts) := rfl

theorem mergeNamed_out (s : S) (hep : NoPlugins s.ep) (name : Text) (texts : List (Array Nat)) :
    (mergeNamed s name texts).2 = mergeChannels name texts := by
  unfold mergeNamed mergeChannels
  rw [getParser_noPlugins s.ep hep]
  cases getParserClass name with
  | none => rfl
  | some cls =>
    simp only [Option.map_some]
    cases hp : parserOfClass cls with
    | none => rfl
    | some pid =>
      cases pid with
      | regex f => simp only [chan_out_any s f texts, chanOf]
      | fluent => rfl
      | android => rfl

theorem mergeNamed_ep (s : S) (name : Text) (texts : List (Array Nat)) : (mergeNamed s name texts).1.ep = s.ep := by
  unfold mergeNamed
  split
  · rfl
  · split
    · exact step_ep s _
    · rfl

theorem mergeNamed_reachable (ep : EpEnv) (s : S) (h : Reachable ep s) (name : Text) (texts : List (Array Nat)) :
    Reachable ep (mergeNamed s name texts).1 := by
  unfold mergeNamed
  split
  · exact h
  · split
    · exact Reachable.step s (.mergeChannels _ texts) h trivial
    · exact h

theorem step_reachable (ep : EpEnv) (s : S) (h : Reachable ep s) (op : MergeH.Op) (hp : op.plain) :
    Reachable ep (MergeH.step s op).1 := by
  cases op with
  | merge name texts => exact mergeNamed_reachable ep s h name texts
  | other o => exact Reachable.step s o h (safe_of_plain s o hp)

theorem mstep_ep (s : S) (op : MergeH.Op) : (MergeH.step s op).1.ep = s.ep := by
  cases op with
  | merge name texts => exact mergeNamed_ep s name texts
  | other o => exact step_ep s o

/-- one step: what is observed is what the arguments promise -/
theorem step_promised (s : S) (hep : NoPlugins s.ep) (op : MergeH.Op) :
    observed op (MergeH.step s op).2 = promised op := by
  cases op with
  | merge name texts => simp only [MergeH.step, observed, promised, mergeNamed_out s hep name texts]
  | other o => rfl

theorem run_promised (ops : List MergeH.Op) :
    ∀ (s : S), NoPlugins s.ep →
      (ops.zip (MergeH.run s ops).2).map (fun p => observed p.1 p.2) = ops.map promised := by
  induction ops with
  | nil => intro s _; rfl
  | cons op ops ih =>
    intro s hep
    simp only [MergeH.run, List.zip_cons_cons, List.map_cons]
    rw [step_promised s hep op, ih (MergeH.step s op).1 (by rw [mstep_ep]; exact hep)]

theorem run_reachable (ep : EpEnv) (ops : List MergeH.Op) :
    ∀ (s : S), Reachable ep s → (∀ op ∈ ops, op.plain) → Reachable ep (MergeH.run s ops).1 := by
  induction ops with
  | nil => intro s h _; exact h
  | cons op ops ih =>
    intro s h hp
    exact ih _ (step_reachable ep s h op (hp op (by simp))) (fun o ho => hp o (by simp [ho]))

/-- a refused name leaves the process as it was -/
theorem refused_state (s : S) (name : Text) (texts : List (Array Nat)) (h : HistM.getParser s.ep name = none) :
    mergeNamed s name texts = (s, .error .mergeNotSupported) := by
  unfold mergeNamed
  rw [h]

end C15H

/- Closed forms of the regexes of checks/android.py: what `Pattern.match` at a position returns,
   expressed on the suffix of the text at that position (list level, no regex engine).
   The shapes of the generated regexes are re-checked by `rfl`/unfolding: an edit of a regex in /repo
   breaks these proofs. -/
import CLModel.Checks.Android
import CLModel.Proofs.C09Spec
import CLModel.Proofs.C09Scan
import CLModel.Proofs.RxStar
namespace Rx
open Gen.Pat Android.Spec
theorem run_eq_takeWhile (s : Array Nat) (neg : Bool) (items : List ClsItem) :
    ∀ fuel pos, s.size - pos < fuel →
      run s neg items fuel pos = ((s.toList.drop pos).takeWhile (inC neg items)).length := by
  intro fuel
  induction fuel with
  | zero => intro pos h; omega
  | succ f ih =>
    intro pos h
    simp only [run]
    by_cases hlt : pos < s.size
    · have hd : s.toList.drop pos = s[pos] :: s.toList.drop (pos + 1) := by
        rw [← Array.getElem_toList (h := by simpa using hlt)]
        exact (List.drop_eq_getElem_cons (by simpa using hlt))
      have hs : s[pos]? = some s[pos] := by simp [hlt]
      rw [hd, hs]
      simp only [List.takeWhile_cons]
      split
      · rw [ih (pos + 1) (by omega)]; simp; omega
      · simp
    · have hs : s[pos]? = none := by simp; omega
      have : s.toList.drop pos = [] := by simp; omega
      rw [hs, this]; simp

theorem firstSome_downFrom_last (k : Nat → Option St) (a : Nat) :
    ∀ n, (∀ j, a ≤ j → j < a + n → k j = none) → firstSome k (downFrom a n) = k (a + n) := by
  intro n
  induction n with
  | zero => intro _; simp [downFrom, firstSome]
  | succ n ih =>
    intro h
    simp only [downFrom, firstSome]
    have e : a + (n + 1) = a + n + 1 := by omega
    rw [e]
    cases hk : k (a + n + 1) with
    | some x => simp
    | none =>
      simp only [Option.orElse_none]
      rw [ih (by intro j h1 h2; exact h j h1 (by omega))]
      exact h (a + n) (by omega) (by omega)

theorem takeWhile_getElem? {p : Nat → Bool} :
    ∀ (l : List Nat) (i : Nat), i < (l.takeWhile p).length → ∃ c, l[i]? = some c ∧ p c = true := by
  intro l
  induction l with
  | nil => intro i h; simp at h
  | cons x xs ih =>
    intro i h
    simp only [List.takeWhile_cons] at h
    split at h
    · rename_i hp
      cases i with
      | zero => exact ⟨x, by simp, hp⟩
      | succ i => simpa using ih i (by simpa using h)
    · simp at h

/-- `[C]+` followed by a continuation that fails inside the run: the whole maximal run is taken -/
theorem plus_cls_then (s : Array Nat) (neg : Bool) (items : List ClsItem) (caps) (k : K) (pos : Nat)
    (hk : ∀ j c, s[j]? = some c → inC neg items c = true → k ⟨j, caps⟩ = none) :
    loop (m s (.cls neg items)) true (s.size + 2 - pos) 1 none ⟨pos, caps⟩ k =
      (if ((s.toList.drop pos).takeWhile (inC neg items)).length = 0 then none
       else k ⟨pos + ((s.toList.drop pos).takeWhile (inC neg items)).length, caps⟩) := by
  by_cases hlt : pos < s.size
  · have hf : s.size + 2 - pos = (s.size + 1 - pos) + 1 := by omega
    rw [hf, loop]
    simp only [m_cls_apply]
    have hd : s.toList.drop pos = s[pos] :: s.toList.drop (pos + 1) := by
      rw [← Array.getElem_toList (h := by simpa using hlt)]
      exact (List.drop_eq_getElem_cons (by simpa using hlt))
    have hs : s[pos]? = some s[pos] := by simp [hlt]
    rw [hd, hs]
    simp only [List.takeWhile_cons]
    by_cases hin : inC neg items s[pos] = true
    · simp only [hin, if_true, List.length_cons]
      have hrun := run_eq_takeWhile s neg items (s.size + 1 - pos) (pos + 1) (by omega)
      have hle : ((s.toList.drop (pos + 1)).takeWhile (inC neg items)).length ≤ s.size - (pos + 1) := by
        have := (List.takeWhile_prefix (inC neg items) (l := s.toList.drop (pos + 1))).length_le
        simpa using this
      have hstar := star_greedy_cls s neg items caps k (s.size + 1 - pos) (pos + 1) (by rw [hrun]; omega)
      simp only [show ¬ (pos + 1 ≤ pos) by omega, if_false,
        show ((none : Option Nat) == some 0) = false from rfl, Bool.false_eq_true,
        Nat.sub_self, Option.map_none, gt_iff_lt, Nat.zero_lt_one, if_true]
      rw [hstar, hrun, firstSome_downFrom_last]
      · simp; congr 2; omega
      · intro j h1 h2
        obtain ⟨c, hc, hp⟩ := takeWhile_getElem? (p := inC neg items) (s.toList.drop (pos + 1)) (j - (pos + 1)) (by omega)
        have : s[j]? = some c := by
          rw [List.getElem?_drop] at hc
          have e : pos + 1 + (j - (pos + 1)) = j := by omega
          rw [e] at hc; simpa using hc
        exact hk j c this hp
    · simp [hin]
  · have hd : s.toList.drop pos = [] := by simp; omega
    rw [hd]
    simp only [List.takeWhile_nil, List.length_nil, if_true]
    by_cases h0 : s.size + 2 - pos = 0
    · rw [h0]; simp [loop]
    · obtain ⟨f, hf⟩ := Nat.exists_eq_succ_of_ne_zero h0
      rw [hf, loop]
      have hs : s[pos]? = none := by simp; omega
      simp [m_cls_apply, hs]

/-! ### the printf regex -/

theorem m_seq (s a b st k) : m s (.seq a b) st k = m s a st (fun st' => m s b st' k) := by rw [m]
theorem m_alt (s a b st k) : m s (.alt a b) st k = (m s a st k).orElse (fun _ => m s b st k) := by rw [m]
theorem m_eps (s st k) : m s .eps st k = k st := by rw [m]
theorem m_lit (s c st k) : m s (.lit c) st k = if s[st.pos]? == some c then k { st with pos := st.pos + 1 } else none := by rw [m]
theorem m_group (s i r st k) : m s (.group i r) st k =
    m s r st (fun st' => k { st' with caps := (i, st.pos, st'.pos) :: st'.caps }) := by rw [m]
theorem m_rep (s mn mx g r st k) : m s (.rep mn mx g r) st k = loop (m s r) g (s.size + 2 - st.pos) mn mx st k := by rw [m]


theorem inC_digits (c : Nat) : inC false [.range 48 57] c = isDig c := by
  simp [inC, ClsItem.has, isDig]

def reDigits : Re := .rep 1 none true (.cls false [.range 48 57])
def reFmt : Re :=
  .alt (.seq (.alt (.seq (.lit 46) reDigits) .eps) (.lit 102)) (.cls false [.ch 100, .ch 115, .ch 83])
def reOrd : Re := .seq (.cls false [.range 49 57]) (.lit 36)

theorem params_re_shape :
    checks_android_get_params_0 = .seq (.lit 37) (.seq (.alt (.group 1 reOrd) .eps) (.group 2 reFmt)) := rfl

theorem fmt_apply (s : Array Nat) (q : Nat) (caps) (k : K) :
    m s reFmt ⟨q, caps⟩ k =
      match fmtLen (s.toList.drop q) with
      | some n => k ⟨q + n, caps⟩
      | none => none := by
  simp only [reFmt, reDigits, m_alt, m_seq, m_lit, m_eps, m_rep]
  rw [plus_cls_then]
  · have hdig : inC false [.range 48 57] = isDig := funext inC_digits
    have hl0 : s[q]? = (s.toList.drop q).head? := by simp [List.head?_drop]
    have hl1 : s.toList.drop (q + 1) = (s.toList.drop q).tail := by simp [List.tail_drop]
    have hidx : ∀ n, s[q + 1 + n]? = (((s.toList.drop q).tail).drop n).head? := by
      intro n; simp [List.tail_drop, List.head?_drop]
    simp only [hdig, m_cls_apply, hidx, hl0, hl1]
    generalize s.toList.drop q = l
    cases l with
    | nil => simp [fmtLen]
    | cons c rest =>
      simp only [List.head?_cons, List.tail_cons, fmtLen]
      by_cases h46 : c = 46
      · subst h46
        simp [inC, ClsItem.has]
        by_cases hn : rest.takeWhile isDig = []
        · simp [hn]
        · simp [hn]
          split
          · simp only []; congr 2; omega
          · rfl
      · simp [h46, inC, ClsItem.has]
        by_cases h1 : c = 102 <;> by_cases h2 : c = 100 <;> by_cases h3 : c = 115 <;> by_cases h4 : c = 83 <;> simp_all
  · intro j c hc hin
    have : c ≠ 102 := by
      intro h; subst h; simp [inC, ClsItem.has] at hin
    simp [hc, this]

theorem fmt_apply' (s : Array Nat) (st : St) (k : K) :
    m s reFmt st k =
      match fmtLen (s.toList.drop st.pos) with
      | some n => k ⟨st.pos + n, st.caps⟩
      | none => none := by
  cases st; exact fmt_apply s _ _ k


def fmtAt (off : Nat) (caps : List (Nat × Nat × Nat)) (l : List Nat) : Option St :=
  match fmtLen l with
  | some n => some ⟨off + n, (2, off, off + n) :: caps⟩
  | none => none

/-- the printf regex at the head of a list: `%`, optionally `[1-9]$`, then the format -/
def gPar (off : Nat) (l : List Nat) : Option St :=
  match l with
  | [] => none
  | c :: rest =>
    if c != 37 then none else
    match rest with
    | d :: e :: rest2 =>
      if isD19 d && e == 36 then fmtAt (off + 3) [(1, off + 1, off + 3)] rest2
      else fmtAt (off + 1) [] rest
    | _ => fmtAt (off + 1) [] rest

theorem fmtLen_d19 (d : Nat) (rest : List Nat) (h : isD19 d = true) : fmtLen (d :: rest) = none := by
  simp [isD19] at h
  have h1 : d ≠ 46 := by omega
  have h2 : d ≠ 102 := by omega
  have h3 : d ≠ 100 := by omega
  have h4 : d ≠ 115 := by omega
  have h5 : d ≠ 83 := by omega
  simp [fmtLen, h1, h2, h3, h4, h5]

theorem par_local (s : Array Nat) (p : Nat) :
    matchAt s checks_android_get_params_0 p = gPar p (s.toList.drop p) := by
  rw [params_re_shape]
  simp only [matchAt, m_seq, m_lit, m_alt, m_group, m_eps, reOrd, m_cls_apply, fmt_apply']
  have hl0 : s[p]? = (s.toList.drop p)[0]? := by simp [List.getElem?_drop]
  have hl1 : s[p + 1]? = (s.toList.drop p)[1]? := by simp [List.getElem?_drop]
  have hl2 : s[p + 1 + 1]? = (s.toList.drop p)[2]? := by simp [List.getElem?_drop]
  have hd1 : s.toList.drop (p + 1) = (s.toList.drop p).drop 1 := by simp [List.drop_drop]
  have hd3 : s.toList.drop (p + 1 + 1 + 1) = (s.toList.drop p).drop 3 := by simp [List.drop_drop]; 
  simp only [hl0, hl1, hl2, hd1, hd3]
  generalize s.toList.drop p = l
  have hd19 : ∀ c, inC false [.range 49 57] c = isD19 c := by
    intro c; simp [inC, ClsItem.has, isD19]
  simp only [hd19]
  rcases l with _ | ⟨c, _ | ⟨d, _ | ⟨e, rest2⟩⟩⟩
  · simp [gPar]
  · by_cases hc : c = 37 <;> simp [gPar, hc, fmtAt, fmtLen]
  · by_cases hc : c = 37 <;> simp [gPar, hc, fmtAt]
  · by_cases hc : c = 37 <;> simp [gPar, hc, fmtAt]
    by_cases hd : isD19 d = true <;> by_cases he : e = 36 <;> simp [hd, he]
    · cases hf : fmtLen rest2 with
      | some n => simp [Nat.add_assoc]
      | none => simp [fmtLen_d19 d _ hd]

/-! ### `""`, `'`, the silencer -/

def gDq (off : Nat) (l : List Nat) : Option St :=
  match l with
  | a :: b :: _ => if a == 34 && b == 34 then some ⟨off + 2, []⟩ else none
  | _ => none

theorem dq_local (s : Array Nat) (p : Nat) :
    matchAt s checks_android_check_apostrophes_0 p = gDq p (s.toList.drop p) := by
  simp only [matchAt, checks_android_check_apostrophes_0, m]
  have h0 : s[p]? = (s.toList.drop p)[0]? := by simp [List.getElem?_drop]
  have h1 : s[p+1]? = (s.toList.drop p)[1]? := by simp [List.getElem?_drop]
  rw [h0, h1]; generalize s.toList.drop p = l
  rcases l with _ | ⟨a, _ | ⟨b, rest⟩⟩ <;> simp [gDq]
  by_cases ha : a = 34 <;> by_cases hb : b = 34 <;> simp_all

def gApos (off : Nat) (l : List Nat) : Option St :=
  match l with
  | a :: _ => if a == 39 then some ⟨off + 1, []⟩ else none
  | _ => none

theorem apos_local (s : Array Nat) (p : Nat) :
    matchAt s checks_android_check_apostrophes_2 p = gApos p (s.toList.drop p) := by
  simp only [matchAt, checks_android_check_apostrophes_2, m]
  have h0 : s[p]? = (s.toList.drop p)[0]? := by simp [List.getElem?_drop]
  rw [h0]; generalize s.toList.drop p = l
  rcases l with _ | ⟨a, rest⟩ <;> simp [gApos]

/-- local matcher of a two-character pattern given by `cond` -/
def gPair (cond : Nat → Nat → Bool) (off : Nat) (l : List Nat) : Option St :=
  match l with
  | a :: b :: _ => if cond a b then some ⟨off + 2, []⟩ else none
  | _ => none

theorem sil_local (s : Array Nat) (p : Nat) :
    matchAt s checks_android_silencer p = gPair silCond p (s.toList.drop p) := by
  simp only [matchAt, checks_android_silencer, m]
  have h0 : s[p]? = (s.toList.drop p)[0]? := by simp [List.getElem?_drop]
  have h1 : s[p+1]? = (s.toList.drop p)[1]? := by simp [List.getElem?_drop]
  rw [h0, h1]; generalize s.toList.drop p = l
  rcases l with _ | ⟨a, _ | ⟨b, rest⟩⟩ <;> simp [gPair, silCond]
  · by_cases ha : a = 92 <;> by_cases hb : b = 10 <;> by_cases ha2 : a = 34 <;> by_cases hb2 : b = 34 <;> simp_all

/-- the inline escape pattern `\\.` of the doubled-quote search -/
theorem esc_local (s : Array Nat) (p : Nat) :
    matchAt s checks_android_check_apostrophes_1 p = gPair escCond p (s.toList.drop p) := by
  simp only [matchAt, checks_android_check_apostrophes_1, m]
  have h0 : s[p]? = (s.toList.drop p)[0]? := by simp [List.getElem?_drop]
  have h1 : s[p+1]? = (s.toList.drop p)[1]? := by simp [List.getElem?_drop]
  rw [h0, h1]; generalize s.toList.drop p = l
  rcases l with _ | ⟨a, _ | ⟨b, rest⟩⟩ <;> simp [gPair, escCond]
  · by_cases ha : a = 92 <;> by_cases hb : b = 10 <;> simp_all

end Rx

/- C01/C02 round 5: facts about generator objects of one parser object (`C01M.stepG`). -/
import CLModel.Parser.C01Gen
import CLModel.Proofs.C01Sess
import CLModel.Proofs.ParserProgress
namespace C01P
open P C01M

/-! ### pure level: `pull` against `walkFromSt` -/

/-- every `getNext` result ends strictly later and inside the text -/
def Prog {σ : Type} (nx : σ → Nat → Entry × σ) (size : Nat) : Prop :=
  ∀ c off, off < size → off < (nx c off).1.e ∧ (nx c off).1.e ≤ size

/-- with a progressing `getNext` the fuel of the walk does not matter once it exceeds the distance to the end -/
theorem walkFromSt_fuel {σ : Type} (next : σ → Nat → Entry × σ) (size : Nat) (loc : Bool) (hp : Prog next size) :
    ∀ f1 f2 c off, size - off < f1 → size - off < f2 →
      walkFromSt next size loc f1 c off = walkFromSt next size loc f2 c off := by
  intro f1
  induction f1 with
  | zero => intro f2 c off h; omega
  | succ n ih =>
    intro f2 c off h1 h2
    cases f2 with
    | zero => omega
    | succ m =>
      simp only [walkFromSt]
      by_cases hge : off ≥ size
      · simp [hge]
      · simp only [hge, if_false]
        have hlt : off < size := by omega
        obtain ⟨p1, p2⟩ := hp c off hlt
        rw [ih m (next c off).2 (next c off).1.e (by omega) (by omega)]

/-- number of entries shown -/
def WalkResult.len : WalkResult → Nat
  | .done es => es.length
  | .stuck _ es => es.length

theorem WalkResult.len_cons (e : Entry) (r : WalkResult) : WalkResult.len (r.cons e) = WalkResult.len r + 1 := by
  cases r <;> simp [WalkResult.cons, WalkResult.len]

/-- a progressing walk ends, with at most one entry per remaining character -/
theorem walkFromSt_done {σ : Type} (next : σ → Nat → Entry × σ) (size : Nat) (loc : Bool) (hp : Prog next size) :
    ∀ fuel c off, size - off < fuel →
      ∃ es, (walkFromSt next size loc fuel c off).1 = .done es ∧ es.length ≤ size - off := by
  intro fuel
  induction fuel with
  | zero => intro c off h; omega
  | succ n ih =>
    intro c off h
    simp only [walkFromSt]
    by_cases hge : off ≥ size
    · exact ⟨[], by simp [hge], by simp⟩
    · simp only [hge, if_false]
      have hlt : off < size := by omega
      obtain ⟨p1, p2⟩ := hp c off hlt
      obtain ⟨es, he, hl⟩ := ih (next c off).2 (next c off).1.e (by omega)
      by_cases hy : (!loc || (next c off).1.localizable) = true
      · refine ⟨(next c off).1 :: es, ?_, ?_⟩
        · simp only [hy, if_true, he, WalkResult.cons]
        · simp only [List.length_cons]; omega
      · refine ⟨es, ?_, by omega⟩
        simp only [hy, he]
        simp

/-- prepend entries to a walk result -/
def prepend (es : List Entry) (r : WalkResult) : WalkResult := es.foldr WalkResult.cons r

@[simp] theorem prepend_nil (r : WalkResult) : prepend [] r = r := rfl
@[simp] theorem prepend_cons (e : Entry) (es : List Entry) (r : WalkResult) :
    prepend (e :: es) r = (prepend es r).cons e := rfl

theorem prepend_done (es es' : List Entry) : prepend es (.done es') = .done (es ++ es') := by
  induction es with
  | nil => rfl
  | cons e es ih => simp [ih, WalkResult.cons]

theorem prepend_len (es : List Entry) (r : WalkResult) : WalkResult.len (prepend es r) = es.length + WalkResult.len r := by
  induction es with
  | nil => simp
  | cons e es ih => simp [WalkResult.len_cons, ih]; omega

/-- `pull` (one `next(g)`) is one step of the walk: StopIteration exactly when the rest of the walk shows nothing,
    otherwise the first entry of the rest, leaving the offset and the flag from which the walk goes on;
    it is never stuck when `getNext` makes progress -/
theorem pull_spec (nx : Bool → Nat → Entry × Bool) (size : Nat) (loc : Bool) (hp : Prog nx size) :
    ∀ fuel fel off, size - off < fuel →
      (pull nx size loc fuel fel off).1 ≠ .stuck ∧
      (∀ fel' off', pull nx size loc fuel fel off = (.stop, fel', off') →
        ∀ F, size - off < F → walkFromSt nx size loc F fel off = (.done [], fel')) ∧
      (∀ e fel' off', pull nx size loc fuel fel off = (.yield e, fel', off') →
        off < off' ∧ off' ≤ size ∧
        ∀ F, size - off < F → walkFromSt nx size loc F fel off =
          ((walkFromSt nx size loc F fel' off').1.cons e, (walkFromSt nx size loc F fel' off').2)) := by
  intro fuel
  induction fuel with
  | zero => intro fel off h; omega
  | succ n ih =>
    intro fel off h
    by_cases hge : off ≥ size
    · simp only [pull, hge, if_true]
      refine ⟨by simp, ?_, ?_⟩
      · intro fel' off' he F hF
        simp only [Prod.mk.injEq, true_and] at he
        cases F with
        | zero => omega
        | succ m => simp [walkFromSt, hge, he.1]
      · intro e fel' off' he
        simp at he
    · have hlt : off < size := by omega
      obtain ⟨p1, p2⟩ := hp fel off hlt
      by_cases hy : (!loc || (nx fel off).1.localizable) = true
      · have hpull : pull nx size loc (n + 1) fel off = (.yield (nx fel off).1, (nx fel off).2, (nx fel off).1.e) := by
          simp only [pull, hge, if_false, hy, if_true]
        rw [hpull]
        refine ⟨by simp, ?_, ?_⟩
        · intro fel' off' he; simp at he
        · intro e fel' off' he
          simp only [Prod.mk.injEq, Pull.yield.injEq] at he
          obtain ⟨rfl, rfl, rfl⟩ := he
          refine ⟨p1, p2, ?_⟩
          intro F hF
          cases F with
          | zero => omega
          | succ m =>
            have := walkFromSt_fuel nx size loc hp m (m + 1) (nx fel off).2 (nx fel off).1.e (by omega) (by omega)
            rw [← this]
            simp only [walkFromSt, hge, if_false, hy, if_true]
      · have hpull : pull nx size loc (n + 1) fel off = pull nx size loc n (nx fel off).2 (nx fel off).1.e := by
          simp only [pull, hge, if_false, hy]
          simp
        rw [hpull]
        obtain ⟨i1, i2, i3⟩ := ih (nx fel off).2 (nx fel off).1.e (by omega)
        have hstep : ∀ F, size - off < F → walkFromSt nx size loc F fel off =
            walkFromSt nx size loc F (nx fel off).2 (nx fel off).1.e := by
          intro F hF
          cases F with
          | zero => omega
          | succ m =>
            have := walkFromSt_fuel nx size loc hp m (m + 1) (nx fel off).2 (nx fel off).1.e (by omega) (by omega)
            rw [← this]
            simp only [walkFromSt, hge, if_false, hy]
            simp
        refine ⟨i1, ?_, ?_⟩
        · intro fel' off' he F hF
          rw [hstep F hF]
          exact i2 fel' off' he F (by omega)
        · intro e fel' off' he
          obtain ⟨a, b, c⟩ := i3 e fel' off' he
          refine ⟨by omega, b, ?_⟩
          intro F hF
          rw [hstep F hF]
          exact c F (by omega)

/-! ### the formats -/

theorem prog_nextOf (f : Fmt) (s : Array Nat) : Prog (nextOf f s) s.size := by
  intro c off hoff
  cases f <;> simp only [nextOf]
  · obtain ⟨_, h2, h3, _⟩ := propsGetNext_eok s off hoff; exact ⟨h2, h3⟩
  · obtain ⟨_, _, h3, h4, _⟩ := dtdGetNext_ok s off hoff; exact ⟨h3, h4⟩
  · obtain ⟨_, h2, h3, _⟩ := iniGetNext_eok s off hoff; exact ⟨h2, h3⟩
  · obtain ⟨_, h2, h3, _⟩ := definesGetNext_eok s c off hoff; exact ⟨h2, h3⟩
  · obtain ⟨_, h2, h3, _⟩ := getNext_eok poCfg _ poCfg_ok s off hoff; exact ⟨h2, h3⟩

/-- a `getNext` that does not touch the context: the walk threads any state through unchanged -/
theorem walkFromSt_passthrough (gn : Nat → Entry) (size : Nat) (loc : Bool) :
    ∀ fuel (b : Bool) off,
      walkFromSt (fun (b : Bool) off => (gn off, b)) size loc fuel b off =
        ((walkFromSt (fun (_ : Unit) off => (gn off, ())) size loc fuel () off).1, b) := by
  intro fuel
  induction fuel with
  | zero => intro b off; simp only [walkFromSt]
  | succ n ih =>
    intro b off
    simp only [walkFromSt]
    split
    · rfl
    · simp only [ih]

/-- the walk over `nextOf` is the session walk `walkSt` -/
theorem walkFromSt_nextOf (f : Fmt) (s : Array Nat) (loc fel : Bool) :
    walkFromSt (nextOf f s) s.size loc (s.size + 1) fel 0 = walkSt f s loc fel := by
  cases f <;> simp only [walkSt]
  · exact walkFromSt_passthrough (propsGetNext s) _ _ _ _ _
  · exact walkFromSt_passthrough (dtdGetNext s) _ _ _ _ _
  · exact walkFromSt_passthrough (iniGetNext s) _ _ _ _ _
  · rfl
  · exact walkFromSt_passthrough (poGetNext s) _ _ _ _ _

/-- only `DefinesParser.getNext` writes the flag -/
theorem nextOf_fel (f : Fmt) (hf : f ≠ .inc) (s : Array Nat) (fel : Bool) (off : Nat) :
    (nextOf f s fel off).2 = fel := by
  cases f <;> first | exact absurd rfl hf | rfl

theorem pull_fel (nx : Bool → Nat → Entry × Bool) (hnx : ∀ fel off, (nx fel off).2 = fel) (size : Nat) (loc : Bool) :
    ∀ fuel fel off, (pull nx size loc fuel fel off).2.1 = fel := by
  intro fuel
  induction fuel with
  | zero => intro fel off; simp only [pull]
  | succ n ih =>
    intro fel off
    simp only [pull]
    split
    · rfl
    · split
      · exact hnx fel off
      · rw [ih, hnx]

/-- the flag a walk of format `f` starts with: `DefinesParser.walk` resets it, the others never read it -/
def startFel (f : Fmt) (fel : Bool) : Bool :=
  match f with
  | .inc => false
  | _ => fel

/-- the view `only_localizable = loc` of a fresh parse -/
def view (f : Fmt) (s : Array Nat) (loc : Bool) : WalkResult :=
  if loc then (walk f s).filterLoc else walk f s

/-- a walk started on a context in ANY state shows the fresh parse of its contents -/
theorem walkSt_start (f : Fmt) (s : Array Nat) (loc fel : Bool) :
    (walkSt f s loc (startFel f fel)).1 = view f s loc := by
  have h0 : (walkSt f s loc (startFel f fel)).1 = (walkSt f s loc false).1 := by
    by_cases hf : f = .inc
    · subst hf; rfl
    · exact walkSt_fst_stateless f hf s loc _
  rw [h0]
  cases loc
  · simp only [view, Bool.false_eq_true, if_false]; exact (walkSt_fresh f s).1
  · simp only [view, if_true]
    rw [(walkSt_filter f s false).1, (walkSt_fresh f s).1]

/-! ### object level -/

/-- what generator `g` of `σ` will still show if it is consumed to the end from now on, nothing else happening
    in between -/
def remaining (f : Fmt) (σ : Obj) (g : Nat) : WalkResult :=
  match σ.gens[g]? with
  | some ⟨loc, .running cid off⟩ =>
    (match σ.heap[cid]? with
     | some c => (walkFromSt (nextOf f c.s) c.s.size loc (c.s.size + 1) c.fel off).1
     | none => .done [])
  | some ⟨loc, .fresh⟩ =>
    (match σ.cur with
     | some cid =>
       (match σ.heap[cid]? with
        | some c => (walkFromSt (nextOf f c.s) c.s.size loc (c.s.size + 1) (startFel f c.fel) 0).1
        | none => .done [])
     | none => .done [])
  | _ => .done []

theorem getElem?_lt {α : Type} {l : List α} {i : Nat} {a : α} (h : l[i]? = some a) : i < l.length := by
  obtain ⟨h, _⟩ := List.getElem?_eq_some_iff.mp h
  exact h

theorem resume_spec (f : Fmt) (σ : Obj) (g : Nat) (go : GenO) (loc : Bool) (cid off : Nat) (c : CtxO)
    (hg : σ.gens[g]? = some go) (hc : σ.heap[cid]? = some c) :
    let W := walkFromSt (nextOf f c.s) c.s.size loc (c.s.size + 1) c.fel off
    (resume f σ g loc cid off).2 ≠ .stuck ∧
    ((resume f σ g loc cid off).2 = .stop → W.1 = .done [] ∧ remaining f (resume f σ g loc cid off).1 g = .done []) ∧
    (∀ e, (resume f σ g loc cid off).2 = .yield e →
      W.1 = (remaining f (resume f σ g loc cid off).1 g).cons e) := by
  intro W
  have hgl := getElem?_lt hg
  have hcl := getElem?_lt hc
  have hps := pull_spec (nextOf f c.s) c.s.size loc (prog_nextOf f c.s) (c.s.size + 1) c.fel off (by omega)
  generalize hpl : pull (nextOf f c.s) c.s.size loc (c.s.size + 1) c.fel off = pl at hps
  obtain ⟨r, fel', off'⟩ := pl
  obtain ⟨s1, s2, s3⟩ := hps
  cases r with
  | stuck => exact absurd rfl s1
  | stop =>
    have hres : resume f σ g loc cid off =
        ({ σ with heap := σ.heap.set cid { c with fel := fel' },
                  gens := σ.gens.set g { loc := loc, st := .finished } }, .stop) := by
      simp only [resume, hc, hpl]
    rw [hres]
    refine ⟨by simp, ?_, by intro e h; simp at h⟩
    intro _
    have := s2 fel' off' rfl (c.s.size + 1) (by omega)
    refine ⟨by simp only [W, this], ?_⟩
    simp only [remaining, List.getElem?_set_self hgl]
  | yield e =>
    have hres : resume f σ g loc cid off =
        ({ σ with heap := σ.heap.set cid { c with fel := fel' },
                  gens := σ.gens.set g { loc := loc, st := .running cid off' } }, .yield e) := by
      simp only [resume, hc, hpl]
    rw [hres]
    refine ⟨by simp, by intro h; simp at h, ?_⟩
    intro e' hr
    simp only [Pull.yield.injEq] at hr
    subst hr
    obtain ⟨a, b, h⟩ := s3 e fel' off' rfl
    have := h (c.s.size + 1) (by omega)
    simp only [W, this, remaining, List.getElem?_set_self hgl, List.getElem?_set_self hcl]

/-- one `next(g)`: StopIteration exactly when nothing remains, otherwise the first remaining entry; never stuck -/
theorem next1_spec (f : Fmt) (σ : Obj) (g : Nat) :
    (next1 f σ g).2 ≠ .stuck ∧
    ((next1 f σ g).2 = .stop → remaining f σ g = .done [] ∧ remaining f (next1 f σ g).1 g = .done []) ∧
    (∀ e, (next1 f σ g).2 = .yield e →
      remaining f σ g = (remaining f (next1 f σ g).1 g).cons e) := by
  unfold next1
  cases hg : σ.gens[g]? with
  | none => simp [remaining, hg]
  | some go =>
    obtain ⟨loc, st⟩ := go
    cases st with
    | finished => simp [remaining, hg]
    | running cid off =>
      simp only
      cases hc : σ.heap[cid]? with
      | none => simp [resume, hc, remaining, hg]
      | some c =>
        obtain ⟨r1, r2, r3⟩ := resume_spec f σ g _ loc cid off c hg hc
        refine ⟨r1, ?_, ?_⟩
        · intro h
          obtain ⟨a, b⟩ := r2 h
          exact ⟨by simp only [remaining, hg, hc, a], b⟩
        · intro e h
          have a := r3 e h
          simp only [remaining, hg, hc]; exact a
    | fresh =>
      simp only
      cases hcur : σ.cur with
      | none =>
        have hgl := getElem?_lt hg
        simp [remaining, hg, hcur, List.getElem?_set_self hgl]
      | some cid =>
        simp only
        cases hc : σ.heap[cid]? with
        | none =>
          have hh : startHeap f σ.heap cid = σ.heap := by
            cases f <;> simp [startHeap, resetFel, hc]
          rw [hh]
          simp [resume, hc, remaining, hg, hcur]
        | some c =>
          have hcl := getElem?_lt hc
          -- the heap after the reset of DefinesParser.walk
          have hh2 : (startHeap f σ.heap cid)[cid]? = some { c with fel := startFel f c.fel } := by
            cases f <;> simp [startHeap, resetFel, hc, startFel, List.getElem?_set_self hcl]
          obtain ⟨r1, r2, r3⟩ := resume_spec f { σ with heap := startHeap f σ.heap cid } g ⟨loc, .fresh⟩ loc cid 0
            { c with fel := startFel f c.fel } hg hh2
          rw [hcur] at r1 r2 r3
          refine ⟨r1, ?_, ?_⟩
          · intro h
            obtain ⟨a, b⟩ := r2 h
            exact ⟨by simp only [remaining, hg, hcur, hc]; exact a, b⟩
          · intro e h
            have a := r3 e h
            simp only [remaining, hg, hcur, hc]; exact a

/-- up to `k` × `next(g)`: the entries shown are the first entries of what remained, and what remains afterwards is
    the rest; `.full` (StopIteration reached) shows all that remained -/
theorem nextK_spec (f : Fmt) : ∀ k σ g,
    (∀ es, (nextK f k σ g).2 = .part es →
      es.length = k ∧ remaining f σ g = prepend es (remaining f (nextK f k σ g).1 g)) ∧
    (∀ r, (nextK f k σ g).2 = .full r →
      r = remaining f σ g ∧ remaining f (nextK f k σ g).1 g = .done []) := by
  intro k
  induction k with
  | zero =>
    intro σ g
    simp [nextK]
  | succ k ih =>
    intro σ g
    obtain ⟨n1, n2, n3⟩ := next1_spec f σ g
    simp only [nextK]
    generalize hn : next1 f σ g = nr at n1 n2 n3
    obtain ⟨σ', r⟩ := nr
    cases r with
    | stuck => exact absurd rfl n1
    | stop =>
      obtain ⟨a, b⟩ := n2 rfl
      simp only
      refine ⟨(by intro es h; cases h), ?_⟩
      intro r h
      simp only [Out.full.injEq] at h
      subst h
      exact ⟨a.symm, b⟩
    | yield e =>
      have a := n3 e rfl
      obtain ⟨i1, i2⟩ := ih σ' g
      simp only at a ⊢
      generalize hk : nextK f k σ' g = kr at i1 i2
      obtain ⟨σ'', o⟩ := kr
      simp only at i1 i2 ⊢
      cases o with
      | part es =>
        obtain ⟨l, h⟩ := i1 es rfl
        refine ⟨?_, by intro r h; simp [Out.cons] at h⟩
        intro es' h'
        simp only [Out.cons, Out.part.injEq] at h'
        subst h'
        exact ⟨by simp [l], by rw [a, h]; rfl⟩
      | full r =>
        obtain ⟨h1, h2⟩ := i2 r rfl
        refine ⟨by intro es h; simp [Out.cons] at h, ?_⟩
        intro r' h'
        simp only [Out.cons, Out.full.injEq] at h'
        subst h'
        exact ⟨by rw [a, h1], h2⟩

/-- what remains of a generator is a finished walk of at most `genSize` entries -/
theorem remaining_done (f : Fmt) (σ : Obj) (g : Nat) :
    ∃ es, remaining f σ g = .done es ∧ es.length ≤ genSize σ g := by
  unfold remaining genSize genCtx
  cases hg : σ.gens[g]? with
  | none => exact ⟨[], rfl, by simp⟩
  | some go =>
    obtain ⟨loc, st⟩ := go
    cases st with
    | finished => exact ⟨[], rfl, by simp⟩
    | running cid off =>
      simp only
      cases hc : σ.heap[cid]? with
      | none => exact ⟨[], rfl, by simp⟩
      | some c =>
        obtain ⟨es, h1, h2⟩ := walkFromSt_done (nextOf f c.s) c.s.size loc (prog_nextOf f c.s) (c.s.size + 1) c.fel off (by omega)
        exact ⟨es, h1, by simp only; omega⟩
    | fresh =>
      simp only
      cases hcur : σ.cur with
      | none => exact ⟨[], rfl, by simp⟩
      | some cid =>
        simp only
        cases hc : σ.heap[cid]? with
        | none => exact ⟨[], rfl, by simp⟩
        | some c =>
          obtain ⟨es, h1, h2⟩ := walkFromSt_done (nextOf f c.s) c.s.size loc (prog_nextOf f c.s) (c.s.size + 1)
            (startFel f c.fel) 0 (by omega)
          exact ⟨es, h1, by simp only; omega⟩

/-- `list(g)` shows exactly what remained of `g`, and it always ends -/
theorem drainG_spec (f : Fmt) (σ : Obj) (g : Nat) :
    (drainG f σ g).2 = .full (remaining f σ g) ∧ remaining f (drainG f σ g).1 g = .done [] := by
  obtain ⟨k1, k2⟩ := nextK_spec f (genSize σ g + 1) σ g
  unfold drainG
  generalize hk : nextK f (genSize σ g + 1) σ g = kr at k1 k2
  obtain ⟨σ', o⟩ := kr
  cases o with
  | part es =>
    exfalso
    obtain ⟨l, h⟩ := k1 es rfl
    obtain ⟨es', h1, h2⟩ := remaining_done f σ g
    have := congrArg WalkResult.len h
    rw [prepend_len, h1] at this
    simp only [WalkResult.len] at this
    omega
  | full r =>
    obtain ⟨h1, h2⟩ := k2 r rfl
    exact ⟨by simp only [h1], h2⟩

/-! ### frame: what consuming, creating or abandoning a generator cannot change -/

theorem set_map_same {α β : Type} (l : List α) (i : Nat) (a c : α) (φ : α → β) (h : l[i]? = some c) (hφ : φ a = φ c) :
    (l.set i a).map φ = l.map φ := by
  apply List.ext_getElem?
  intro j
  simp only [List.getElem?_map, List.getElem?_set]
  by_cases hij : i = j
  · subst hij
    have hl := getElem?_lt h
    have hc : l[i] = c := by
      have := List.getElem?_eq_getElem hl
      rw [h] at this
      exact (Option.some.inj this).symm
    simp [hl, hφ, hc]
  · simp [hij]

theorem set_self {α : Type} (l : List α) (i : Nat) (c : α) (h : l[i]? = some c) : l.set i c = l := by
  apply List.ext_getElem?
  intro j
  simp only [List.getElem?_set]
  by_cases hij : i = j
  · subst hij
    have hl := getElem?_lt h
    have hc : l[i] = c := by
      have := List.getElem?_eq_getElem hl
      rw [h] at this
      exact (Option.some.inj this).symm
    simp [hl, hc]
  · simp [hij]

/-- the part of the object a generator operation must leave alone: which Context the parser holds, the contents of
    every Context ever created and — for the formats whose walk keeps no per-walk state — the Context objects altogether -/
structure Frame (f : Fmt) (σ σ' : Obj) : Prop where
  cur : σ'.cur = σ.cur
  contents : σ'.heap.map CtxO.s = σ.heap.map CtxO.s
  heap : f ≠ .inc → σ'.heap = σ.heap
  ngens : σ'.gens.length = σ.gens.length

theorem Frame.refl (f : Fmt) (σ : Obj) : Frame f σ σ := ⟨rfl, rfl, fun _ => rfl, rfl⟩

theorem Frame.trans {f : Fmt} {a b c : Obj} (h1 : Frame f a b) (h2 : Frame f b c) : Frame f a c :=
  ⟨h2.cur.trans h1.cur, h2.contents.trans h1.contents, fun hf => (h2.heap hf).trans (h1.heap hf),
   h2.ngens.trans h1.ngens⟩

theorem resume_frame (f : Fmt) (σ : Obj) (g : Nat) (loc : Bool) (cid off : Nat) :
    Frame f σ (resume f σ g loc cid off).1 := by
  unfold resume
  cases hc : σ.heap[cid]? with
  | none => exact Frame.refl f σ
  | some c =>
    simp only
    refine ⟨rfl, ?_, ?_, by simp⟩
    · exact set_map_same _ _ _ c _ hc rfl
    · intro hf
      have := pull_fel (nextOf f c.s) (nextOf_fel f hf c.s) c.s.size loc (c.s.size + 1) c.fel off
      simp only [this]
      exact set_self _ _ _ hc

theorem startHeap_frame (f : Fmt) (σ : Obj) (cid : Nat) :
    Frame f σ { σ with heap := startHeap f σ.heap cid } := by
  refine ⟨rfl, ?_, ?_, rfl⟩
  · cases f <;> simp only [startHeap]
    simp only [resetFel]
    cases hc : σ.heap[cid]? with
    | none => rfl
    | some c => exact set_map_same _ _ _ c _ hc rfl
  · intro hf
    cases f <;> first | exact absurd rfl hf | rfl

theorem next1_frame (f : Fmt) (σ : Obj) (g : Nat) : Frame f σ (next1 f σ g).1 := by
  unfold next1
  cases hg : σ.gens[g]? with
  | none => exact Frame.refl f σ
  | some go =>
    obtain ⟨loc, st⟩ := go
    cases st with
    | finished => exact Frame.refl f σ
    | running cid off => exact resume_frame f σ g loc cid off
    | fresh =>
      simp only
      cases hcur : σ.cur with
      | none => exact ⟨by simp [hcur], rfl, fun _ => rfl, by simp⟩
      | some cid =>
        have h1 := startHeap_frame f σ cid
        rw [hcur] at h1
        exact h1.trans (resume_frame f _ g loc cid 0)

theorem nextK_frame (f : Fmt) : ∀ k σ g, Frame f σ (nextK f k σ g).1 := by
  intro k
  induction k with
  | zero => intro σ g; exact Frame.refl f σ
  | succ k ih =>
    intro σ g
    have h1 := next1_frame f σ g
    simp only [nextK]
    generalize next1 f σ g = nr at h1
    obtain ⟨σ', r⟩ := nr
    cases r with
    | stuck => exact h1
    | stop => exact h1
    | yield e => exact h1.trans (ih σ' g)

theorem drainG_frame (f : Fmt) (σ : Obj) (g : Nat) : Frame f σ (drainG f σ g).1 := by
  have h := nextK_frame f (genSize σ g + 1) σ g
  unfold drainG
  generalize nextK f (genSize σ g + 1) σ g = kr at h
  obtain ⟨σ', o⟩ := kr
  cases o <;> exact h

theorem closeG_frame (f : Fmt) (σ : Obj) (g : Nat) : Frame f σ (closeG σ g) := by
  unfold closeG
  cases hg : σ.gens[g]? with
  | none => exact Frame.refl f σ
  | some go => exact ⟨rfl, rfl, fun _ => rfl, by simp⟩

/-! ### other generators -/

theorem resume_other (f : Fmt) (σ : Obj) (g g' : Nat) (loc : Bool) (cid off : Nat) (h : g ≠ g') :
    (resume f σ g loc cid off).1.gens[g']? = σ.gens[g']? := by
  unfold resume
  cases hc : σ.heap[cid]? with
  | none => rfl
  | some c => simp [h]

theorem next1_other (f : Fmt) (σ : Obj) (g g' : Nat) (h : g ≠ g') :
    (next1 f σ g).1.gens[g']? = σ.gens[g']? := by
  unfold next1
  cases hg : σ.gens[g]? with
  | none => rfl
  | some go =>
    obtain ⟨loc, st⟩ := go
    cases st with
    | finished => rfl
    | running cid off => exact resume_other f σ g g' loc cid off h
    | fresh =>
      simp only
      cases hcur : σ.cur with
      | none => simp [h]
      | some cid => exact resume_other f _ g g' loc cid 0 h

theorem nextK_other (f : Fmt) : ∀ k σ g g', g ≠ g' → (nextK f k σ g).1.gens[g']? = σ.gens[g']? := by
  intro k
  induction k with
  | zero => intro σ g g' _; rfl
  | succ k ih =>
    intro σ g g' h
    have h1 := next1_other f σ g g' h
    simp only [nextK]
    generalize next1 f σ g = nr at h1
    obtain ⟨σ', r⟩ := nr
    cases r with
    | stuck => exact h1
    | stop => exact h1
    | yield e => exact (ih σ' g g' h).trans h1

theorem drainG_other (f : Fmt) (σ : Obj) (g g' : Nat) (h : g ≠ g') :
    (drainG f σ g).1.gens[g']? = σ.gens[g']? := by
  have h1 := nextK_other f (genSize σ g + 1) σ g g' h
  unfold drainG
  generalize nextK f (genSize σ g + 1) σ g = kr at h1
  obtain ⟨σ', o⟩ := kr
  cases o <;> exact h1

theorem closeG_other (σ : Obj) (g g' : Nat) (h : g ≠ g') : (closeG σ g).gens[g']? = σ.gens[g']? := by
  unfold closeG
  cases hg : σ.gens[g]? with
  | none => rfl
  | some go => simp [h]

/-- what remains of a generator depends on its own state, on `parser.ctx` (while it has not started) and on the
    Context objects only -/
theorem remaining_congr (f : Fmt) (σ σ' : Obj) (g : Nat) (hg : σ'.gens[g]? = σ.gens[g]?) (hc : σ'.cur = σ.cur)
    (hh : σ'.heap = σ.heap) : remaining f σ' g = remaining f σ g := by
  unfold remaining
  rw [hg, hc, hh]

/-! ### histories -/

/-- `parser.ctx` points at an existing Context -/
def CurOK (σ : Obj) : Prop := ∀ cid, σ.cur = some cid → cid < σ.heap.length

/-- `Frame` without the count of generator objects (`mk` adds one) -/
structure Frame' (f : Fmt) (σ σ' : Obj) : Prop where
  cur : σ'.cur = σ.cur
  contents : σ'.heap.map CtxO.s = σ.heap.map CtxO.s
  heap : f ≠ .inc → σ'.heap = σ.heap

theorem Frame.weaken {f : Fmt} {σ σ' : Obj} (h : Frame f σ σ') : Frame' f σ σ' := ⟨h.cur, h.contents, h.heap⟩

theorem Frame'.refl (f : Fmt) (σ : Obj) : Frame' f σ σ := ⟨rfl, rfl, fun _ => rfl⟩

theorem Frame'.trans {f : Fmt} {a b c : Obj} (h1 : Frame' f a b) (h2 : Frame' f b c) : Frame' f a c :=
  ⟨h2.cur.trans h1.cur, h2.contents.trans h1.contents, fun hf => (h2.heap hf).trans (h1.heap hf)⟩

theorem stepG_frame (f : Fmt) (σ : Obj) (op : Op) (h : ∀ t, op ≠ .read t) : Frame' f σ (stepG f σ op).1 := by
  cases op with
  | read t => exact absurd rfl (h t)
  | mk loc => exact ⟨rfl, rfl, fun _ => rfl⟩
  | next g k => exact (nextK_frame f k σ g).weaken
  | drain g => exact (drainG_frame f σ g).weaken
  | close g => exact (closeG_frame f σ g).weaken

theorem execG_frame (f : Fmt) : ∀ (ops : List Op) (σ : Obj), (∀ op ∈ ops, ∀ t, op ≠ .read t) →
    Frame' f σ (execG f σ ops) := by
  intro ops
  induction ops with
  | nil => intro σ _; exact Frame'.refl f σ
  | cons op ops ih =>
    intro σ h
    simp only [execG]
    exact (stepG_frame f σ op (h op (by simp))).trans (ih _ (fun o ho => h o (by simp [ho])))

/-- number of generator objects a history creates -/
def countMk : List Op → Nat
  | [] => 0
  | .mk _ :: ops => countMk ops + 1
  | _ :: ops => countMk ops

theorem stepG_ngens (f : Fmt) (σ : Obj) (op : Op) :
    (stepG f σ op).1.gens.length = σ.gens.length + countMk [op] := by
  cases op with
  | read t => rfl
  | mk loc => simp [stepG, countMk]
  | next g k => exact (nextK_frame f k σ g).ngens
  | drain g => exact (drainG_frame f σ g).ngens
  | close g => exact (closeG_frame f σ g).ngens

theorem execG_ngens (f : Fmt) : ∀ (ops : List Op) (σ : Obj),
    (execG f σ ops).gens.length = σ.gens.length + countMk ops := by
  intro ops
  induction ops with
  | nil => intro σ; rfl
  | cons op ops ih =>
    intro σ
    simp only [execG]
    rw [ih, stepG_ngens]
    cases op <;> simp [countMk] <;> omega

/-- the text of the last `readUnicode` of a history (`init` if there is none) -/
def lastRead : List Op → Option (Array Nat) → Option (Array Nat)
  | [], init => init
  | .read t :: ops, _ => lastRead ops (some t)
  | _ :: ops, init => lastRead ops init

theorem curText_of_frame {f : Fmt} {σ σ' : Obj} (h : Frame' f σ σ') : curText σ' = curText σ := by
  unfold curText
  rw [h.cur]
  cases σ.cur with
  | none => rfl
  | some cid =>
    simp only
    have := congrArg (fun l => l[cid]?) h.contents
    simpa [List.getElem?_map] using this

theorem curOK_of_frame {f : Fmt} {σ σ' : Obj} (h : Frame' f σ σ') (hv : CurOK σ) : CurOK σ' := by
  intro cid hc
  rw [h.cur] at hc
  have := congrArg List.length h.contents
  simp only [List.length_map] at this
  rw [this]
  exact hv cid hc

theorem stepG_cur (f : Fmt) (σ : Obj) (op : Op) (hv : CurOK σ) :
    CurOK (stepG f σ op).1 ∧ curText (stepG f σ op).1 = lastRead [op] (curText σ) := by
  by_cases hr : ∃ t, op = .read t
  · obtain ⟨t, rfl⟩ := hr
    refine ⟨?_, ?_⟩
    · intro cid hc
      simp only [stepG, Option.some.injEq] at hc
      subst hc
      simp [stepG]
    · simp [stepG, curText, lastRead]
  · have hn : ∀ t, op ≠ .read t := fun t h => hr ⟨t, h⟩
    have hf := stepG_frame f σ op hn
    refine ⟨curOK_of_frame hf hv, ?_⟩
    rw [curText_of_frame hf]
    cases op with
    | read t => exact absurd rfl (hn t)
    | _ => rfl

theorem execG_cur (f : Fmt) : ∀ (ops : List Op) (σ : Obj), CurOK σ →
    CurOK (execG f σ ops) ∧ curText (execG f σ ops) = lastRead ops (curText σ) := by
  intro ops
  induction ops with
  | nil => intro σ hv; exact ⟨hv, rfl⟩
  | cons op ops ih =>
    intro σ hv
    obtain ⟨h1, h2⟩ := stepG_cur f σ op hv
    obtain ⟨h3, h4⟩ := ih _ h1
    simp only [execG]
    refine ⟨h3, ?_⟩
    rw [h4, h2]
    cases op <;> rfl

/-- a complete pass (a new generator consumed to the end) on an object in ANY state -/
theorem fresh_pass (f : Fmt) (σ : Obj) (loc : Bool) :
    runG f σ [.mk loc, .drain σ.gens.length] =
      [.full (match σ.cur with
        | some cid => (match σ.heap[cid]? with | some c => view f c.s loc | none => .done [])
        | none => .done [])] := by
  simp only [runG, stepG]
  obtain ⟨d1, _⟩ := drainG_spec f { σ with gens := σ.gens ++ [{ loc := loc, st := .fresh }] } σ.gens.length
  generalize hd : drainG f { σ with gens := σ.gens ++ [{ loc := loc, st := .fresh }] } σ.gens.length = dr at d1
  obtain ⟨σ', o⟩ := dr
  simp only at d1 ⊢
  rw [d1]
  congr 2
  simp only [remaining, List.getElem?_concat_length]
  cases σ.cur with
  | none => rfl
  | some cid =>
    simp only
    cases σ.heap[cid]? with
    | none => rfl
    | some c =>
      simp only
      rw [walkFromSt_nextOf, walkSt_start]

/-- a pass abandoned after `k` entries and then resumed: the `k` entries are the first `k` of what a complete pass
    shows, the rest of the generator is the remaining suffix -/
theorem partial_pass (f : Fmt) (σ : Obj) (loc : Bool) (k : Nat) :
    ∃ es o, runG f σ [.mk loc, .drain σ.gens.length] = [.full (.done es)] ∧
      runG f σ [.mk loc, .next σ.gens.length k, .drain σ.gens.length] =
        [o, .full (.done (es.drop o.entries.length))] ∧
      o.entries = es.take o.entries.length ∧
      ((o = .part (es.take k) ∧ k ≤ es.length) ∨ o = .full (.done es)) := by
  simp only [runG, stepG]
  generalize hσ1 : ({ σ with gens := σ.gens ++ [{ loc := loc, st := .fresh }] } : Obj) = σ1
  obtain ⟨d1, _⟩ := drainG_spec f σ1 σ.gens.length
  obtain ⟨es, he, _⟩ := remaining_done f σ1 σ.gens.length
  obtain ⟨k1, k2⟩ := nextK_spec f k σ1 σ.gens.length
  generalize hk : nextK f k σ1 σ.gens.length = kr at k1 k2
  obtain ⟨σ2, o⟩ := kr
  obtain ⟨d2, _⟩ := drainG_spec f σ2 σ.gens.length
  obtain ⟨es2, he2, _⟩ := remaining_done f σ2 σ.gens.length
  generalize hd1 : drainG f σ1 σ.gens.length = dr1 at d1
  obtain ⟨σ1', o1⟩ := dr1
  generalize hd2 : drainG f σ2 σ.gens.length = dr2 at d2
  obtain ⟨σ3, o2⟩ := dr2
  simp only at d1 d2 k1 k2 ⊢
  refine ⟨es, o, by rw [d1, he], ?_⟩
  cases o with
  | part es1 =>
    obtain ⟨l, h⟩ := k1 es1 rfl
    rw [he, he2, prepend_done] at h
    simp only [WalkResult.done.injEq] at h
    subst h
    subst l
    refine ⟨?_, ?_, ?_⟩
    · simp [Out.entries, d2, he2]
    · simp [Out.entries]
    · left; simp
  | full r =>
    obtain ⟨h1, h2⟩ := k2 r rfl
    rw [he] at h1
    subst h1
    refine ⟨?_, ?_, ?_⟩
    · simp [Out.entries, d2, h2]
    · simp [Out.entries]
    · right; rfl

/-- the generator an operation consumes or closes -/
def target : Op → Option Nat
  | .next g _ => some g
  | .drain g => some g
  | .close g => some g
  | _ => none

/-- formats without per-walk state on the Context: what remains of generator `g` is not changed by any operation on
    OTHER generators (creating, consuming, draining, closing them) -/
theorem stepG_other (f : Fmt) (hf : f ≠ .inc) (σ : Obj) (g : Nat) (op : Op) (hg : g < σ.gens.length)
    (hnr : ∀ t, op ≠ .read t) (ht : target op ≠ some g) :
    remaining f (stepG f σ op).1 g = remaining f σ g := by
  have hfr := stepG_frame f σ op hnr
  refine remaining_congr f σ _ g ?_ hfr.cur (hfr.heap hf)
  cases op with
  | read t => exact absurd rfl (hnr t)
  | mk loc => simp [stepG, List.getElem?_append_left hg]
  | next g' k => exact nextK_other f k σ g' g (fun h => ht (by simp [target, h]))
  | drain g' => exact drainG_other f σ g' g (fun h => ht (by simp [target, h]))
  | close g' => exact closeG_other σ g' g (fun h => ht (by simp [target, h]))

/-- after ANY history on a new parser object a complete pass shows the fresh parse of the text last read -/
theorem complete_pass (f : Fmt) (h : List Op) (loc : Bool) :
    runG f (execG f {} h) [.mk loc, .drain (countMk h)] =
      [.full (match lastRead h none with | some t => view f t loc | none => .done [])] := by
  have hv : CurOK ({} : Obj) := by intro cid hc; cases hc
  obtain ⟨h1, h2⟩ := execG_cur f h {} hv
  have hn := execG_ngens f h {}
  simp only [List.length_nil, Nat.zero_add] at hn
  rw [← hn, fresh_pass]
  have h3 : curText ({} : Obj) = none := rfl
  rw [h3] at h2
  rw [← h2]
  unfold curText
  cases hcur : (execG f {} h).cur with
  | none => rfl
  | some cid =>
    have := h1 cid hcur
    simp only
    cases hc : (execG f {} h).heap[cid]? with
    | none =>
      have := List.getElem?_eq_none_iff.mp hc
      omega
    | some c => rfl

end C01P

/-
C16: corollaries of the closed form (keys, values, nothing foreign, idempotence).  Core Lean only.
-/
import CLModel.Proofs.C16Ser
namespace C16L
open AR Ser

/-! ### keys and values -/

/-- a new value is given for `s` and `s` is a reference entity -/
def given (ref : List Ent) (nd : NewData) (s : List Nat) : Bool :=
  match dget nd s with
  | some (some _) => known ref s
  | _ => false

/-- the old localization has a real entity under `s`, a reference entity key, not marked for removal -/
def kept (ref old : List Ent) (nd : NewData) (s : List Nat) : Bool :=
  match oldEntry old s with
  | some e => e.isReal && known ref s && !removed nd s
  | none => false

theorem newValue_some {ref : List Ent} {nd : NewData} {s : List Nat} {l : Ent} (h : newValue ref nd s = some l) :
    ∃ v r, dget nd s = some (some v) ∧ dget (refMapping ref) s = some r ∧ l = wrap r v ∧ r.key = s := by
  unfold newValue at h
  cases hd : dget nd s with
  | none => rw [hd] at h; simp at h
  | some ov =>
    cases ov with
    | none => rw [hd] at h; simp at h
    | some v =>
      rw [hd] at h
      simp only at h
      cases hr : dget (refMapping ref) s with
      | none => rw [hr] at h; simp at h
      | some r =>
        rw [hr] at h
        simp only [Option.map_some, Option.some.injEq] at h
        exact ⟨v, r, rfl, rfl, h.symm, (refMapping_some hr).2.2⟩

theorem newValue_isSome (ref : List Ent) (nd : NewData) (s : List Nat) :
    (newValue ref nd s).isSome = given ref nd s := by
  unfold newValue given
  cases dget nd s with
  | none => rfl
  | some ov =>
    cases ov with
    | none => rfl
    | some v =>
      simp only
      rw [Bool.eq_iff_iff, known_iff]
      cases dget (refMapping ref) s <;> simp

theorem oldEntry_some {old : List Ent} {s : List Nat} {e : Ent} (h : oldEntry old s = some e) :
    e ∈ old ∧ e.isJunk = false ∧ strKeyed e = true ∧ e.key = s := by
  have := lastMatch_some h
  rw [List.mem_filter] at this
  simp only [Bool.and_eq_true, beq_iff_eq, Bool.not_eq_true'] at this
  exact ⟨this.1.1, this.1.2, this.2.1, this.2.2⟩

theorem chosen_key {ref old : List Ent} {nd : NewData} {s : List Nat} {e : Ent} (h : chosen ref old nd s = some e) :
    e.key = s := by
  unfold chosen at h
  cases hv : newValue ref nd s with
  | some l =>
    rw [hv] at h
    simp only [Option.some.injEq] at h
    subst h
    obtain ⟨v, r, _, _, rfl, hk⟩ := newValue_some hv
    exact hk
  | none =>
    rw [hv] at h
    simp only at h
    cases ho : oldEntry old s with
    | none => rw [ho] at h; simp at h
    | some e0 =>
      rw [ho] at h
      simp only at h
      split at h
      · simp only [Option.some.injEq] at h
        subst h
        exact (oldEntry_some ho).2.2.2
      · simp at h

theorem chosen_isSome (ref old : List Ent) (nd : NewData) (s : List Nat) :
    (chosen ref old nd s).isSome = (given ref nd s || kept ref old nd s) := by
  rw [← newValue_isSome]
  unfold chosen kept
  cases newValue ref nd s with
  | some l => rfl
  | none =>
    simp only [Option.isSome_none, Bool.false_or]
    cases oldEntry old s with
    | none => rfl
    | some e =>
      simp only
      split
      · rename_i h; rw [h]; rfl
      · rename_i h; simp only [Bool.not_eq_true] at h; rw [h]; rfl

theorem filterMap_map_key {γ : Type} (l : List γ) (f : γ → Option Ent) (key : Ent → γ)
    (h : ∀ s e, f s = some e → key e = s) :
    (l.filterMap f).map key = l.filter (fun s => (f s).isSome) := by
  induction l with
  | nil => rfl
  | cons x xs ih =>
    rw [List.filterMap_cons, List.filter_cons]
    cases hf : f x with
    | none => simpa using ih
    | some e => simp [ih, h x e hf]

theorem serialized_keys (ref old : List Ent) (nd : NewData) (hnd : (nd.map (·.1)).Nodup) :
    ((serializeEnts ref old nd).filter Ent.isReal).map (·.key)
      = (refKeys ref).filter (fun s => given ref nd s || kept ref old nd s) := by
  rw [serialized_entities ref old nd hnd, filterMap_map_key _ _ _ (fun s e h => chosen_key h)]
  apply List.filter_congr
  intro s _
  exact chosen_isSome ref old nd s

theorem serialized_values (ref old : List Ent) (nd : NewData) (hnd : (nd.map (·.1)).Nodup) :
    ∀ e ∈ (serializeEnts ref old nd).filter Ent.isReal,
      match dget nd e.key with
      | some (some v) => e.val = v ∧ ∃ r, dget (refMapping ref) e.key = some r ∧ e.all = r.pre ++ v ++ r.post
      | _ => oldEntry old e.key = some e := by
  intro e he
  rw [serialized_entities ref old nd hnd, List.mem_filterMap] at he
  obtain ⟨s, _, hc⟩ := he
  have hk := chosen_key hc
  subst hk
  unfold chosen at hc
  cases hv : newValue ref nd e.key with
  | some l =>
    rw [hv] at hc
    simp only [Option.some.injEq] at hc
    subst hc
    obtain ⟨v, r, hd, hr, hl, _⟩ := newValue_some hv
    rw [hd]
    simp only
    refine ⟨by rw [hl]; rfl, r, hr, by rw [hl]; rfl⟩
  | none =>
    rw [hv] at hc
    simp only at hc
    cases ho : oldEntry old e.key with
    | none => rw [ho] at hc; simp at hc
    | some e0 =>
      rw [ho] at hc
      simp only at hc
      split at hc
      · rename_i hcond
        simp only [Option.some.injEq] at hc
        subst hc
        -- a value cannot have been given: the key is known, so `newValue` would be defined
        have hg : given ref nd e0.key = false := by rw [← newValue_isSome, hv]; rfl
        simp only [Bool.and_eq_true] at hcond
        unfold given at hg
        cases hd : dget nd e0.key with
        | none => rfl
        | some ov =>
          cases ov with
          | none => rfl
          | some v => rw [hd] at hg; simp only at hg; rw [hcond.1.2] at hg; simp at hg
      · simp at hc

/-! ### nothing foreign -/

theorem prunePlaceholders_no_ph (es : List Ent) : ∀ e ∈ prunePlaceholders es, e.isPlaceholder = false := by
  intro e he
  rw [prunePlaceholders_eq] at he
  have hs := genFold_sublist Ent.isWs (fun e => e.all.length) (es.filter (fun e => !e.isPlaceholder)) []
  simp only [List.reverse_nil, List.nil_append] at hs
  have := hs.subset he
  rw [List.mem_filter] at this
  simpa using this.2

theorem m2_nodup (ref old : List Ent) (nd : NewData) : (dkeys (m2Of ref old nd)).Nodup := mergeTwo_keys_nodup _ _ _

theorem mem_m2 {ref old : List Ent} {nd : NewData} {p : MKey × Ent} (h : p ∈ m2Of ref old nd) :
    p ∈ d0Of ref ∨ p ∈ d1Of ref old nd ∨ p ∈ d2Of ref nd := by
  rcases mem_mergeTwo (m1_nodup ref old nd) (d2_nodup ref nd) h with h | h
  · rcases mem_mergeTwo (d0_nodup ref) (d1_nodup ref old nd) h with h | h
    · exact .inl h
    · exact .inr (.inl h)
  · exact .inr (.inr h)

theorem m2_keyOK (ref old : List Ent) (nd : NewData) : ∀ p ∈ m2Of ref old nd, keyOK p = true := by
  intro p hp
  rcases mem_m2 hp with h | h | h
  · exact d0_keyOK ref p h
  · exact d1_keyOK ref old nd p h
  · exact parseResource_keyOK _ _ p h

theorem mem_out {ref old : List Ent} {nd : NewData} {e : Ent} (h : e ∈ serializeEnts ref old nd) :
    ∃ k, (k, e) ∈ m2Of ref old nd := by
  rw [serializeEnts_eq] at h
  have := (prunePlaceholders_sublist _).subset h
  rw [List.mem_map] at this
  obtain ⟨p, hp, rfl⟩ := this
  exact ⟨p.1, hp⟩

theorem isJunk_not_entity {e : Ent} (h : e.isJunk = true) : e.isEntity = false := by
  cases e with | mk kind key val all pre post => cases kind <;> simp_all [Ent.isEntity, Ent.isJunk]

/-- where an output entry comes from -/
theorem nothing_foreign (ref old : List Ent) (nd : NewData) :
    ∀ e ∈ serializeEnts ref old nd,
      e.isPlaceholder = false ∧ e.isJunk = false ∧
      ((e ∈ newL10n (refMapping ref) nd) ∨
       (e ∈ old ∧ shouldPlaceholder ((refMapping ref).map (·.1)) nd e = false) ∨
       (e ∈ ref ∧ e.isEntity = false)) := by
  intro e he
  have hph : e.isPlaceholder = false := by
    rw [serializeEnts_eq] at he
    exact prunePlaceholders_no_ph _ e he
  obtain ⟨k, hk⟩ := mem_out he
  rcases mem_m2 hk with h | h | h
  · -- template: a reference entry that is not an entity
    have hm := parseResource_mem h
    simp only [plOf, List.mem_map, List.mem_filter] at hm
    obtain ⟨r, ⟨hr, hj⟩, rfl⟩ := hm
    unfold placeholder at hph ⊢
    split
    · rename_i hent; rw [if_pos hent] at hph; simp [mkPlaceholder, Ent.isPlaceholder] at hph
    · rename_i hent
      refine ⟨by rw [if_neg hent] at hph; exact hph, by simpa using hj, .inr (.inr ⟨hr, by simpa using hent⟩)⟩
  · -- old localization
    have hm := parseResource_mem h
    simp only [osOf_eq, List.mem_map, List.mem_filter] at hm
    obtain ⟨e0, ⟨h0, hj⟩, rfl⟩ := hm
    unfold sanOf at hph ⊢
    split
    · rename_i hsp
      rw [if_pos hsp] at hph
      exfalso
      have hent : e0.isEntity = true := by
        unfold shouldPlaceholder at hsp
        cases hh : e0.isEntity with
        | true => rfl
        | false => rw [hh] at hsp; simp at hsp
      unfold placeholder at hph
      rw [if_pos hent] at hph
      simp [mkPlaceholder, Ent.isPlaceholder] at hph
    · rename_i hsp
      refine ⟨by rw [if_neg hsp] at hph; exact hph, by simpa using hj, .inr (.inl ⟨h0, by simpa using hsp⟩)⟩
  · -- new values
    have hm := parseResource_mem h
    have hr := (mem_nl hm).1
    refine ⟨hph, ?_, .inl hm⟩
    cases hj : e.isJunk with
    | false => rfl
    | true => have := isJunk_not_entity hj; rw [isReal_isEntity hr] at this; simp at this

theorem no_placeholder (ref old : List Ent) (nd : NewData) :
    ∀ e ∈ serializeEnts ref old nd, e.isPlaceholder = false :=
  fun e he => (nothing_foreign ref old nd e he).1

/-! ### idempotence (entry level) -/

/-- entries keyed by `.key` have pairwise different keys in the output -/
theorem out_unique (ref old : List Ent) (nd : NewData) {e e' : Ent}
    (he : e ∈ serializeEnts ref old nd) (he' : e' ∈ serializeEnts ref old nd)
    (hs : strKeyed e = true) (hs' : strKeyed e' = true) (hk : e.key = e'.key) : e = e' := by
  obtain ⟨k, hm⟩ := mem_out he
  obtain ⟨k', hm'⟩ := mem_out he'
  have h1 := keyOK_str (m2_keyOK ref old nd _ hm) hs
  have h2 := keyOK_str (m2_keyOK ref old nd _ hm') hs'
  rw [h1] at hm
  rw [h2, ← hk] at hm'
  have a := dget_of_mem_nodup (m2_nodup ref old nd) hm
  have b := dget_of_mem_nodup (m2_nodup ref old nd) hm'
  rw [a] at b
  exact Option.some.inj b

theorem chosen_known {ref old : List Ent} {nd : NewData} {s : List Nat} {e : Ent} (h : chosen ref old nd s = some e) :
    e.isReal = true ∧ known ref s = true := by
  unfold chosen at h
  cases hv : newValue ref nd s with
  | some l =>
    rw [hv] at h
    simp only [Option.some.injEq] at h
    subst h
    obtain ⟨v, r, _, hr, rfl, _⟩ := newValue_some hv
    exact ⟨rfl, by rw [known_iff, hr]; rfl⟩
  | none =>
    rw [hv] at h
    simp only at h
    cases ho : oldEntry old s with
    | none => rw [ho] at h; simp at h
    | some e0 =>
      rw [ho] at h
      simp only at h
      split at h
      · rename_i hc
        simp only [Option.some.injEq] at h
        subst h
        simp only [Bool.and_eq_true] at hc
        exact ⟨hc.1.1, hc.1.2⟩
      · simp at h

theorem idempotent_entities (ref old : List Ent) (nd : NewData) (hnd : (nd.map (·.1)).Nodup) :
    (serializeEnts ref (serializeEnts ref old nd) []).filter Ent.isReal
      = (serializeEnts ref old nd).filter Ent.isReal := by
  rw [serialized_entities ref _ [] (by simp), serialized_entities ref old nd hnd]
  apply filterMap_congr'
  intro s hs
  have hout := serialized_entities ref old nd hnd
  have hjunk : (serializeEnts ref old nd).filter (fun e => !e.isJunk) = serializeEnts ref old nd := by
    rw [List.filter_eq_self]
    intro e he
    simp [(nothing_foreign ref old nd e he).2.1]
  have hnv : newValue ref [] s = none := rfl
  have hrm : removed [] s = false := rfl
  cases hc : chosen ref old nd s with
  | some e =>
    have hin : e ∈ (serializeEnts ref old nd).filter Ent.isReal := by
      rw [hout, List.mem_filterMap]; exact ⟨s, hs, hc⟩
    rw [List.mem_filter] at hin
    have hk := chosen_key hc
    have hkn := (chosen_known hc).2
    have hoe : oldEntry (serializeEnts ref old nd) s = some e := by
      unfold oldEntry
      rw [hjunk]
      apply lastMatch_unique hin.1 (by simp [isReal_strKeyed hin.2, hk])
      intro y hy hp
      simp only [Bool.and_eq_true, beq_iff_eq] at hp
      exact out_unique ref old nd hy hin.1 hp.1 (isReal_strKeyed hin.2) (hp.2.trans hk.symm)
    unfold chosen
    rw [hnv, hoe]
    simp [hin.2, hkn, hrm]
  | none =>
    unfold chosen
    rw [hnv]
    simp only
    cases hoe : oldEntry (serializeEnts ref old nd) s with
    | none => rfl
    | some e' =>
      simp only
      split
      · rename_i hcond
        exfalso
        simp only [Bool.and_eq_true] at hcond
        obtain ⟨hm, _, _, hk'⟩ := oldEntry_some hoe
        have : e' ∈ (serializeEnts ref old nd).filter Ent.isReal := by
          rw [List.mem_filter]; exact ⟨hm, hcond.1.1⟩
        rw [hout, List.mem_filterMap] at this
        obtain ⟨s', _, hc'⟩ := this
        have := chosen_key hc'
        rw [hk'] at this
        subst this
        rw [hc] at hc'
        simp at hc'
      · rfl

end C16L

namespace C16L
open AR Ser

/-! ### an evaluable form of the model (for `decide` in examples)

`List.mergeSort` inside `AddRemove` is defined by well-founded recursion and does not reduce in the
kernel; dict keys are always duplicate-free, so the proved closed form `AR.spec` can replace it. -/

def mergeTwoS (N O : Dict) : Dict :=
  mkDict ((((AR.spec (N.map (·.1)) (O.map (·.1))).map (fun p => (p.2, getOlder N O p.2))).foldl pruneStep []).reverse)

theorem mergeTwo_spec (N O : Dict) (hN : (dkeys N).Nodup) (hO : (dkeys O).Nodup) :
    mergeTwo N O false = mergeTwoS N O := by
  unfold mergeTwo mergeTwoS
  simp only [Bool.false_eq_true, if_false]
  unfold dkeys at hN hO
  rw [addRemove_eq_spec _ _ hN hO]

def serializeEntsS (ref old : List Ent) (nd : NewData) : List Ent :=
  prunePlaceholders ((mergeTwoS (mergeTwoS (d0Of ref) (d1Of ref old nd)) (d2Of ref nd)).map (·.2))

theorem serializeEnts_eq_spec (ref old : List Ent) (nd : NewData) :
    serializeEnts ref old nd = serializeEntsS ref old nd := by
  rw [serializeEnts_eq, serializeEntsS, m2Of, m1Of,
    mergeTwo_spec _ _ (d0_nodup ref) (d1_nodup ref old nd),
    ← mergeTwo_spec _ _ (by rw [← mergeTwo_spec _ _ (d0_nodup ref) (d1_nodup ref old nd)]; exact mergeTwo_keys_nodup _ _ _)
      (d2_nodup ref nd)]

end C16L

/- C06 (rendered values), part 2: the exact result of the generated `printf` regex
   `%(?:(?P<good>%|(?:(?P<number>[1-9][0-9]*)\$)?(?P<width>\*|[0-9]+)?(?P<prec>\.(?:\*|[0-9]+)?)?(?P<spec>[duxXosScpfg]))?)`
   at the start of each token shape (final state with all capture groups), respecting the priority
   order of the backtracking matcher:
   * `%%`                                  → `printf_pct`
   * `%` + width + precision + type        → `printf_unordered`   (e.g. `%10d`: the number group is tried
                                              first on `10`, fails at the missing `$`, also for the prefix `1`)
   * `%` + n + `$` + width + precision + type → `printf_ordered`
   * a `%` followed by nothing that starts an argument → `printf_lone`
   * any other character                   → `printf_nomatch`. -/
import CLModel.Gen.Regexes
import CLModel.Proofs.C06REngine
namespace C06R
open Rx

/-! ### the pieces of the generated regex -/

def specItems : List ClsItem :=
  [.ch 100, .ch 117, .ch 120, .ch 88, .ch 111, .ch 115, .ch 83, .ch 99, .ch 112, .ch 102, .ch 103]
def reC19 : Re := .cls false [.range 49 57]
def reNumG : Re := .seq (.group 2 (.seq reC19 (.rep 0 none true reDig))) (.lit 36)
def reNum : Re := .alt reNumG .eps
def reWidth : Re := .alt (.group 3 (.alt (.lit 42) (.rep 1 none true reDig))) .eps
def rePrec : Re := .alt (.group 4 (.seq (.lit 46) (.alt (.alt (.lit 42) (.rep 1 none true reDig)) .eps))) .eps
def reSpec : Re := .group 5 (.cls false specItems)
def reArg : Re := .seq reNum (.seq reWidth (.seq rePrec reSpec))

/-- the generated regex is made of these pieces (breaks when the regex of the source changes) -/
theorem printf_eq : Gen.Pat.PropertiesChecker_printf =
    .seq (.lit 37) (.alt (.group 1 (.alt (.lit 37) reArg)) .eps) := rfl

/-- a conversion character of the regex: one of `duxXosScpfg` -/
def IsSpec (c : Nat) : Prop := inC false specItems c = true

theorem isSpec_iff (c : Nat) : IsSpec c ↔
    c = 100 ∨ c = 117 ∨ c = 120 ∨ c = 88 ∨ c = 111 ∨ c = 115 ∨ c = 83 ∨ c = 99 ∨ c = 112 ∨ c = 102 ∨ c = 103 := by
  simp [IsSpec, specItems, inC, ClsItem.has]

instance (c : Nat) : Decidable (IsSpec c) := by unfold IsSpec; infer_instance
instance (c : Nat) : Decidable (IsDig c) := by unfold IsDig; infer_instance

theorem spec_facts {c : Nat} (h : IsSpec c) : ¬ IsDig c ∧ c ≠ 37 ∧ c ≠ 36 ∧ c ≠ 42 ∧ c ≠ 46 := by
  have := (isSpec_iff c).mp h
  unfold IsDig
  omega

theorem not_spec_false {c : Nat} (h : ¬ IsSpec c) : inC false specItems c = false := by
  cases hc : inC false specItems c with
  | false => rfl
  | true => exact absurd hc h

/-! ### shapes of the optional parts -/

/-- width: absent, `*`, or a non-empty digit string -/
def WShape (W : Text) : Prop := W = [] ∨ W = [42] ∨ (W ≠ [] ∧ ∀ d ∈ W, IsDig d)

/-- precision: absent, `.`, `.*`, or `.` followed by a non-empty digit string -/
def PShape (P : Text) : Prop :=
  P = [] ∨ P = [46] ∨ P = [46, 42] ∨ ∃ ds, ds ≠ [] ∧ (∀ d ∈ ds, IsDig d) ∧ P = 46 :: ds

def widthCaps (p : Nat) (W : Text) : List (Nat × Nat × Nat) := if W = [] then [] else [(3, p, p + W.length)]
def precCaps (p : Nat) (P : Text) : List (Nat × Nat × Nat) := if P = [] then [] else [(4, p, p + P.length)]

/-! ### the type character -/

theorem spec_hit {s : Array Nat} {p c : Nat} (h : s[p]? = some c) (hc : IsSpec c) (caps) (k : K) :
    m s reSpec ⟨p, caps⟩ k = k ⟨p + 1, (5, p, p + 1) :: caps⟩ := by
  unfold reSpec
  rw [m_group, cls_ok h hc]

theorem spec_fail {s : Array Nat} {p : Nat} (h : ∀ c, s[p]? = some c → ¬ IsSpec c) (caps) (k : K) :
    m s reSpec ⟨p, caps⟩ k = none := by
  unfold reSpec
  rw [m_group, cls_fail (fun c hc => not_spec_false (h c hc))]

/-! ### the precision -/

theorem prec_skip {s : Array Nat} {p : Nat} (h : s[p]? ≠ some 46) (caps) (k : K) :
    m s rePrec ⟨p, caps⟩ k = k ⟨p, caps⟩ := by
  unfold rePrec
  rw [m_alt, m_group, m_seq, lit_fail h, orElse_none_left, m_eps]

theorem prec_hit {s : Array Nat} {p c : Nat} {P : Text} (hP : PShape P) (hat : At s p P)
    (hc : s[p + P.length]? = some c) (hs : IsSpec c) (caps) (k : K) (r : St)
    (hk : k ⟨p + P.length, precCaps p P ++ caps⟩ = some r) :
    m s rePrec ⟨p, caps⟩ k = some r := by
  obtain ⟨hnd, _, _, h42, h46⟩ := spec_facts hs
  rcases hP with rfl | rfl | rfl | ⟨ds, hne, hds, rfl⟩
  · simp only [List.length_nil, Nat.add_zero] at hc hk
    rw [prec_skip (by rw [hc]; simp [h46])]
    simpa [precCaps] using hk
  · have h0 : s[p]? = some 46 := (at_cons.mp hat).1
    simp only [List.length_cons, List.length_nil, Nat.zero_add] at hc hk
    have hnod : NoDigAt s (p + 1) := by
      intro c' hc'; rw [hc] at hc'; cases hc'; exact hnd
    unfold rePrec
    rw [m_alt, m_group, m_seq, lit_ok h0, m_alt, m_alt, lit_fail (by rw [hc]; simp [h42]), orElse_none_left,
      plus_fail hnod, orElse_none_left, m_eps]
    have hk' : k ⟨p + 1, (4, p, p + 1) :: caps⟩ = some r := by simpa [precCaps] using hk
    simp only [hk', orElse_some_left]
  · obtain ⟨h0, h1⟩ := at_cons.mp hat
    have h1 : s[p + 1]? = some 42 := (at_cons.mp h1).1
    simp only [List.length_cons, List.length_nil, Nat.zero_add] at hc hk
    unfold rePrec
    rw [m_alt, m_group, m_seq, lit_ok h0, m_alt, m_alt, lit_ok h1]
    have hk' : k ⟨p + 1 + 1, (4, p, p + 1 + 1) :: caps⟩ = some r := by
      simpa [precCaps, Nat.add_assoc] using hk
    simp only [hk', orElse_some_left]
  · obtain ⟨h0, hds'⟩ := at_cons.mp hat
    simp only [List.length_cons] at hc hk
    obtain ⟨d, ds', rfl⟩ := List.exists_cons_of_ne_nil hne
    have hd0 : s[p + 1]? = some d := (at_cons.mp hds').1
    have hdig : IsDig d := hds d (by simp)
    have hnod : NoDigAt s (p + 1 + (d :: ds').length) := by
      intro c' hc'
      rw [show p + 1 + (d :: ds').length = p + ((d :: ds').length + 1) by omega, hc] at hc'
      cases hc'; exact hnd
    have hlt := getElem?_some_lt hd0
    unfold rePrec
    rw [m_alt, m_group, m_seq, lit_ok h0, m_alt, m_alt,
      lit_fail (by rw [hd0]; unfold IsDig at hdig; simp; omega), orElse_none_left]
    rw [digits_hit hds' hds hnod (by omega) 1 (by simp) caps _ r
      (by have e : p + 1 + (d :: ds').length = p + ((d :: ds').length + 1) := by omega
          simp only [e]
          simpa [precCaps] using hk)]
    rfl

/-! ### the width -/

theorem width_skip {s : Array Nat} {p : Nat} (h : s[p]? ≠ some 42) (hnd : NoDigAt s p) (caps) (k : K) :
    m s reWidth ⟨p, caps⟩ k = k ⟨p, caps⟩ := by
  unfold reWidth
  rw [m_alt, m_group, m_alt, lit_fail h, orElse_none_left, plus_fail hnd, orElse_none_left, m_eps]

theorem width_hit {s : Array Nat} {p : Nat} {W : Text} (hW : WShape W) (hat : At s p W)
    (hnd : NoDigAt s (p + W.length)) (h42 : s[p + W.length]? ≠ some 42) (hp : p ≤ s.size) (caps) (k : K) (r : St)
    (hk : k ⟨p + W.length, widthCaps p W ++ caps⟩ = some r) :
    m s reWidth ⟨p, caps⟩ k = some r := by
  rcases hW with rfl | rfl | ⟨hne, hds⟩
  · simp only [List.length_nil, Nat.add_zero] at hnd h42 hk
    rw [width_skip h42 hnd]
    simpa [widthCaps] using hk
  · have h0 : s[p]? = some 42 := (at_cons.mp hat).1
    simp only [List.length_cons, List.length_nil, Nat.zero_add] at hk
    unfold reWidth
    rw [m_alt, m_group, m_alt, lit_ok h0]
    have hk' : k ⟨p + 1, (3, p, p + 1) :: caps⟩ = some r := by simpa [widthCaps] using hk
    simp only [hk', orElse_some_left]
  · obtain ⟨d, W', rfl⟩ := List.exists_cons_of_ne_nil hne
    have hd0 : s[p]? = some d := (at_cons.mp hat).1
    have hdig : IsDig d := hds d (by simp)
    unfold reWidth
    rw [m_alt, m_group, m_alt, lit_fail (by rw [hd0]; unfold IsDig at hdig; simp; omega), orElse_none_left]
    rw [digits_hit hat hds hnd hp 1 (by simp) caps _ r (by simpa [widthCaps] using hk)]
    rfl

/-! ### the argument number -/

/-- the `n$` part is skipped: a (possibly empty) digit run that is not followed by `$` -/
theorem num_skip {s : Array Nat} {p : Nat} {ds : Text} (hat : At s p ds) (hds : ∀ d ∈ ds, IsDig d)
    (hnd : NoDigAt s (p + ds.length)) (h36 : s[p + ds.length]? ≠ some 36) (caps) (k : K) :
    m s reNum ⟨p, caps⟩ k = k ⟨p, caps⟩ := by
  have key : m s reNumG ⟨p, caps⟩ k = none := by
    unfold reNumG
    rw [m_seq, m_group, m_seq]
    cases ds with
    | nil =>
      simp only [List.length_nil, Nat.add_zero] at hnd
      exact cls_fail (fun c hc => by
        have := hnd c hc
        unfold IsDig at this
        simp [inC, ClsItem.has]; omega) caps _
    | cons d ds' =>
      obtain ⟨hd0, hat'⟩ := at_cons.mp hat
      have hdig : IsDig d := hds d (by simp)
      by_cases h48 : d = 48
      · exact cls_fail (fun c hc => by
          rw [hd0] at hc; cases hc
          simp [inC, ClsItem.has, h48]) caps _
      · unfold reC19
        rw [cls_ok hd0 (by unfold IsDig at hdig; simp [inC, ClsItem.has]; omega)]
        have hds' : ∀ d' ∈ ds', IsDig d' := fun d' hd' => hds d' (by simp [hd'])
        have hnd' : NoDigAt s (p + 1 + ds'.length) := by
          rw [show p + 1 + ds'.length = p + (d :: ds').length by simp; omega]; exact hnd
        apply star_none hat' hds' hnd'
        intro j hj
        apply lit_fail
        by_cases hjl : j < ds'.length
        · rw [at_get hat' hjl]
          have := hds' _ (List.getElem_mem hjl)
          unfold IsDig at this
          simp; omega
        · have : j = ds'.length := by omega
          subst this
          rw [show p + 1 + ds'.length = p + (d :: ds').length by simp; omega]
          exact h36
  unfold reNum
  rw [m_alt, key, orElse_none_left, m_eps]

/-- the `n$` part: a digit `1-9`, more digits, `$` -/
theorem num_hit {s : Array Nat} {p d : Nat} {ds : Text} (hat : At s p (d :: ds ++ [36]))
    (hd : 49 ≤ d ∧ d ≤ 57) (hds : ∀ d' ∈ ds, IsDig d') (caps) (k : K) (r : St)
    (hk : k ⟨p + ds.length + 2, (2, p, p + ds.length + 1) :: caps⟩ = some r) :
    m s reNum ⟨p, caps⟩ k = some r := by
  rw [List.cons_append] at hat
  obtain ⟨hd0, hat'⟩ := at_cons.mp hat
  obtain ⟨hat1, hat2⟩ := at_append.mp hat'
  have h36 : s[p + 1 + ds.length]? = some 36 := (at_cons.mp hat2).1
  have hlt := getElem?_some_lt hd0
  have hnd : NoDigAt s (p + 1 + ds.length) := by
    intro c hc; rw [h36] at hc; cases hc; unfold IsDig; omega
  unfold reNum reNumG reC19
  rw [m_alt, m_seq, m_group, m_seq, cls_ok hd0 (by simp [inC, ClsItem.has]; omega)]
  rw [digits_hit hat1 hds hnd (by omega) 0 (by omega) caps _ r
    (by simp only
        rw [lit_ok h36]
        rw [show p + 1 + ds.length + 1 = p + ds.length + 2 by omega,
          show p + 1 + ds.length = p + ds.length + 1 by omega]
        exact hk)]
  rfl

/-! ### what follows the width: precision + type -/

/-- the first character of `P ++ [c]` is `.` or the type character: no digit, no `*`, no `$`, no `%` -/
theorem head_prec {s : Array Nat} {p c : Nat} {P : Text} (hP : PShape P) (hat : At s p (P ++ [c]))
    (hs : IsSpec c) :
    NoDigAt s p ∧ s[p]? ≠ some 42 ∧ s[p]? ≠ some 36 ∧ s[p]? ≠ some 37 := by
  obtain ⟨hnd, h37, h36, h42, h46⟩ := spec_facts hs
  have hcase : s[p]? = some 46 ∨ s[p]? = some c := by
    rcases hP with rfl | rfl | rfl | ⟨ds, _, _, rfl⟩
    · right; exact (at_cons.mp hat).1
    · left; exact (at_cons.mp hat).1
    · left; exact (at_cons.mp hat).1
    · left; exact (at_cons.mp hat).1
  rcases hcase with h | h
  · refine ⟨?_, by rw [h]; simp, by rw [h]; simp, by rw [h]; simp⟩
    intro c' hc'; rw [h] at hc'; cases hc'; unfold IsDig; omega
  · refine ⟨?_, by rw [h]; simpa using h42, by rw [h]; simpa using h36, by rw [h]; simpa using h37⟩
    intro c' hc'; rw [h] at hc'; cases hc'; exact hnd

/-- width, precision, type, in front of a continuation that accepts the end of the token -/
theorem after_num {s : Array Nat} {p c : Nat} {W P : Text} (hW : WShape W) (hP : PShape P) (hs : IsSpec c)
    (hat : At s p (W ++ (P ++ [c]))) (caps) (k : K) (r : St)
    (hk : k ⟨p + W.length + P.length + 1,
        (5, p + W.length + P.length, p + W.length + P.length + 1) ::
          (precCaps (p + W.length) P ++ (widthCaps p W ++ caps))⟩ = some r) :
    m s (.seq reWidth (.seq rePrec reSpec)) ⟨p, caps⟩ k = some r := by
  obtain ⟨hatW, hatPc⟩ := at_append.mp hat
  obtain ⟨hatP, hatc⟩ := at_append.mp hatPc
  have hc : s[p + W.length + P.length]? = some c := (at_cons.mp hatc).1
  obtain ⟨hnd, h42, _, _⟩ := head_prec hP hatPc hs
  have hp : p ≤ s.size := by have := getElem?_some_lt hc; omega
  rw [m_seq]
  apply width_hit hW hatW hnd h42 hp
  rw [m_seq]
  apply prec_hit hP hatP hc hs
  rw [spec_hit hc hs]
  exact hk

/-! ### the whole regex -/

theorem printf_nomatch {s : Array Nat} {q : Nat} (h : s[q]? ≠ some 37) :
    matchAt s Gen.Pat.PropertiesChecker_printf q = none := by
  rw [printf_eq]
  unfold matchAt
  rw [m_seq, lit_fail h]

theorem printf_pct {s : Array Nat} {q : Nat} (hat : At s q [37, 37]) :
    matchAt s Gen.Pat.PropertiesChecker_printf q = some ⟨q + 2, [(1, q + 1, q + 2)]⟩ := by
  obtain ⟨h0, h1⟩ := at_cons.mp hat
  have h1 : s[q + 1]? = some 37 := (at_cons.mp h1).1
  rw [printf_eq]
  unfold matchAt
  rw [m_seq, lit_ok h0, m_alt, m_group, m_alt, lit_ok h1]
  rfl

/-- a `%` that is followed by nothing that starts `%` or an argument: the empty alternative -/
theorem printf_lone {s : Array Nat} {q : Nat} (h0 : s[q]? = some 37)
    (hnext : ∀ c, s[q + 1]? = some c → c ≠ 37 ∧ ¬ IsDig c ∧ c ≠ 42 ∧ c ≠ 46 ∧ ¬ IsSpec c) :
    matchAt s Gen.Pat.PropertiesChecker_printf q = some ⟨q + 1, []⟩ := by
  have h37 : s[q + 1]? ≠ some 37 := fun h => (hnext 37 h).1 rfl
  have h42 : s[q + 1]? ≠ some 42 := fun h => (hnext 42 h).2.2.1 rfl
  have h46 : s[q + 1]? ≠ some 46 := fun h => (hnext 46 h).2.2.2.1 rfl
  have hnd : NoDigAt s (q + 1) := fun c hc => (hnext c hc).2.1
  have h36 : s[q + 1]? ≠ some 36 ∨ True := Or.inr trivial
  have hnum : ∀ caps k, m s reNum ⟨q + 1, caps⟩ k = k ⟨q + 1, caps⟩ := by
    intro caps k
    unfold reNum reNumG reC19
    rw [m_alt, m_seq, m_group, m_seq, cls_fail (fun c hc => by
      have := hnd c hc
      unfold IsDig at this
      simp [inC, ClsItem.has]; omega), orElse_none_left, m_eps]
  rw [printf_eq]
  unfold matchAt reArg
  rw [m_seq, lit_ok h0, m_alt, m_group, m_alt, lit_fail h37, orElse_none_left, m_seq, hnum, m_seq,
    width_skip h42 hnd, m_seq, prec_skip h46, spec_fail (fun c hc => (hnext c hc).2.2.2.2),
    orElse_none_left, m_eps]

/-- `%` + width + precision + type -/
theorem printf_unordered {s : Array Nat} {q c : Nat} {W P : Text} (hW : WShape W) (hP : PShape P)
    (hs : IsSpec c) (hat : At s q (37 :: (W ++ (P ++ [c])))) :
    matchAt s Gen.Pat.PropertiesChecker_printf q =
      some ⟨q + 1 + W.length + P.length + 1,
        (1, q + 1, q + 1 + W.length + P.length + 1) ::
        (5, q + 1 + W.length + P.length, q + 1 + W.length + P.length + 1) ::
          (precCaps (q + 1 + W.length) P ++ (widthCaps (q + 1) W ++ []))⟩ := by
  obtain ⟨h0, hat'⟩ := at_cons.mp hat
  obtain ⟨hatW, hatPc⟩ := at_append.mp hat'
  obtain ⟨hndP, h42P, h36P, h37P⟩ := head_prec hP hatPc hs
  -- the first character after `%` is not `%`
  have h37 : s[q + 1]? ≠ some 37 := by
    rcases hW with rfl | rfl | ⟨hne, hds⟩
    · simpa using h37P
    · rw [(at_cons.mp hatW).1]; simp
    · obtain ⟨d, W', rfl⟩ := List.exists_cons_of_ne_nil hne
      rw [(at_cons.mp hatW).1]
      have := hds d (by simp)
      unfold IsDig at this
      simp; omega
  -- the number group fails: the digit run (if any) is not followed by `$`
  have hnum : ∀ caps k, m s reNum ⟨q + 1, caps⟩ k = k ⟨q + 1, caps⟩ := by
    intro caps k
    rcases hW with rfl | rfl | ⟨hne, hds⟩
    · exact num_skip (ds := []) (At.nil _ _) (by simp) (by simpa using hndP) (by simpa using h36P) caps k
    · have h1 : s[q + 1]? = some 42 := (at_cons.mp hatW).1
      exact num_skip (ds := []) (At.nil _ _) (by simp)
        (by intro c' hc'; simp only [List.length_nil, Nat.add_zero] at hc'; rw [h1] at hc'; cases hc'
            unfold IsDig; omega)
        (by simp only [List.length_nil, Nat.add_zero]; rw [h1]; simp) caps k
    · exact num_skip hatW hds hndP h36P caps k
  rw [printf_eq]
  unfold matchAt reArg
  rw [m_seq, lit_ok h0, m_alt, m_group, m_alt, lit_fail h37, orElse_none_left, m_seq, hnum]
  have := after_num hW hP hs hat' []
    (fun st' => some { pos := st'.pos, caps := (1, q + 1, st'.pos) :: st'.caps }) _ rfl
  simp only [this, orElse_some_left]

/-- `%` + number + `$` + width + precision + type -/
theorem printf_ordered {s : Array Nat} {q d c : Nat} {ds W P : Text} (hd : 49 ≤ d ∧ d ≤ 57)
    (hds : ∀ d' ∈ ds, IsDig d') (hW : WShape W) (hP : PShape P) (hs : IsSpec c)
    (hat : At s q (37 :: ((d :: ds ++ [36]) ++ (W ++ (P ++ [c]))))) :
    matchAt s Gen.Pat.PropertiesChecker_printf q =
      some ⟨q + 1 + (ds.length + 2) + W.length + P.length + 1,
        (1, q + 1, q + 1 + (ds.length + 2) + W.length + P.length + 1) ::
        (5, q + 1 + (ds.length + 2) + W.length + P.length, q + 1 + (ds.length + 2) + W.length + P.length + 1) ::
          (precCaps (q + 1 + (ds.length + 2) + W.length) P ++ (widthCaps (q + 1 + (ds.length + 2)) W ++
            [(2, q + 1, q + 1 + ds.length + 1)]))⟩ := by
  obtain ⟨h0, hat'⟩ := at_cons.mp hat
  obtain ⟨hatN, hatR⟩ := at_append.mp hat'
  have hlenN : (d :: ds ++ [36]).length = ds.length + 2 := by simp
  rw [hlenN] at hatR
  have h37 : s[q + 1]? ≠ some 37 := by
    rw [List.cons_append] at hatN
    rw [(at_cons.mp hatN).1]; simp; omega
  rw [printf_eq]
  unfold matchAt reArg
  rw [m_seq, lit_ok h0, m_alt, m_group, m_alt, lit_fail h37, orElse_none_left, m_seq]
  have e : q + 1 + ds.length + 2 = q + 1 + (ds.length + 2) := by omega
  have h2 := after_num hW hP hs hatR [(2, q + 1, q + 1 + ds.length + 1)]
    (fun st' => some { pos := st'.pos, caps := (1, q + 1, st'.pos) :: st'.caps }) _ rfl
  have h1 := num_hit hatN hd hds []
    (fun st' => m s (.seq reWidth (.seq rePrec reSpec)) st'
      (fun st' => some { pos := st'.pos, caps := (1, q + 1, st'.pos) :: st'.caps }))
    ⟨q + 1 + (ds.length + 2) + W.length + P.length + 1,
        (1, q + 1, q + 1 + (ds.length + 2) + W.length + P.length + 1) ::
        (5, q + 1 + (ds.length + 2) + W.length + P.length, q + 1 + (ds.length + 2) + W.length + P.length + 1) ::
          (precCaps (q + 1 + (ds.length + 2) + W.length) P ++ (widthCaps (q + 1 + (ds.length + 2)) W ++
            [(2, q + 1, q + 1 + ds.length + 1)]))⟩
    (by rw [e]
        exact h2)
  have h1' : (m s reNum ⟨q + 1, []⟩ fun st' => m s (.seq reWidth (.seq rePrec reSpec)) st'
      (fun st' => some { pos := st'.pos, caps := (1, q + 1, st'.pos) :: st'.caps })) = _ := h1
  simp only [h1', orElse_some_left]

end C06R

/-
C14 (round 4): the laziness of `ProjectConfig._filter` / `cache`, exactly.

`Paths/FilterM.lean` keeps the raise sites and the evaluation order of the Python (`any(...)` over generators,
the reverse rule scan with `continue` / `break`, the set comprehension over the included configurations, the two
eager loops of `cache`).  Here that order is characterised DECLARATIVELY:

* `firstD l` — the first decisive element of a list of answers: the first one that is not `ok false`;
* `any(p.match(fullpath) is not None for p in cached.l10n_paths)` = `firstD` of the answers, in order;
* the reverse rule scan = the action of the first rule (from the end) whose test — path first, then the key part —
  is not `ok false`; `error` if there is none; the exception if that test raises;
* `any(exclude.filter(file) == "error" for exclude in self.excludes)` = `firstD` over the public filters, in order;
* the included configurations and the two loops of `cache` are EAGER: `mapM`, in order.

All of them are equations / equivalences (no hypothesis that anything returns).
-/
import CLModel.Paths.FilterM
import CLModel.Proofs.C14MCompose
import CLModel.Proofs.C14MCor
namespace C14L
open Filt FiltM C14M

/-! ### first decisive answer -/

/-- the first element that is not `ok false` (a `true`, or an exception); `ok false` if there is none -/
def firstD {ε : Type} : List (Except ε Bool) → Except ε Bool
  | [] => .ok false
  | .ok false :: rest => firstD rest
  | x :: _ => x

def decisive {ε : Type} : Except ε Bool → Bool
  | .ok false => false
  | _ => true

theorem firstD_cons {ε : Type} (x : Except ε Bool) (rest : List (Except ε Bool)) :
    firstD (x :: rest) = if decisive x then x else firstD rest := by
  cases x with
  | error e => rfl
  | ok b => cases b <;> rfl

/-- `firstD` is "find the first decisive element" -/
theorem firstD_eq_find {ε : Type} (l : List (Except ε Bool)) :
    firstD l = match l.find? decisive with | some x => x | none => .ok false := by
  induction l with
  | nil => rfl
  | cons x rest ih =>
    rw [firstD_cons, List.find?_cons]
    cases hd : decisive x <;> simp [ih]

theorem firstD_ok_false_iff {ε : Type} (l : List (Except ε Bool)) :
    firstD l = .ok false ↔ ∀ x ∈ l, x = .ok false := by
  induction l with
  | nil => simp [firstD]
  | cons x rest ih =>
    rw [firstD_cons]
    cases x with
    | error e => simp [decisive]
    | ok b =>
      cases b
      · simp [decisive, ih]
      · simp [decisive]

theorem firstD_of_prefix {ε : Type} (pre : List (Except ε Bool)) (x : Except ε Bool) (post : List (Except ε Bool))
    (hpre : ∀ y ∈ pre, y = .ok false) (hx : decisive x = true) : firstD (pre ++ x :: post) = x := by
  induction pre with
  | nil => rw [List.nil_append, firstD_cons, hx]; rfl
  | cons y ys ih =>
    have hy : y = .ok false := hpre y (by simp)
    subst hy
    rw [List.cons_append, firstD_cons]
    simp only [decisive, Bool.false_eq_true, ↓reduceIte]
    exact ih (fun z hz => hpre z (by simp [hz]))

/-- a decisive answer `x` comes out iff `x` occurs after a prefix of `ok false` answers — whatever follows it -/
theorem firstD_eq_iff {ε : Type} (l : List (Except ε Bool)) (x : Except ε Bool) (hx : decisive x = true) :
    firstD l = x ↔ ∃ pre post, l = pre ++ x :: post ∧ ∀ y ∈ pre, y = .ok false := by
  constructor
  · intro h
    induction l with
    | nil => simp only [firstD] at h; subst h; cases hx
    | cons y rest ih =>
      rw [firstD_cons] at h
      cases hd : decisive y with
      | true =>
        rw [hd] at h
        simp only [↓reduceIte] at h
        subst h
        exact ⟨[], rest, rfl, fun _ hm => by cases hm⟩
      | false =>
        rw [hd] at h
        simp only [Bool.false_eq_true, ↓reduceIte] at h
        obtain ⟨pre, post, hl, hp⟩ := ih h
        have hy : y = .ok false := by
          cases y with
          | error e => cases hd
          | ok b => cases b <;> simp_all [decisive]
        exact ⟨y :: pre, post, by rw [hl]; rfl, fun z hz => by
          rcases List.mem_cons.mp hz with rfl | hz
          · exact hy
          · exact hp z hz⟩
  · rintro ⟨pre, post, rfl, hp⟩
    exact firstD_of_prefix pre x post hp hx

theorem firstD_ok_true_iff {ε : Type} (l : List (Except ε Bool)) :
    firstD l = .ok true ↔ ∃ pre post, l = pre ++ .ok true :: post ∧ ∀ y ∈ pre, y = .ok false :=
  firstD_eq_iff l (.ok true) rfl

theorem firstD_error_iff {ε : Type} (l : List (Except ε Bool)) (e : ε) :
    firstD l = .error e ↔ ∃ pre post, l = pre ++ .error e :: post ∧ ∀ y ∈ pre, y = .ok false :=
  firstD_eq_iff l (.error e) rfl

/-! ### the covered test -/

/-- `any(p.match(l10n_file.fullpath) is not None for p in cached.l10n_paths)`: the first decisive answer, in order -/
theorem anyMatchS_eq (fp : Text) : ∀ (ps : List PM.Matcher), anyMatchS fp ps = firstD (ps.map (matchesS · fp))
  | [] => rfl
  | p :: ps => by
    rw [anyMatchS, List.map_cons, firstD_cons, ← anyMatchS_eq fp ps]
    cases h : matchesS p fp with
    | error e => rfl
    | ok b => cases b <;> rfl

/-! ### the reverse rule scan -/

/-- the test the scan makes on one rule: the path first (it may raise, whatever the key says), then the key part -/
def ruleTestS (fp : Text) (entity : Option Text) (r : CachedRuleS) : Except PyErr Bool :=
  match matchesS r.path fp with
  | .ok b => .ok (b && keyOK r.key entity)
  | .error e => .error e

theorem scanRulesS_cons (fp : Text) (entity : Option Text) (r : CachedRuleS) (rest : List CachedRuleS) :
    scanRulesS fp entity (r :: rest) =
      match ruleTestS fp entity r with
      | .ok false => scanRulesS fp entity rest
      | .ok true => .ok r.action
      | .error e => .error e := by
  cases hm : matchesS r.path fp with
  | error e => simp only [scanRulesS, ruleTestS, hm, bind, Except.bind]
  | ok b =>
    cases b with
    | false => simp [scanRulesS, ruleTestS, hm, bind, Except.bind]
    | true =>
      simp only [scanRulesS, ruleTestS, hm, bind, Except.bind, Bool.not_true, Bool.false_eq_true, if_false,
        Bool.true_and]
      cases hk : r.key with
      | none => cases entity <;> simp [keyOK, pure, Except.pure]
      | some k =>
        cases entity with
        | none => simp [keyOK, pure, Except.pure]
        | some e => cases hke : k.matches e <;> simp [keyOK, hke, pure, Except.pure]

/-- the scan returns `a` iff `a` is the action of a rule whose test is `ok true` and which is preceded (in scan
    order, i.e. FOLLOWED in the configuration) only by rules whose test is `ok false` — or every test is `ok false`
    and `a` is the default `error`.  Nothing is asked of the rules behind the decisive one. -/
theorem scan_ok_iff (fp : Text) (entity : Option Text) (rs : List CachedRuleS) (a : Action) :
    scanRulesS fp entity rs = .ok a ↔
      (∃ pre r post, rs = pre ++ r :: post ∧ (∀ q ∈ pre, ruleTestS fp entity q = .ok false) ∧
        ruleTestS fp entity r = .ok true ∧ a = r.action) ∨
      ((∀ q ∈ rs, ruleTestS fp entity q = .ok false) ∧ a = .error) := by
  induction rs with
  | nil =>
    simp only [scanRulesS, pure, Except.pure, Except.ok.injEq, List.not_mem_nil, false_imp_iff, implies_true, true_and]
    constructor
    · intro h; exact Or.inr h.symm
    · rintro (⟨pre, r, post, h, _⟩ | h)
      · cases pre <;> cases h
      · exact h.symm
  | cons r rest ih =>
    rw [scanRulesS_cons]
    cases ht : ruleTestS fp entity r with
    | error e =>
      simp only [reduceCtorEq, false_iff, not_or]
      constructor
      · rintro ⟨pre, r', post, h, hpre, hr', _⟩
        cases pre with
        | nil => simp only [List.nil_append, List.cons.injEq] at h; rw [← h.1, ht] at hr'; cases hr'
        | cons p pre' =>
          simp only [List.cons_append, List.cons.injEq] at h
          have := hpre p (by simp)
          rw [← h.1, ht] at this; cases this
      · rintro ⟨h, _⟩
        have := h r (by simp)
        rw [ht] at this; cases this
    | ok b =>
      cases b with
      | true =>
        simp only [Except.ok.injEq]
        constructor
        · intro h; exact Or.inl ⟨[], r, rest, rfl, (fun _ hm => by cases hm), ht, h.symm⟩
        · rintro (⟨pre, r', post, h, hpre, hr', ha⟩ | ⟨h, _⟩)
          · cases pre with
            | nil => simp only [List.nil_append, List.cons.injEq] at h; rw [ha, ← h.1]
            | cons p pre' =>
              simp only [List.cons_append, List.cons.injEq] at h
              have := hpre p (by simp)
              rw [← h.1, ht] at this; cases this
          · have := h r (by simp)
            rw [ht] at this; cases this
      | false =>
        simp only
        rw [ih]
        constructor
        · rintro (⟨pre, r', post, h, hpre, hr', ha⟩ | ⟨h, ha⟩)
          · exact Or.inl ⟨r :: pre, r', post, by rw [h]; rfl, fun q hq => by
              rcases List.mem_cons.mp hq with rfl | hq
              · exact ht
              · exact hpre q hq, hr', ha⟩
          · exact Or.inr ⟨fun q hq => by
              rcases List.mem_cons.mp hq with rfl | hq
              · exact ht
              · exact h q hq, ha⟩
        · rintro (⟨pre, r', post, h, hpre, hr', ha⟩ | ⟨h, ha⟩)
          · cases pre with
            | nil => simp only [List.nil_append, List.cons.injEq] at h; rw [← h.1, ht] at hr'; cases hr'
            | cons p pre' =>
              simp only [List.cons_append, List.cons.injEq] at h
              exact Or.inl ⟨pre', r', post, h.2, fun q hq => hpre q (by simp [hq]), hr', ha⟩
          · exact Or.inr ⟨fun q hq => h q (by simp [hq]), ha⟩

/-- the scan raises `e` iff the test of some rule raises `e` and every rule scanned before it tested `ok false` -/
theorem scan_error_iff (fp : Text) (entity : Option Text) (rs : List CachedRuleS) (e : PyErr) :
    scanRulesS fp entity rs = .error e ↔
      ∃ pre r post, rs = pre ++ r :: post ∧ (∀ q ∈ pre, ruleTestS fp entity q = .ok false) ∧
        ruleTestS fp entity r = .error e := by
  induction rs with
  | nil =>
    simp only [scanRulesS, pure, Except.pure, reduceCtorEq, false_iff, not_exists, not_and]
    intro pre r post h
    cases pre <;> cases h
  | cons r rest ih =>
    rw [scanRulesS_cons]
    cases ht : ruleTestS fp entity r with
    | error e' =>
      simp only [Except.error.injEq]
      constructor
      · intro h; subst h; exact ⟨[], r, rest, rfl, (fun _ hm => by cases hm), ht⟩
      · rintro ⟨pre, r', post, h, hpre, hr'⟩
        cases pre with
        | nil =>
          simp only [List.nil_append, List.cons.injEq] at h
          rw [← h.1, ht] at hr'
          exact Except.error.inj hr'
        | cons p pre' =>
          simp only [List.cons_append, List.cons.injEq] at h
          have := hpre p (by simp)
          rw [← h.1, ht] at this; cases this
    | ok b =>
      cases b with
      | true =>
        simp only [reduceCtorEq, false_iff, not_exists, not_and]
        intro pre r' post h hpre hr'
        cases pre with
        | nil => simp only [List.nil_append, List.cons.injEq] at h; rw [← h.1, ht] at hr'; cases hr'
        | cons p pre' =>
          simp only [List.cons_append, List.cons.injEq] at h
          have := hpre p (by simp)
          rw [← h.1, ht] at this; cases this
      | false =>
        simp only
        rw [ih]
        constructor
        · rintro ⟨pre, r', post, h, hpre, hr'⟩
          exact ⟨r :: pre, r', post, by rw [h]; rfl, fun q hq => by
            rcases List.mem_cons.mp hq with rfl | hq
            · exact ht
            · exact hpre q hq, hr'⟩
        · rintro ⟨pre, r', post, h, hpre, hr'⟩
          cases pre with
          | nil => simp only [List.nil_append, List.cons.injEq] at h; rw [← h.1, ht] at hr'; cases hr'
          | cons p pre' =>
            simp only [List.cons_append, List.cons.injEq] at h
            exact ⟨pre', r', post, h.2, fun q hq => hpre q (by simp [hq]), hr'⟩

/-! ### `cache`: both loops are eager -/

theorem cachePaths_eq (loc : Text) : ∀ (ps : List PathEntryS),
    cachePaths loc ps = (ps.filter (fun p => enabledFor p.locales loc)).mapM (fun p => p.l10n.withEnv (localeEnv loc))
  | [] => rfl
  | p :: ps => by
    rw [cachePaths, List.filter_cons]
    cases he : enabledFor p.locales loc
    · simp only [Bool.not_false, ↓reduceIte, Bool.false_eq_true]
      exact cachePaths_eq loc ps
    · simp only [Bool.not_true, Bool.false_eq_true, ↓reduceIte, List.mapM_cons]
      rw [cachePaths_eq loc ps]

theorem cacheRules_eq (loc : Text) : ∀ (rs : List RuleS),
    cacheRules loc rs = rs.mapM (fun r => do
      let m ← r.path.withEnv (localeEnv loc)
      pure (⟨m, r.key, r.action⟩ : CachedRuleS))
  | [] => rfl
  | r :: rs => by
    rw [cacheRules, List.mapM_cons, cacheRules_eq loc rs]
    simp only [bind_assoc, pure_bind]

/-! ### included configurations (eager), excluded configurations (lazy) -/

theorem childActionsS_eq_mapM (file : File) (entity : Option Text) : ∀ (cs : List ConfigS),
    childActionsS cs file entity = cs.mapM (fun c => filterInnerS c file entity)
  | [] => rfl
  | c :: cs => by
    rw [childActionsS, List.mapM_cons, childActionsS_eq_mapM file entity cs]

/-- `exclude.filter(l10n_file) == "error"` -/
def excludeHitS (file : File) (ex : ConfigS) : Except PyErr Bool :=
  match filterS ex file none with
  | .ok a => .ok (a == Action.error)
  | .error e => .error e

/-- `any(exclude.filter(l10n_file) == "error" for exclude in self.excludes)`: the first decisive answer of the
    excluded configurations' PUBLIC filters on the file, in order; later ones are not consulted -/
theorem anyExcludeErrorS_eq (file : File) : ∀ (exs : List ConfigS),
    anyExcludeErrorS exs file = firstD (exs.map (excludeHitS file))
  | [] => rfl
  | ex :: exs => by
    rw [anyExcludeErrorS, List.map_cons, firstD_cons, ← anyExcludeErrorS_eq file exs]
    simp only [excludeHitS, filterS]
    by_cases hl : (allLocalesS ex).contains file.locale = true
    · simp only [hl, Bool.not_true, Bool.false_eq_true, ↓reduceIte, bind, Except.bind, pure, Except.pure]
      cases hi : filterInnerS ex file none with
      | error e => simp [decisive]
      | ok r =>
        cases r with
        | none => simp +decide [decisive]
        | some a => cases a <;> simp +decide [decisive]
    · have hl' : (allLocalesS ex).contains file.locale = false := by simpa using hl
      have hl'' : file.locale ∉ allLocalesS ex := by simpa using hl
      simp +decide [hl', hl'', bind, Except.bind, pure, Except.pure, decisive]

/-- **`_filter` with its evaluation order spelled out**: excludes lazily (`firstD`), included configurations eagerly
    (`mapM`), early return on an included `error`, then `cache` (two eager loops), the covered test lazily, the
    rule scan lazily from the end. -/
theorem filterInnerS_lazy (locales : Option (List Text)) (paths : List PathEntryS) (rules : List RuleS)
    (children excludes : List ConfigS) (file : File) (entity : Option Text) :
    filterInnerS (.mk locales paths rules children excludes) file entity =
      (do
        if (← firstD (excludes.map (excludeHitS file))) then pure none else
        let actions ← children.mapM (fun c => filterInnerS c file entity)
        if actions.contains (some .error) then pure (some .error) else
        let ps ← (paths.filter (fun p => enabledFor p.locales file.locale)).mapM
          (fun p => p.l10n.withEnv (localeEnv file.locale))
        let rs ← rules.mapM (fun r => do
          let m ← r.path.withEnv (localeEnv file.locale)
          pure (⟨m, r.key, r.action⟩ : CachedRuleS))
        if (← firstD (ps.map (matchesS · file.fullpath))) then do
          let a ← scanRulesS file.fullpath entity rs.reverse
          pure (pick (actions ++ [some a]))
        else pure (pick actions)) := by
  rw [filterInnerS, anyExcludeErrorS_eq, childActionsS_eq_mapM]
  simp only [ownStepS, cacheS, cachePaths_eq, cacheRules_eq, anyMatchS_eq, bind_assoc, pure_bind]

end C14L

/-! ### a configuration without included / excluded configurations, read on its pattern TEXTS, lazily -/
namespace C14L
open Filt FiltM C14M Filt.Spec

/-- a cached rule stands for a rule text: same key and action, and its matcher answers as `patMatches` of the text -/
def RelC (environ : Environ) (root : Option Text) (loc : Text) (q : RuleM) (c : CachedRuleS) : Prop :=
  c.key = q.key ∧ c.action = q.action ∧ ∀ fp, patMatches environ root q.path loc fp = matchesS c.path fp

theorem patMatches_of_parts {environ : Environ} {root : Option Text} {pat loc : Text} {m b : PM.Matcher}
    (hm : PM.mkMatcher pat environ root = .ok m) (hb : m.withEnv (localeEnv loc) = .ok b) (fp : Text) :
    patMatches environ root pat loc fp = matchesS b fp := by
  simp only [patMatches, boundMatcher, hm, hb, bind, Except.bind]

theorem bound_of_parts {environ : Environ} {root : Option Text} {pat loc : Text} {m : PM.Matcher}
    (hm : PM.mkMatcher pat environ root = .ok m) :
    boundMatcher environ root pat loc = m.withEnv (localeEnv loc) := by
  simp only [boundMatcher, hm, bind, Except.bind]

/-- second loop of `cache` on the texts: it returns iff every rule's `with_env` does -/
theorem cacheRules_pairs {environ : Environ} {root : Option Text} (loc : Text) :
    ∀ {rules : List RuleM} {rs : List RuleS}, buildRules environ root rules = .ok rs →
      (∀ q ∈ rules, ∃ b, boundMatcher environ root q.path loc = .ok b) →
      ∃ l : List (RuleM × CachedRuleS), rules = l.map (·.1) ∧ cacheRules loc rs = .ok (l.map (·.2)) ∧
        ∀ p ∈ l, RelC environ root loc p.1 p.2
  | [], rs, hb, _ => by
    simp only [buildRules, pure, Except.pure, Except.ok.injEq] at hb
    subst hb
    exact ⟨[], rfl, rfl, fun p hp => by cases hp⟩
  | q :: rest, rs, hb, hall => by
    simp only [buildRules] at hb
    obtain ⟨m, hm, hb⟩ := bind_ok hb
    obtain ⟨rs', hrs', hb⟩ := bind_ok hb
    simp only [pure, Except.pure, Except.ok.injEq] at hb
    subst hb
    obtain ⟨b, hbq⟩ := hall q (by simp)
    rw [bound_of_parts hm] at hbq
    obtain ⟨l, h1, h2, h3⟩ := cacheRules_pairs loc hrs' (fun x hx => hall x (by simp [hx]))
    refine ⟨(q, ⟨b, q.key, q.action⟩) :: l, by simp [h1], ?_, ?_⟩
    · simp only [cacheRules, hbq, h2, bind, Except.bind, pure, Except.pure, List.map_cons]
    · intro p hp
      rcases List.mem_cons.mp hp with rfl | hp
      · exact ⟨rfl, rfl, patMatches_of_parts hm hbq⟩
      · exact h3 p hp

/-- first loop of `cache` on the texts: the paths enabled for the locale, in order -/
theorem cachePaths_pairs {environ : Environ} {root : Option Text} (loc : Text) :
    ∀ {paths : List PathEntryM} {ps : List PathEntryS}, buildPaths environ root paths = .ok ps →
      (∀ p ∈ paths, enabledFor p.locales loc = true → ∃ b, boundMatcher environ root p.l10n loc = .ok b) →
      ∃ l : List (PathEntryM × PM.Matcher),
        paths.filter (fun p => enabledFor p.locales loc) = l.map (·.1) ∧ cachePaths loc ps = .ok (l.map (·.2)) ∧
        ∀ p ∈ l, ∀ fp, patMatches environ root p.1.l10n loc fp = matchesS p.2 fp
  | [], ps, hb, _ => by
    simp only [buildPaths, pure, Except.pure, Except.ok.injEq] at hb
    subst hb
    exact ⟨[], rfl, rfl, fun p hp => by cases hp⟩
  | q :: rest, ps, hb, hall => by
    simp only [buildPaths] at hb
    obtain ⟨m, hm, hb⟩ := bind_ok hb
    obtain ⟨ps', hps', hb⟩ := bind_ok hb
    simp only [pure, Except.pure, Except.ok.injEq] at hb
    subst hb
    obtain ⟨l, h1, h2, h3⟩ := cachePaths_pairs loc hps' (fun x hx => hall x (by simp [hx]))
    cases he : enabledFor q.locales loc with
    | false =>
      refine ⟨l, by simp [List.filter_cons, he, h1], ?_, h3⟩
      simp only [cachePaths, he, Bool.not_false, ↓reduceIte, h2]
    | true =>
      obtain ⟨b, hbq⟩ := hall q (by simp) he
      rw [bound_of_parts hm] at hbq
      refine ⟨(q, b) :: l, by simp [List.filter_cons, he, h1], ?_, ?_⟩
      · simp only [cachePaths, he, Bool.not_true, Bool.false_eq_true, ↓reduceIte, hbq, h2, bind, Except.bind, pure,
          Except.pure, List.map_cons]
      · intro p hp
        rcases List.mem_cons.mp hp with rfl | hp
        · exact patMatches_of_parts hm hbq
        · exact h3 p hp

theorem buildPaths_locales {environ : Environ} {root : Option Text} : ∀ {paths : List PathEntryM} {ps : List PathEntryS},
    buildPaths environ root paths = .ok ps → ps.map (·.locales) = paths.map (·.locales)
  | [], ps, hb => by
    simp only [buildPaths, pure, Except.pure, Except.ok.injEq] at hb
    subst hb; rfl
  | q :: rest, ps, hb => by
    simp only [buildPaths] at hb
    obtain ⟨m, _, hb⟩ := bind_ok hb
    obtain ⟨ps', hps', hb⟩ := bind_ok hb
    simp only [pure, Except.pure, Except.ok.injEq] at hb
    subst hb
    simp [buildPaths_locales hps']

theorem contains_optLocales (o : Option (List Text)) (l : Text) : (optLocales o).contains l = names o l := by
  cases o <;> simp [optLocales, names]

theorem leaf_locales {environ : Environ} {root : Option Text} {paths : List PathEntryM} {ps : List PathEntryS}
    (locales : Option (List Text)) (rs : List RuleS) (hb : buildPaths environ root paths = .ok ps) (l : Text) :
    (allLocalesS (.mk locales ps rs [] [])).contains l = namesLocale locales paths l := by
  have hm := buildPaths_locales hb
  have h1 : ∀ (xs : List (Option (List Text))),
      (xs.flatMap optLocales).contains l = xs.any (fun o => names o l) := by
    intro xs
    induction xs with
    | nil => rfl
    | cons x xs ih =>
      rw [List.flatMap_cons, List.any_cons, ← ih, ← contains_optLocales]
      rw [Bool.eq_iff_iff]; simp
  have h2 : ps.flatMap (fun p => optLocales p.locales) = (ps.map (·.locales)).flatMap optLocales := by
    rw [List.flatMap_map]
  have h3 : paths.any (fun p => names p.locales l) = (paths.map (·.locales)).any (fun o => names o l) := by
    rw [List.any_map]; rfl
  simp only [allLocalesS, allLocalesListS, ownLocalesS, List.append_nil, namesLocale]
  rw [h2, hm, h3, ← h1, ← contains_optLocales]
  rw [Bool.eq_iff_iff]; simp

/-- **the verdict of a leaf configuration, lazily, on its texts**: once every `Matcher(...)` is constructed (`build`)
    and every `with_env` of `cache` returns, the verdict is: the first decisive answer of the enabled `l10n` texts,
    then the reverse scan — no `match` call is assumed to return. -/
theorem leaf_eval {locales : Option (List Text)} {environ : Environ} {root : Option Text}
    {paths : List PathEntryM} {rules : List RuleM} {s : ConfigS} {file : File} (entity : Option Text)
    (hb : build (.mk locales environ root paths rules [] []) = .ok s)
    (hloc : namesLocale locales paths file.locale = true)
    (hbindp : ∀ p ∈ paths, enabledFor p.locales file.locale = true →
      ∃ b, boundMatcher environ root p.l10n file.locale = .ok b)
    (hbindr : ∀ q ∈ rules, ∃ b, boundMatcher environ root q.path file.locale = .ok b) :
    ∃ (lp : List (PathEntryM × PM.Matcher)) (lr : List (RuleM × CachedRuleS)),
      paths.filter (fun p => enabledFor p.locales file.locale) = lp.map (·.1) ∧ rules = lr.map (·.1) ∧
      (∀ p ∈ lr, RelC environ root file.locale p.1 p.2) ∧
      filterM (.mk locales environ root paths rules [] []) file entity =
        (match firstD (lp.map (fun p => patMatches environ root p.1.l10n file.locale file.fullpath)) with
         | .ok true => scanRulesS file.fullpath entity (lr.map (·.2)).reverse
         | .ok false => .ok .ignore
         | .error e => .error e) := by
  have hb0 := hb
  rw [build] at hb
  obtain ⟨ps, hps, hb⟩ := bind_ok hb
  obtain ⟨rs, hrs, hb⟩ := bind_ok hb
  simp only [buildList, bind, Except.bind, pure, Except.pure, Except.ok.injEq] at hb
  subst hb
  obtain ⟨lp, p1, p2, p3⟩ := cachePaths_pairs file.locale hps hbindp
  obtain ⟨lr, r1, r2, r3⟩ := cacheRules_pairs file.locale hrs hbindr
  refine ⟨lp, lr, p1, r1, r3, ?_⟩
  have hmap : lp.map (fun p => patMatches environ root p.1.l10n file.locale file.fullpath)
      = (lp.map (·.2)).map (matchesS · file.fullpath) := by
    rw [List.map_map]
    apply List.map_congr_left
    intro p hp
    exact p3 p hp file.fullpath
  rw [hmap, ← anyMatchS_eq]
  simp only [filterM, hb0, bind, Except.bind, filterS, leaf_locales locales rs hps, hloc, Bool.not_true,
    Bool.false_eq_true, ↓reduceIte, filterInnerS, anyExcludeErrorS, childActionsS, pure, Except.pure,
    List.contains_nil, ownStepS, cacheS, p2, r2, List.nil_append]
  cases ha : anyMatchS file.fullpath (lp.map (·.2)) with
  | error e => rfl
  | ok b =>
    cases b with
    | false => simp [pick]
    | true =>
      simp only [↓reduceIte]
      cases hs : scanRulesS file.fullpath entity (lr.map (·.2)).reverse with
      | error e => rfl
      | ok a => cases a <;> simp [pick]

/-- the test of the scan on a cached rule, read on the rule text -/
theorem ruleTest_text {environ : Environ} {root : Option Text} {loc : Text} {q : RuleM} {c : CachedRuleS}
    (h : RelC environ root loc q c) (fp : Text) (entity : Option Text) :
    ruleTestS fp entity c =
      (match patMatches environ root q.path loc fp with
       | .ok b => .ok (b && keyOK q.key entity)
       | .error e => .error e) := by
  obtain ⟨h1, _, h3⟩ := h
  rw [ruleTestS, h3 fp, h1]

end C14L

namespace C14L
open Filt FiltM C14M Filt.Spec

/-- the rule text tests `ok false` on the query: its matcher returns and (no match, or the key part does not fit) -/
def RuleSkipped (environ : Environ) (root : Option Text) (q : RuleM) (file : File) (entity : Option Text) : Prop :=
  ∃ b, patMatches environ root q.path file.locale file.fullpath = .ok b ∧ (b && keyOK q.key entity) = false

/-- the enabled `l10n` texts cover the file LAZILY: one of them matches and all enabled ones BEFORE it return
    "no match" (nothing is asked of the ones after it) -/
def CoveredLazy (environ : Environ) (root : Option Text) (paths : List PathEntryM) (file : File) : Prop :=
  ∃ p0 p p1, paths.filter (fun q => enabledFor q.locales file.locale) = p0 ++ p :: p1 ∧
    (∀ q ∈ p0, patMatches environ root q.l10n file.locale file.fullpath = .ok false) ∧
    patMatches environ root p.l10n file.locale file.fullpath = .ok true

theorem firstD_covered {environ : Environ} {root : Option Text} {paths : List PathEntryM} {file : File}
    {lp : List (PathEntryM × PM.Matcher)}
    (hlp : paths.filter (fun p => enabledFor p.locales file.locale) = lp.map (·.1))
    (hcov : CoveredLazy environ root paths file) :
    firstD (lp.map (fun p => patMatches environ root p.1.l10n file.locale file.fullpath)) = .ok true := by
  obtain ⟨p0, p, p1, hsplit, h0, hp⟩ := hcov
  rw [hlp] at hsplit
  obtain ⟨l0, l1', rfl, hl0, hl1'⟩ := List.map_eq_append_iff.mp hsplit
  obtain ⟨x, l1, rfl, hx, _⟩ := List.map_eq_cons_iff.mp hl1'
  rw [List.map_append, List.map_cons]
  have : patMatches environ root x.1.l10n file.locale file.fullpath = .ok true := by rw [hx]; exact hp
  rw [this]
  apply firstD_of_prefix _ _ _ _ rfl
  intro y hy
  obtain ⟨q, hq, rfl⟩ := List.mem_map.mp hy
  exact h0 q.1 (hl0 ▸ List.mem_map.mpr ⟨q, hq, rfl⟩)

/-- the scan over the cached rules of `pre ++ r :: post` when every rule text of `post` is skipped:
    it is decided by the test of `r` alone -/
theorem scan_split {environ : Environ} {root : Option Text} {pre post : List RuleM} {r : RuleM} {file : File}
    {entity : Option Text} {lr : List (RuleM × CachedRuleS)}
    (hlr : pre ++ r :: post = lr.map (·.1)) (hrel : ∀ p ∈ lr, RelC environ root file.locale p.1 p.2)
    (hpost : ∀ q ∈ post, RuleSkipped environ root q file entity) :
    ∃ c rest, RelC environ root file.locale r c ∧
      scanRulesS file.fullpath entity (lr.map (·.2)).reverse =
        (match ruleTestS file.fullpath entity c with
         | .ok false => scanRulesS file.fullpath entity rest
         | .ok true => .ok c.action
         | .error e => .error e) := by
  obtain ⟨a, b', rfl, ha, hb'⟩ := List.map_eq_append_iff.mp hlr.symm
  obtain ⟨y, b, rfl, hy, hb⟩ := List.map_eq_cons_iff.mp hb'
  refine ⟨y.2, (a.map (·.2)).reverse, hy ▸ hrel y (by simp), ?_⟩
  rw [List.map_append, List.map_cons, List.reverse_append, List.reverse_cons, List.append_assoc, List.singleton_append]
  have hskip : ∀ c ∈ (b.map (·.2)).reverse, ruleTestS file.fullpath entity c = .ok false := by
    intro c hc
    rw [List.mem_reverse] at hc
    obtain ⟨p, hp, rfl⟩ := List.mem_map.mp hc
    obtain ⟨bb, h1, h2⟩ := hpost p.1 (hb ▸ List.mem_map.mpr ⟨p, hp, rfl⟩)
    rw [ruleTest_text (hrel p (by simp [hp])), h1]
    simp only [h2]
  generalize (b.map (·.2)).reverse = skipped at hskip
  induction skipped with
  | nil => exact scanRulesS_cons _ _ _ _
  | cons c cs ih =>
    rw [List.cons_append, scanRulesS_cons, hskip c (by simp)]
    exact ih (fun d hd => hskip d (by simp [hd]))

end C14L

/- From the regex level to the list level: `finditer`/`sub` of the Android checker's regexes equal the
   independent reference functions of C09Spec (doubled quotes, apostrophes, silencing, printf lexer). -/
import CLModel.Proofs.C09Rx
namespace Android
open Rx Gen.Pat Android.Spec

theorem minLen_dq : 1 ≤ minLen checks_android_check_apostrophes_0 := by decide
theorem minLen_apos : 1 ≤ minLen checks_android_check_apostrophes_2 := by decide
theorem minLen_esc : 1 ≤ minLen checks_android_check_apostrophes_1 := by decide
theorem minLen_sil : 1 ≤ minLen checks_android_silencer := by decide
theorem minLen_par : 1 ≤ minLen checks_android_get_params_0 := by decide

theorem scan_dq : ∀ fuel off l, l.length < fuel →
    (scanL gDq fuel off l).map (·.1) = dqPositions off l := by
  intro fuel
  induction fuel with
  | zero => intro off l h; omega
  | succ f ih =>
    intro off l h
    rcases l with _ | ⟨a, _ | ⟨b, rest⟩⟩
    · simp [scanL, dqPositions]
    · cases f <;> simp [scanL, dqPositions, gDq]
    · simp only [scanL, gDq, dqPositions]
      by_cases hab : (a == 34 && b == 34) = true
      · simp only [hab, if_true, List.map_cons]
        have : off + 2 - off = 2 := by omega
        rw [this]
        simp only [List.drop_succ_cons, List.drop_zero]
        rw [ih (off + 2) rest (by simp at h ⊢; omega)]
      · simp only [hab]
        exact ih (off + 1) (b :: rest) (by simp at h ⊢; omega)

theorem dq_positions (l : List Nat) :
    (finditer l.toArray checks_android_check_apostrophes_0).map (·.1) = dqPositions 0 l := by
  rw [finditer_eq_scanL _ _ minLen_dq gDq (fun p _ => dq_local _ p)]
  exact scan_dq _ _ _ (by simp)

theorem scan_apos : ∀ fuel off l, l.length < fuel →
    (scanL gApos fuel off l).map (·.1) = indicesOf 39 off l := by
  intro fuel
  induction fuel with
  | zero => intro off l h; omega
  | succ f ih =>
    intro off l h
    rcases l with _ | ⟨a, rest⟩
    · simp [scanL, indicesOf]
    · simp only [scanL, gApos, indicesOf]
      by_cases ha : (a == 39) = true
      · simp only [ha, if_true, List.map_cons]
        have : off + 1 - off = 1 := by omega
        rw [this]
        simp only [List.drop_succ_cons, List.drop_zero]
        rw [ih (off + 1) rest (by simp at h ⊢; omega)]
      · simp only [ha]
        exact ih (off + 1) rest (by simp at h ⊢; omega)

theorem apos_positions (l : List Nat) :
    (finditer l.toArray checks_android_check_apostrophes_2).map (·.1) = indicesOf 39 0 l := by
  rw [finditer_eq_scanL _ _ minLen_apos gApos (fun p _ => apos_local _ p)]
  exact scan_apos _ _ _ (by simp)

theorem indicesOf_ne_nil (c : Nat) : ∀ off l, indicesOf c off l ≠ [] ↔ c ∈ l := by
  intro off l
  induction l generalizing off with
  | nil => simp [indicesOf]
  | cons x rest ih =>
    simp only [indicesOf]
    by_cases hx : (x == c) = true
    · simp [hx]; left; exact (by simpa using hx : x = c).symm
    · simp only [hx]
      simp at hx
      rw [List.mem_cons]
      constructor
      · intro h; exact Or.inr ((ih _).mp h)
      · rintro (h | h)
        · exact absurd h.symm hx
        · exact (ih _).mpr h

theorem dq_exists (l : List Nat) :
    finditer l.toArray checks_android_check_apostrophes_0 ≠ [] ↔ DoubledQuote l := by
  rw [finditer_ne_nil_iff _ _ minLen_dq]
  simp only [dq_local, DoubledQuote]
  constructor
  · rintro ⟨q, _, hq⟩
    refine ⟨q, ?_⟩
    have h0 : l[q]? = (l.drop q)[0]? := by simp [List.getElem?_drop]
    have h1 : l[q + 1]? = (l.drop q)[1]? := by simp [List.getElem?_drop]
    rw [h0, h1]
    generalize l.drop q = t at hq
    rcases t with _ | ⟨a, _ | ⟨b, rest⟩⟩ <;> simp [gDq] at hq ⊢
    exact hq
  · rintro ⟨i, h0, h1⟩
    have hi : i < l.length := by
      rcases Nat.lt_or_ge i l.length with h | h
      · exact h
      · rw [List.getElem?_eq_none h] at h0; cases h0
    refine ⟨i, by simp; omega, ?_⟩
    have e0 : l[i]? = (l.drop i)[0]? := by simp [List.getElem?_drop]
    have e1 : l[i + 1]? = (l.drop i)[1]? := by simp [List.getElem?_drop]
    rw [e0] at h0; rw [e1] at h1
    generalize l.drop i = t at h0 h1
    rcases t with _ | ⟨a, _ | ⟨b, rest⟩⟩ <;> simp [gDq] at h0 h1 ⊢
    simp [h0, h1]
theorem extract_toList (l : List Nat) (a b : Nat) :
    (l.toArray.extract a b).toList = (l.drop a).take (b - a) := by
  simp [List.extract_eq_take_drop]

theorem split_mid (l : List Nat) (last off : Nat) (h : last ≤ off) :
    l.drop last = (l.drop last).take (off - last) ++ l.drop off := by
  have : l.drop off = (l.drop last).drop (off - last) := by
    rw [List.drop_drop]; congr 1; omega
  rw [this, List.take_append_drop]

theorem drop_cons_next {l : List Nat} {off a : Nat} {t : List Nat} (h : l.drop off = a :: t) :
    l.drop (off + 1) = t := by
  have : l.drop (off + 1) = (l.drop off).drop 1 := by rw [List.drop_drop]
  rw [this, h]; rfl

theorem sub_blankPairs (cond : Nat → Nat → Bool) (l : List Nat) (f : Nat → St → List Nat)
    (hf : ∀ q st, f q st = [32, 32]) :
    ∀ fuel off last, last ≤ off → (l.drop off).length < fuel →
      subWith.go l.toArray f (scanL (gPair cond) fuel off (l.drop off)) last
        = (l.drop last).take (off - last) ++ blankPairs cond (l.drop off) := by
  intro fuel
  induction fuel with
  | zero => intro off last _ h; omega
  | succ fu ih =>
    intro off last hle h
    have hsz : l.toArray.size = l.length := by simp
    rcases hd : l.drop off with _ | ⟨a, _ | ⟨b, rest⟩⟩
    · have hoff : l.length ≤ off := by
        have := congrArg List.length hd; simp at this; omega
      simp only [scanL, subWith.go, blankPairs, List.append_nil, extract_toList, hsz]
      rw [List.take_of_length_le (by simp <;> omega), List.take_of_length_le (by simp <;> omega)]
    · have h1 := drop_cons_next hd
      have hoff : off + 1 = l.length := by
        have := congrArg List.length hd; simp at this; omega
      cases fu with
      | zero => simp [hd] at h
      | succ fu2 =>
        simp only [scanL, gPair, subWith.go, blankPairs, extract_toList, hsz]
        rw [List.take_of_length_le (by simp <;> omega)]
        conv => lhs; rw [split_mid l last off hle, hd]
    · have h1 := drop_cons_next hd
      have h2 := drop_cons_next h1
      simp only [scanL, gPair, blankPairs]
      by_cases hm : cond a b = true
      · simp only [hm, if_true, subWith.go, hf, extract_toList]
        have e : off + 2 - off = 2 := by omega
        rw [e]
        simp only [List.drop_succ_cons, List.drop_zero]
        have := ih (off + 2) (off + 2) (Nat.le_refl _) (by rw [h2]; simp [hd] at h; omega)
        rw [h2] at this
        rw [this]
        simp
      · simp only [hm]
        have := ih (off + 1) last (by omega) (by rw [h1]; simp [hd] at h; simp; omega)
        rw [h1] at this
        simp only [Bool.false_eq_true, if_false]
        rw [this]
        have e : off + 1 - last = (off - last) + 1 := by omega
        have ha : (l.drop last)[off - last]? = some a := by
          rw [List.getElem?_drop]
          have : last + (off - last) = off := by omega
          rw [this]
          have : (l.drop off)[0]? = some a := by rw [hd]; rfl
          simpa [List.getElem?_drop] using this
        rw [e, List.take_add_one, ha]
        simp
theorem drop_cons_next' {l : List Nat} {off a : Nat} {t : List Nat} (h : l.drop off = a :: t) :
    l.drop (off + 1) = t := by
  have : l.drop (off + 1) = (l.drop off).drop 1 := by rw [List.drop_drop]
  rw [this, h]; rfl

theorem slice_toArray (l : List Nat) (a b : Nat) :
    slice l.toArray a b = (l.drop a).take (b - a) := by
  simp [slice, List.extract_eq_take_drop]

theorem fmtLen_pos {l : List Nat} {n : Nat} (h : fmtLen l = some n) : 1 ≤ n := by
  cases l with
  | nil => simp [fmtLen] at h
  | cons c rest =>
    simp only [fmtLen] at h
    split at h
    · split at h
      · simp at h; omega
      · cases h
    · split at h
      · simp at h; omega
      · cases h

theorem lex_scan (l : List Nat) :
    ∀ fuel off, (l.drop off).length < fuel →
      (scanL gPar fuel off (l.drop off)).mapM (tokOf l.toArray) = some (lexL fuel off (l.drop off)) := by
  intro fuel
  induction fuel with
  | zero => intro off h; omega
  | succ fu ih =>
    intro off h
    rcases hd : l.drop off with _ | ⟨c, rest⟩
    · simp [scanL, lexL]
    · have h1 := drop_cons_next' hd
      simp only [scanL, lexL]
      by_cases hc : c = 37
      · subst hc
        have hlen : rest.length < fu := by simp [hd] at h; omega
        have key : (∃ d rest2, rest = d :: 36 :: rest2 ∧ isD19 d = true ∧
              gPar off (37 :: rest) = fmtAt (off + 3) [(1, off + 1, off + 3)] rest2 ∧
              parHead (37 :: rest) = (fmtLen rest2).map (fun n => (some (d - 48), rest2.take n, n + 3))) ∨
            (gPar off (37 :: rest) = fmtAt (off + 1) [] rest ∧
              parHead (37 :: rest) = (fmtLen rest).map (fun n => (none, rest.take n, n + 1))) := by
          rcases rest with _ | ⟨d, _ | ⟨e, rest2⟩⟩
          · right; simp [gPar, parHead]
          · right; simp [gPar, parHead]
          · by_cases hde : (isD19 d && e == 36) = true
            · left
              have he : e = 36 := by simp at hde; exact hde.2
              have hd' : isD19 d = true := by simp at hde; exact hde.1
              subst he
              exact ⟨d, rest2, rfl, hd', by simp [gPar, hd'], by simp [parHead, hd']⟩
            · right; simp [gPar, parHead, hde]
        rcases key with ⟨d, rest2, hr, hd19, hg, hp⟩ | ⟨hg, hp⟩
        · rw [hg, hp]
          subst hr
          have h2 := drop_cons_next' h1
          have h3 := drop_cons_next' h2
          cases hf : fmtLen rest2 with
          | none =>
            simp only [fmtAt, hf, Option.map_none]
            have := ih (off + 1) (by rw [h1]; simpa using hlen)
            rw [h1] at this
            exact this
          | some n =>
            simp only [fmtAt, hf, Option.map_some, List.mapM_cons]
            have hn := fmtLen_pos hf
            have e1 : off + 3 + n - off = n + 3 := by omega
            have e2 : off + (n + 3) = off + 3 + n := by omega
            rw [e1, e2]
            have hdn : l.drop (off + 3 + n) = (37 :: d :: 36 :: rest2).drop (n + 3) := by
              have : l.drop (off + 3 + n) = (l.drop (off + 3)).drop n := by rw [List.drop_drop]
              rw [this, h3]; simp [List.drop_succ_cons]
            have := ih (off + 3 + n) (by rw [hdn]; simp at hlen ⊢; omega)
            rw [hdn] at this
            rw [this]
            have ht : tokOf l.toArray (off, ⟨off + 3 + n, [(2, off + 3, off + 3 + n), (1, off + 1, off + 3)]⟩)
                = some ⟨off, some (d - 48), rest2.take n⟩ := by
              simp only [tokOf, St.group, capOf, checks_android_get_params_0_g_format,
                checks_android_get_params_0_g_order, slice_toArray]
              have h3' : l.drop (off + 3) = rest2 := h3
              have e3 : off + 3 + n - (off + 3) = n := by omega
              have e4 : off + 3 - (off + 1) = 2 := by omega
              simp [isD19] at hd19
              simp [h3', h1, e3, e4, intDigit?, hd19]
              omega
            rw [ht]; rfl
        · rw [hg, hp]
          cases hf : fmtLen rest with
          | none =>
            simp only [fmtAt, hf, Option.map_none]
            have := ih (off + 1) (by rw [h1]; exact hlen)
            rw [h1] at this
            exact this
          | some n =>
            simp only [fmtAt, hf, Option.map_some, List.mapM_cons]
            have hn := fmtLen_pos hf
            have e1 : off + 1 + n - off = n + 1 := by omega
            have e2 : off + (n + 1) = off + 1 + n := by omega
            rw [e1, e2]
            have hdn : l.drop (off + 1 + n) = (37 :: rest).drop (n + 1) := by
              have : l.drop (off + 1 + n) = (l.drop (off + 1)).drop n := by rw [List.drop_drop]
              rw [this, h1]; simp [List.drop_succ_cons]
            have := ih (off + 1 + n) (by rw [hdn]; simp at hlen ⊢; omega)
            rw [hdn] at this
            rw [this]
            have ht : tokOf l.toArray (off, ⟨off + 1 + n, [(2, off + 1, off + 1 + n)]⟩)
                = some ⟨off, none, rest.take n⟩ := by
              simp only [tokOf, St.group, capOf, checks_android_get_params_0_g_format,
                checks_android_get_params_0_g_order, slice_toArray]
              have e3 : off + 1 + n - (off + 1) = n := by omega
              simp [h1, e3]
            rw [ht]; rfl
      · have hg : gPar off (c :: rest) = none := by simp [gPar, hc]
        have hp : parHead (c :: rest) = none := by simp [parHead, hc]
        rw [hg, hp]
        have := ih (off + 1) (by rw [h1]; simp [hd] at h; omega)
        rw [h1] at this
        exact this

/-- `get_params`' regex scan = the reference lexer; in particular it never leaves the modelled behaviour -/
theorem lexParams_eq (l : List Nat) : lexParams l = some (lex l) := by
  unfold lexParams lex
  rw [finditer_eq_scanL _ _ minLen_par gPar (fun p _ => par_local _ p)]
  have := lex_scan l (l.length + 1) 0 (by simp)
  simpa using this

/-- `silencer.sub("  ", string)` = the reference `silence` -/
theorem silenced_eq (l : List Nat) :
    subWith l.toArray checks_android_silencer (fun _ _ => Gen.Tables.android_silence_repl) = silence l := by
  unfold subWith
  rw [finditer_eq_scanL _ _ minLen_sil (gPair silCond) (fun p _ => sil_local _ p)]
  have := sub_blankPairs silCond l (fun _ _ => Gen.Tables.android_silence_repl) (fun _ _ => rfl) (l.length + 1) 0 0
    (Nat.le_refl _) (by simp)
  simpa [silence] using this

/-- `re.sub(r"\\.", "  ", string)` = the reference `blankEsc` -/
theorem blanked_eq (l : List Nat) :
    subWith l.toArray checks_android_check_apostrophes_1 (fun _ _ => Gen.Tables.android_escape_repl) = blankEsc l := by
  unfold subWith
  rw [finditer_eq_scanL _ _ minLen_esc (gPair escCond) (fun p _ => esc_local _ p)]
  have := sub_blankPairs escCond l (fun _ _ => Gen.Tables.android_escape_repl) (fun _ _ => rfl) (l.length + 1) 0 0
    (Nat.le_refl _) (by simp)
  simpa [blankEsc] using this

theorem quoted_iff (w : List Nat) :
    (Gen.Tables.android_quote_start.isPrefixOf w && Gen.Tables.android_quote_end.isSuffixOf w) = true
      ↔ Quoted w := by
  simp only [Gen.Tables.android_quote_start, Gen.Tables.android_quote_end, Quoted, Bool.and_eq_true]
  have h1 : ([34] : List Nat).isPrefixOf w = true ↔ w.head? = some 34 := by
    cases w with
    | nil => simp [List.isPrefixOf]
    | cons a t => simp [List.isPrefixOf]; exact eq_comm
  have h2 : ([34] : List Nat).isSuffixOf w = true ↔ w.getLast? = some 34 := by
    simp only [List.isSuffixOf, List.reverse_cons, List.reverse_nil, List.nil_append]
    rw [← List.head?_reverse]
    cases w.reverse with
    | nil => simp [List.isPrefixOf]
    | cons a t => simp [List.isPrefixOf]; exact eq_comm
  rw [h1, h2]

/-- `check_apostrophes` on the list level -/
theorem checkApostrophes_eq (v : List Nat) [Decidable (Quoted (silence v))] :
    checkApostrophes v =
      (dqPositions 0 (blankEsc v)).map (fun i => err i .doubleQuotes) ++
      (if Quoted (silence v) then [] else (indicesOf 39 0 (silence v)).map (fun i => err i .apostrophe)) := by
  unfold checkApostrophes
  simp only [silenced_eq, blanked_eq]
  congr 1
  · rw [← dq_positions, List.map_map]; rfl
  · by_cases hq : Quoted (silence v)
    · have := (quoted_iff (silence v)).mpr hq
      simp [hq, this]
    · have : (Gen.Tables.android_quote_start.isPrefixOf (silence v) &&
          Gen.Tables.android_quote_end.isSuffixOf (silence v)) = false := by
        cases h : (Gen.Tables.android_quote_start.isPrefixOf (silence v) &&
          Gen.Tables.android_quote_end.isSuffixOf (silence v))
        · rfl
        · exact absurd ((quoted_iff _).mp h) hq
      simp only [this, hq, if_false, Bool.not_false, if_true]
      rw [← apos_positions, List.map_map]; rfl

end Android

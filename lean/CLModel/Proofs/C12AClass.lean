/- `{android_locale}` in the matching class: class `InClassA` (repeated variables, `{android_locale}` with a bound locale),
   expand -> match including the `locale` entry that `match` derives from the Android form. -/
import CLModel.Proofs.C12BNest
namespace C12AC
open Rx PM C11R C12B

/-- the Android form of the bound locale (`AndroidLocale._get_android_locale(env)`), "" if there is none -/
def androidText (env : Env) : Text :=
  match getAndroidLocale (expandVal (fuelFor env)) env with
  | .ok (some a) => a
  | _ => []

def pieceOfA (vs : Nat → Text) (env : Env) : Node → Piece
  | .android false => .grp (androidText env)
  | .android true => .lit (androidText env)
  | n => pieceOfB vs env n

/-- the path obtained by filling the wildcards, expanding the variables and `{android_locale}` -/
def fillA (vs : Nat → Text) (env : Env) (ns : List Node) : Text := piecesText (ns.map (pieceOfA vs env))

def WellSepA (vs : Nat → Text) (env : Env) (ns : List Node) : Prop := PSep (ns.map (pieceOfA vs env))

/-- **the class with repeated variables and `{android_locale}`** (bound locale).  `Kn` = the groups captured so far:
    index and text -/
def InClassA (env : Env) : List (Nat × Text) → List Node → Prop
  | _, [] => True
  | Kn, .lit _ :: r => InClassA env Kn r
  | Kn, .star _ :: r => InClassA env Kn r
  | Kn, .starstar _ sfx :: r => (sfx = [47] ∨ sfx = []) ∧ InClassA env Kn r
  | Kn, .var name false :: r =>
    (∃ t, expandNode (expandVal (fuelFor env)) (.var name false) env true = .ok t) ∧
      InClassA env ((encName name, varText env (.var name false)) :: Kn) r
  | Kn, .var name true :: r => (encName name, varText env (.var name true)) ∈ Kn ∧ InClassA env Kn r
  | Kn, .android false :: r =>
    (∃ a, getAndroidLocale (expandVal (fuelFor env)) env = .ok (some a)) ∧
      InClassA env ((encName androidName, androidText env) :: Kn) r
  | Kn, .android true :: r => (encName androidName, androidText env) ∈ Kn ∧ InClassA env Kn r

def nameOfA : Node → List Text
  | .android false => [androidName]
  | .android true => []
  | n => nameOfB n

def valOfA (vs : Nat → Text) (env : Env) : Node → Option Text
  | .android _ => some (androidText env)
  | n => valOf vs env n

def ResA (vs : Nat → Text) (env : Env) (Kn : List (Nat × Text)) (ns : List Node) (citems : List Re) (names : List Text) : Prop :=
  ∃ ts : List BTok, citems = itemsB ts ∧ (ts.map BTok.plain).map Tok.piece = ns.map (pieceOfA vs env) ∧
      GlOK (ts.map BTok.plain) ∧ BrefOK Kn ts ∧
      ∀ n ∈ ns, ∀ nm ∈ nameOfA n, nm ∈ names ∧ ∃ tok ∈ ts.map BTok.plain, encName nm ∈ tok.idx ∧ tok.val = valOfA vs env n

theorem glOK_glit (i : Nat) (t : Text) : GlOK [Tok.glit i t] := by
  intro tok ht i' b' t' F' he
  simp only [List.mem_singleton] at ht; subst ht
  simp only [Tok.glit, Tok.gl.injEq] at he
  obtain ⟨rfl, rfl, rfl, rfl⟩ := he
  exact ⟨glRun_lits t, glIdx_lits t⟩

theorem class_toksA {vs : Nat → Text} {env : Env} (henv : EnvOK env) : ∀ {ns : List Node} {citems : List Re}
    {names : List Text} {Kn : List (Nat × Text)}, InClassA env Kn ns →
    rxChildren (rxVal (fuelFor env)) ns env = .ok (citems, names) →
    ResA vs env Kn ns citems names
  | [], citems, names, Kn, _, hr => by
    simp only [rxChildren, pure, Except.pure, Except.ok.injEq, Prod.mk.injEq] at hr
    obtain ⟨rfl, rfl⟩ := hr
    unfold ResA
    refine ⟨[], rfl, rfl, ?_, trivial, ?_⟩
    · intro tok h; cases h
    · intro n h; cases h
  | c :: cs, citems, names, Kn, hcls, hr => by
    obtain ⟨a, na, b, nb, h1, h2, rfl, rfl⟩ := rxChildren_cons hr
    have glue : ∀ (bt : BTok) (Kn' : List (Nat × Text)), InClassA env Kn' cs →
        a = bt.items → bt.plain.piece = pieceOfA vs env c → GlOK [bt.plain] →
        (∀ r : List BTok, BrefOK Kn' r → BrefOK Kn (bt :: r)) →
        (∀ nm ∈ nameOfA c, nm ∈ na ∧ encName nm ∈ bt.plain.idx ∧ bt.plain.val = valOfA vs env c) →
        ResA vs env Kn (c :: cs) (a ++ b) (na ++ nb) := by
      intro bt Kn' hc' ha hp hg hbr hnc
      obtain ⟨ts, hb, hps, hgs, hbrs, hns⟩ := class_toksA (vs := vs) henv hc' h2
      unfold ResA
      refine ⟨bt :: ts, by rw [itemsB_cons, ha, hb], by simp [hp, hps], ?_, hbr ts hbrs, ?_⟩
      · intro tok' ht
        simp only [List.map_cons, List.mem_cons] at ht
        rcases ht with rfl | ht
        · exact hg _ (by simp)
        · exact hgs _ ht
      · intro n hn nm hnm
        rcases List.mem_cons.mp hn with rfl | hn
        · obtain ⟨x1, x2, x3⟩ := hnc nm hnm
          exact ⟨List.mem_append.mpr (Or.inl x1), bt.plain, by simp, x2, x3⟩
        · obtain ⟨x1, tok', x2, x3, x4⟩ := hns n hn nm hnm
          exact ⟨List.mem_append.mpr (Or.inr x1), tok', by simp [x2], x3, x4⟩
    have simple : ∀ (hc : InClassN env c) (hrest : InClassA env Kn cs) (hpb : pieceOfA vs env c = pieceOf vs env c)
        (hnb : nameOfA c = nameOfN c) (hvb : valOfA vs env c = valOf vs env c) (hng : ∀ t, pieceOf vs env c ≠ .grp t),
        ResA vs env Kn (c :: cs) (a ++ b) (na ++ nb) := by
      intro hc hrest hpb hnb hvb hng
      obtain ⟨tok, ha, hp, hg, hnc⟩ := class_tok (vs := vs) henv hc h1
      have hnongl := piece_nongrp (tok := tok) (by rw [hp]; exact hng)
      exact glue (.base tok) Kn hrest ha (by simpa [BTok.plain, hpb] using hp) hg
        (fun r hbr => (brefOK_base_nongl hnongl).mpr hbr) (by rw [hnb, hvb]; exact hnc)
    cases c with
    | lit t => exact simple trivial hcls rfl rfl rfl (by intro t' h; cases h)
    | star k => exact simple trivial hcls rfl rfl rfl (by intro t' h; cases h)
    | starstar k sfx =>
      exact simple hcls.1 hcls.2 rfl rfl rfl (by intro t' h; simp only [pieceOf] at h; split at h <;> cases h)
    | var name rep =>
      cases rep with
      | false =>
        obtain ⟨⟨t, ht⟩, hrest⟩ := hcls
        obtain ⟨tok, ha, hp, hg, hnc⟩ := class_tok (vs := vs) henv (n := .var name false) ⟨rfl, t, ht⟩ h1
        obtain ⟨i, body, F, rfl⟩ := piece_grp_gl (t := varText env (.var name false)) (by rw [hp]; rfl)
        obtain ⟨_, hidx, _⟩ := hnc name (by simp [nameOfN])
        have hi : i = encName name := by
          simp only [Tok.idx, List.mem_singleton] at hidx; exact hidx.symm
        subst hi
        exact glue (.base (.gl (encName name) body _ F)) ((encName name, varText env (.var name false)) :: Kn)
          hrest ha hp hg (fun r hbr => hbr) hnc
      | true =>
        obtain ⟨hmem, hrest⟩ := hcls
        simp only [rxNode, if_true, pure, Except.pure, Except.ok.injEq, Prod.mk.injEq] at h1
        obtain ⟨rfl, rfl⟩ := h1
        refine glue (.bref (encName name) (varText env (.var name true))) Kn hrest rfl rfl ?_
          (fun r hbr => ⟨hmem, hbr⟩) (by intro nm h; simp [nameOfA, nameOfB] at h)
        intro tok' ht i' body' t' F' he
        simp only [List.mem_singleton] at ht; subst ht
        simp [BTok.plain] at he
    | android rep =>
      cases rep with
      | false =>
        obtain ⟨⟨al, hal⟩, hrest⟩ := hcls
        have hat : androidText env = al := by simp [androidText, hal]
        simp only [rxNode, Bool.false_eq_true, if_false, hal, bind, Except.bind, pure, Except.pure, Except.ok.injEq,
          Prod.mk.injEq] at h1
        obtain ⟨rfl, rfl⟩ := h1
        refine glue (.base (Tok.glit (encName androidName) al)) ((encName androidName, androidText env) :: Kn)
          hrest rfl (by simp [BTok.plain, Tok.glit, Tok.piece, pieceOfA, hat]) (glOK_glit _ _)
          (fun r hbr => by rw [hat] at hbr; exact hbr) ?_
        intro nm h
        simp only [nameOfA, List.mem_singleton] at h; subst h
        exact ⟨by simp, by simp [BTok.plain, Tok.glit, Tok.idx], by simp [BTok.plain, Tok.glit, Tok.val, valOfA, hat]⟩
      | true =>
        obtain ⟨hmem, hrest⟩ := hcls
        simp only [rxNode, if_true, pure, Except.pure, Except.ok.injEq, Prod.mk.injEq] at h1
        obtain ⟨rfl, rfl⟩ := h1
        refine glue (.bref (encName androidName) (androidText env)) Kn hrest rfl rfl ?_
          (fun r hbr => ⟨hmem, hbr⟩) (by intro nm h; simp [nameOfA] at h)
        intro tok' ht i' body' t' F' he
        simp only [List.mem_singleton] at ht; subst ht
        simp [BTok.plain] at he

/-- the engine's result on the filled path: it ends at the end of the path and every defining node's group holds its value -/
theorem run_fillA {m : Matcher} {vs : Nat → Text} {re : Re} {names : List Text} {rt : Text}
    (henv : EnvOK m.env) (hcls : InClassA m.env [] m.pattern.nodes)
    (hre : m.regexOf = .ok (re, names))
    (hroot : rootOf (expandVal (fuelFor m.env)) m.pattern m.env = .ok rt)
    (hsep : WellSepA vs m.env m.pattern.nodes) :
    ∃ st, matchAt (rt ++ fillA vs m.env m.pattern.nodes).toArray re 0 = some st ∧
      ∀ n ∈ m.pattern.nodes, ∀ nm ∈ nameOfA n, nm ∈ names ∧
        groupText (rt ++ fillA vs m.env m.pattern.nodes).toArray st (encName nm) = valOfA vs m.env n := by
  obtain ⟨items, hrx, hreq, hwf⟩ := regexOf_inv hre
  obtain ⟨root, citems, hroot', hch, hitems⟩ := rxPat_inv hrx
  rw [hroot] at hroot'
  simp only [Except.ok.injEq] at hroot'
  subst hroot'
  obtain ⟨ts, rfl, hps, hgl, hbr, hnm⟩ := class_toksA (vs := vs) (Kn := []) henv hcls hch
  have hsep' : Sep (ts.map BTok.plain) := sep_of_psep _ (by rw [hps]; exact hsep) hgl
  have htxt : fillA vs m.env m.pattern.nodes = toksText (ts.map BTok.plain) := by
    unfold fillA; rw [← hps, toksText_pieces]
  have hcount : ∀ i, (toksAll (ts.map BTok.plain)).count i ≤ 1 := by
    intro i
    have := wfRe_unique hwf i
    rw [hreq, gidx_seqOf, hitems] at this
    simp only [List.flatMap_append, List.count_append, itemsB_gidx] at this
    omega
  rw [htxt]
  have hrun : matchAt (rt ++ toksText (ts.map BTok.plain)).toArray re 0 =
      some ⟨(rt ++ toksText (ts.map BTok.plain)).toArray.size, capsAfter rt.length (ts.map BTok.plain) []⟩ := by
    unfold matchAt
    have hanchor : Gen.Pat.matcher_frag_anchor = Re.eos := rfl
    rw [hreq, hitems, List.append_assoc, hanchor,
      m_lits_ok (rt ++ toksText (ts.map BTok.plain)).toArray rt _ ⟨0, []⟩ some (textAt_toArray_zero _ _)]
    rw [sim _ ts [] _ [Re.eos] some hsep' (by intro e he; cases he) hbr (by simp) (by intro e he; cases he) hcount]
    have := run_toks (rt ++ toksText (ts.map BTok.plain)).toArray (ts.map BTok.plain) ⟨0 + rt.length, []⟩ hsep'
      (by simp only [Nat.zero_add]; exact textAt_toArray_right rt _)
      (by simp)
    simpa using this
  refine ⟨_, hrun, ?_⟩
  intro n hn nm hnmem
  obtain ⟨h1, tok, htok, hidx, hval⟩ := hnm n hn nm hnmem
  refine ⟨h1, ?_⟩
  rw [← hval]
  exact groupText_capsAfter _ _ (ts.map BTok.plain) rt.length [] hsep'
    (textAt_toArray_right rt _) hcount (fun i _ => by simp [capOf]) tok htok _ hidx

/-- **expand -> match with `{android_locale}`** (bound locale, no `{locale}` group of its own in the pattern): the filled
    path is matched; the dictionary has the regex's groups (with their values: wildcards as filled, variables expanded,
    `android_locale` = the Android form of the bound locale) followed by `locale` = that form converted back -/
theorem match_fillA {m : Matcher} {vs : Nat → Text} {re : Re} {names : List Text} {rt l : Text}
    (henv : EnvOK m.env) (hcls : InClassA m.env [] m.pattern.nodes)
    (hre : m.regexOf = .ok (re, names))
    (hroot : rootOf (expandVal (fuelFor m.env)) m.pattern m.env = .ok rt)
    (hsep : WellSepA vs m.env m.pattern.nodes)
    (hand : Node.android false ∈ m.pattern.nodes) (hloc : localeName ∉ names)
    (hstd : toStandard (androidText m.env) = .ok l) :
    ∃ g : Text → Option Text,
      m.match (rt ++ fillA vs m.env m.pattern.nodes) =
        .ok (some (names.map (fun nm => (nm, g nm)) ++ [(localeName, some l)])) ∧
      g androidName = some (androidText m.env) ∧
      ∀ n ∈ m.pattern.nodes, ∀ nm ∈ nameOfA n, nm ∈ names ∧ g nm = valOfA vs m.env n := by
  obtain ⟨st, hst, hg⟩ := run_fillA henv hcls hre hroot hsep
  obtain ⟨hamem, haval⟩ := hg _ hand androidName (by simp [nameOfA])
  refine ⟨fun nm => groupText (rt ++ fillA vs m.env m.pattern.nodes).toArray st (encName nm), ?_, haval, hg⟩
  have hany1 : (groupDict (rt ++ fillA vs m.env m.pattern.nodes).toArray st names).any (fun x => x.1 == androidName) = true := by
    apply List.any_eq_true.mpr
    exact ⟨(androidName, _), List.mem_map.mpr ⟨androidName, hamem, rfl⟩, by simp⟩
  have hany2 : (groupDict (rt ++ fillA vs m.env m.pattern.nodes).toArray st names).any (fun x => x.1 == localeName) = false := by
    apply Bool.eq_false_iff.mpr
    intro hc
    obtain ⟨x, hx, hxe⟩ := List.any_eq_true.mp hc
    unfold groupDict at hx
    obtain ⟨nm, hnm, rfl⟩ := List.mem_map.mp hx
    have : nm = localeName := by simpa using hxe
    exact hloc (this ▸ hnm)
  have hlk : (groupDict (rt ++ fillA vs m.env m.pattern.nodes).toArray st names).lookup androidName =
      some (some (androidText m.env)) := by
    unfold groupDict
    rw [lookup_map_mem _ androidName names hamem, haval]
    rfl
  simp only [Matcher.match, hre, bind, Except.bind, hst, hany1, hany2, Bool.not_false, Bool.and_self, if_true, hlk, hstd,
    pure, Except.pure]
  rfl

theorem lookup_map_none {β} (f : Text → β) (k : Text) : ∀ (names : List Text), k ∉ names →
    (names.map (fun nm => (nm, f nm))).lookup k = none
  | [], _ => rfl
  | x :: xs, h => by
    have hx : (k == x) = false := by
      simp only [beq_eq_false_iff_ne, ne_eq]; intro e; exact h (by simp [e])
    simp only [List.map_cons, List.lookup_cons, hx]
    exact lookup_map_none f k xs (fun h' => h (List.mem_cons_of_mem _ h'))

theorem lookup_append_of_none {β} (k : Text) : ∀ (l r : List (Text × β)), l.lookup k = none → (l ++ r).lookup k = r.lookup k
  | [], _, _ => rfl
  | (a, b) :: l, r, h => by
    simp only [List.cons_append, List.lookup_cons] at h ⊢
    cases hk : (k == a) with
    | true => simp [hk] at h
    | false =>
      simp only [hk] at h ⊢
      exact lookup_append_of_none k l r h

theorem getAndroid_ok_of {env : Env} {a : Text}
    (h : (match getAndroidLocale (expandVal (fuelFor env)) env with
      | .ok (some x) => x == a
      | _ => false) = true) : getAndroidLocale (expandVal (fuelFor env)) env = .ok (some a) := by
  split at h
  · rename_i x hx
    have : x = a := by simpa using h
    rw [hx, this]
  · cases h

/-- `re.compile` accepts the pattern and no group is called `locale` -/
theorem regexOf_noLocale_of {m : Matcher}
    (h : (match m.regexOf with | .ok x => !x.2.contains localeName | .error _ => false) = true) :
    ∃ re names, m.regexOf = .ok (re, names) ∧ localeName ∉ names := by
  split at h
  · rename_i x hx
    refine ⟨x.1, x.2, hx, ?_⟩
    intro hc
    have : x.2.contains localeName = true := by simpa using hc
    rw [this] at h
    cases h
  · cases h
end C12AC

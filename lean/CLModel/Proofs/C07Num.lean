/- Regex-free characterisation of DTDChecker.num / DTDChecker.length (helper lemmas for C07). -/
import CLModel.Checks.Dtd
import CLModel.Proofs.RxStar
namespace Dtd
open Rx

def isDig (c : Nat) : Bool := 48 ≤ c && c ≤ 57

/-- number of digits at the start of a text -/
def digitsLen (l : Text) : Nat := (l.takeWhile isDig).length

def D : List ClsItem := [.range 48 57]

theorem inC_D (c : Nat) : inC false D c = isDig c := by
  simp [inC, D, ClsItem.has, isDig]

theorem run_eq_digitsLen (v : Text) : ∀ fuel pos, v.length - pos < fuel →
    Rx.run v.toArray false D fuel pos = digitsLen (v.drop pos) := by
  intro fuel
  induction fuel with
  | zero => intro pos h; omega
  | succ f ih =>
    intro pos h
    simp only [Rx.run]
    by_cases hp : pos < v.length
    · have hget : v.toArray[pos]? = some v[pos] := by simp [hp]
      rw [hget]
      simp only [inC_D]
      have hdrop : v.drop pos = v[pos] :: v.drop (pos + 1) := List.drop_eq_getElem_cons hp
      rw [hdrop]
      simp only [digitsLen, List.takeWhile_cons]
      by_cases hd : isDig v[pos] = true
      · simp only [hd, if_true, List.length_cons]
        rw [ih (pos + 1) (by omega)]
        simp [digitsLen]; omega
      · simp [hd]
    · have hget : v.toArray[pos]? = none := by simp; omega
      rw [hget]
      have : v.drop pos = [] := List.drop_eq_nil_iff.mpr (by omega)
      simp [this, digitsLen]

/-- `$` without MULTILINE at position j: end of text, or before a final newline -/
def atEnd (v : Text) (j : Nat) : Bool := j == v.length || (j + 1 == v.length && v[j]? == some 10)

theorem m_eol (v : Text) (st : St) (k : K) :
    m v.toArray (.eol false) st k = if atEnd v st.pos then k st else none := by
  simp [m, atEnd]

theorem firstSome_isSome (k : Nat → Option St) (l : List Nat) :
    (firstSome k l).isSome = l.any (fun j => (k j).isSome) := by
  induction l with
  | nil => rfl
  | cons a as ih =>
    simp only [firstSome, List.any_cons]
    cases h : k a with
    | none => simpa using ih
    | some x => simp

theorem mem_downFrom (pos n j : Nat) : j ∈ downFrom pos n ↔ pos ≤ j ∧ j ≤ pos + n := by
  induction n with
  | zero => simp [downFrom]; omega
  | succ n ih => simp only [downFrom, List.mem_cons, ih]; omega

theorem takeWhile_get (p : Nat → Bool) : ∀ (l : List Nat) (i : Nat), i < (l.takeWhile p).length →
    ∃ c, l[i]? = some c ∧ p c = true := by
  intro l
  induction l with
  | nil => intro i h; simp at h
  | cons a as ih =>
    intro i h
    simp only [List.takeWhile_cons] at h
    by_cases hp : p a = true
    · simp only [hp, if_true, List.length_cons] at h
      cases i with
      | zero => exact ⟨a, by simp, hp⟩
      | succ i =>
        obtain ⟨c, hc, hpc⟩ := ih i (by omega)
        exact ⟨c, by simpa using hc, hpc⟩
    · simp [hp] at h

/-- the characters inside a digit run are digits -/
theorem digit_in_run (v : Text) (pos j : Nat) (h1 : pos ≤ j) (h2 : j < pos + digitsLen (v.drop pos)) :
    ∃ c, v[j]? = some c ∧ isDig c = true := by
  obtain ⟨c, hc, hd⟩ := takeWhile_get isDig (v.drop pos) (j - pos) (by unfold digitsLen at h2; omega)
  rw [List.getElem?_drop, show pos + (j - pos) = j by omega] at hc
  exact ⟨c, hc, hd⟩

/-- the character right after a digit run is no digit -/
theorem after_run (v : Text) (pos : Nat) : ∀ c, v[pos + digitsLen (v.drop pos)]? = some c → isDig c = false := by
  intro c hc
  have key : ∀ (l : List Nat) (c : Nat), l[(l.takeWhile isDig).length]? = some c → isDig c = false := by
    intro l
    induction l with
    | nil => intro c h; simp at h
    | cons a as ih =>
      intro c h
      simp only [List.takeWhile_cons] at h
      by_cases hp : isDig a = true
      · simp only [hp, if_true, List.length_cons, List.getElem?_cons_succ] at h
        exact ih c h
      · simp only [hp] at h
        simp at h
        subst h
        simpa using hp
  apply key (v.drop pos) c
  rw [List.getElem?_drop]
  exact hc

theorem digitsLen_le (v : Text) (pos : Nat) : pos + digitsLen (v.drop pos) ≤ max pos v.length := by
  have : digitsLen (v.drop pos) ≤ (v.drop pos).length := (List.takeWhile_sublist isDig).length_le
  simp only [List.length_drop] at this
  omega

/-- greedy `[0-9]*` followed by `k` : try the end of the digit run, then every shorter prefix -/
theorem star_D (v : Text) (pos : Nat) (hpos : pos ≤ v.length) (caps) (k : K) :
    m v.toArray (.rep 0 none true (.cls false D)) ⟨pos, caps⟩ k
      = firstSome (fun j => k ⟨j, caps⟩) (downFrom pos (digitsLen (v.drop pos))) := by
  rw [m]
  have hr := run_eq_digitsLen v (v.toArray.size + 2 - pos) pos (by simp; omega)
  have := star_greedy_cls v.toArray false D caps k (v.toArray.size + 2 - pos) pos (by
    rw [hr]
    have := digitsLen_le v pos
    simp; omega)
  rw [this, hr]

/-- greedy `[0-9]+` followed by `k` -/
theorem plus_D (v : Text) (pos : Nat) (hpos : pos ≤ v.length) (caps) (k : K) :
    m v.toArray (.rep 1 none true (.cls false D)) ⟨pos, caps⟩ k
      = if digitsLen (v.drop pos) ≥ 1 then
          firstSome (fun j => k ⟨j, caps⟩) (downFrom (pos + 1) (digitsLen (v.drop pos) - 1))
        else none := by
  rw [m]
  have hf : v.toArray.size + 2 - pos = (v.toArray.size + 1 - pos) + 1 := by simp; omega
  rw [hf, loop]
  simp only [show ((none : Option Nat) == some 0) = false from rfl, Bool.false_eq_true, if_false,
    show (1 : Nat) > 0 from Nat.one_pos, if_true, m_cls_apply, inC_D]
  by_cases hp : pos < v.length
  · have hget : v.toArray[pos]? = some v[pos] := by simp [hp]
    have hdrop : v.drop pos = v[pos] :: v.drop (pos + 1) := List.drop_eq_getElem_cons hp
    rw [hget]
    simp only
    by_cases hd : isDig v[pos] = true
    · have hlen : digitsLen (v.drop pos) = digitsLen (v.drop (pos + 1)) + 1 := by
        unfold digitsLen; rw [hdrop, List.takeWhile_cons, if_pos hd]; rfl
      simp only [hd, if_true, show ¬ (pos + 1 ≤ pos) by omega, if_false, Nat.sub_self, Option.map_none]
      have hr := run_eq_digitsLen v (v.toArray.size + 1 - pos) (pos + 1) (by simp; omega)
      have := star_greedy_cls v.toArray false D caps k (v.toArray.size + 1 - pos) (pos + 1) (by
        rw [hr]
        have := digitsLen_le v (pos + 1)
        simp; omega)
      rw [this, hr, hlen]
      simp
    · have hlen : digitsLen (v.drop pos) = 0 := by
        unfold digitsLen; rw [hdrop, List.takeWhile_cons, if_neg hd]; rfl
      simp [hd, hlen]
  · have hget : v.toArray[pos]? = none := by simp; omega
    have : v.drop pos = [] := List.drop_eq_nil_iff.mpr (by omega)
    simp [hget, this, digitsLen]

/-- continuations that succeed exactly at the end of the text (before an optional final newline) -/
def EndK (v : Text) (k : K) : Prop := ∀ j caps, (k ⟨j, caps⟩).isSome = atEnd v j

theorem atEnd_in_run (v : Text) (pos j : Nat) (h1 : pos ≤ j) (h2 : j < pos + digitsLen (v.drop pos)) :
    atEnd v j = false := by
  obtain ⟨c, hc, hd⟩ := digit_in_run v pos j h1 h2
  have hlt : j < v.length := by
    rcases Nat.lt_or_ge j v.length with h | h
    · exact h
    · rw [List.getElem?_eq_none h] at hc; cases hc
  have hne : c ≠ 10 := by rintro rfl; revert hd; decide
  simp [atEnd, hc, hne]; omega

/-- `[0-9]+` then the end: at least one digit and the run ends at the end of the text -/
theorem plus_D_end (v : Text) (pos : Nat) (hpos : pos ≤ v.length) (caps) (k : K) (hk : EndK v k) :
    (m v.toArray (.rep 1 none true (.cls false D)) ⟨pos, caps⟩ k).isSome
      = (decide (digitsLen (v.drop pos) ≥ 1) && atEnd v (pos + digitsLen (v.drop pos))) := by
  rw [plus_D v pos hpos]
  by_cases hb : digitsLen (v.drop pos) ≥ 1
  · simp only [hb, if_true, decide_true, Bool.true_and, firstSome_isSome]
    rw [Bool.eq_iff_iff]
    simp only [List.any_eq_true, mem_downFrom]
    constructor
    · rintro ⟨j, ⟨h1, h2⟩, hj⟩
      rw [hk] at hj
      by_cases hje : j = pos + digitsLen (v.drop pos)
      · rw [← hje]; exact hj
      · rw [atEnd_in_run v pos j (by omega) (by omega)] at hj; cases hj
    · intro h
      exact ⟨pos + digitsLen (v.drop pos), ⟨by omega, by omega⟩, by rw [hk]; exact h⟩
  · simp [hb]

theorem m_seq (s : Array Nat) (a b : Re) (st : St) (k : K) :
    m s (.seq a b) st k = m s a st (fun st' => m s b st' k) := by rw [m]

theorem m_alt (s : Array Nat) (a b : Re) (st : St) (k : K) :
    m s (.alt a b) st k = (m s a st k).orElse (fun _ => m s b st k) := by rw [m]

theorem m_group (s : Array Nat) (i : Nat) (r : Re) (st : St) (k : K) :
    m s (.group i r) st k = m s r st (fun st' => k { st' with caps := (i, st.pos, st'.pos) :: st'.caps }) := by rw [m]

theorem m_bol0 (s : Array Nat) (caps) (k : K) : m s (.bol false) ⟨0, caps⟩ k = k ⟨0, caps⟩ := by
  rw [m]; simp

theorem m_lit (s : Array Nat) (c : Nat) (st : St) (k : K) :
    m s (.lit c) st k = if s[st.pos]? == some c then k { st with pos := st.pos + 1 } else none := by rw [m]

theorem isSome_orElse {α} (a : Option α) (f : Unit → Option α) : (a.orElse f).isSome = (a.isSome || (f ()).isSome) := by
  cases a <;> simp

/-- a continuation whose success depends on the position only (`q`), and never succeeds on a digit -/
structure PosK (v : Text) (k : K) (q : Nat → Bool) : Prop where
  isSome : ∀ j caps, (k ⟨j, caps⟩).isSome = q j
  notDigit : ∀ j c, v[j]? = some c → isDig c = true → q j = false

/-- `[0-9]+` then `k`: at least one digit and `k` succeeds right after the whole run -/
theorem plus_D_q (v : Text) (pos : Nat) (hpos : pos ≤ v.length) (caps) (k : K) (q : Nat → Bool) (hk : PosK v k q) :
    (m v.toArray (.rep 1 none true (.cls false D)) ⟨pos, caps⟩ k).isSome
      = (decide (digitsLen (v.drop pos) ≥ 1) && q (pos + digitsLen (v.drop pos))) := by
  rw [plus_D v pos hpos]
  by_cases hb : digitsLen (v.drop pos) ≥ 1
  · simp only [hb, if_true, decide_true, Bool.true_and, firstSome_isSome]
    rw [Bool.eq_iff_iff]
    simp only [List.any_eq_true, mem_downFrom]
    constructor
    · rintro ⟨j, ⟨h1, h2⟩, hj⟩
      rw [hk.isSome] at hj
      by_cases hje : j = pos + digitsLen (v.drop pos)
      · rw [← hje]; exact hj
      · obtain ⟨c, hc, hd⟩ := digit_in_run v pos j (by omega) (by omega)
        rw [hk.notDigit j c hc hd] at hj; cases hj
    · intro h
      exact ⟨pos + digitsLen (v.drop pos), ⟨by omega, by omega⟩, by rw [hk.isSome]; exact h⟩
  · simp [hb]

/-- `[0-9]*\.[0-9]+` from the start, then `k` -/
theorem alt2_q (v : Text) (k : K) (q : Nat → Bool) (hk : PosK v k q) :
    (m v.toArray (.seq (.rep 0 none true (.cls false D)) (.seq (.lit 46) (.rep 1 none true (.cls false D)))) ⟨0, []⟩ k).isSome
      = (v[digitsLen v]? == some 46 && decide (digitsLen (v.drop (digitsLen v + 1)) ≥ 1) &&
          q (digitsLen v + 1 + digitsLen (v.drop (digitsLen v + 1)))) := by
  rw [m_seq, star_D v 0 (Nat.zero_le _), firstSome_isSome]
  simp only [List.drop_zero, m_seq, m_lit]
  rw [Bool.eq_iff_iff]
  simp only [List.any_eq_true, mem_downFrom, Bool.and_eq_true, beq_iff_eq, decide_eq_true_eq]
  constructor
  · rintro ⟨j, ⟨_, h2⟩, hj⟩
    by_cases hjv : v[j]? = some 46
    · have hje : j = digitsLen v := by
        rcases Nat.lt_or_ge j (digitsLen v) with h | h
        · obtain ⟨c, hc, hd⟩ := digit_in_run v 0 j (Nat.zero_le _) (by simpa using h)
          rw [hjv] at hc
          have : c = 46 := by cases hc; rfl
          subst this
          exact absurd hd (by decide)
        · omega
      subst hje
      have hlt : digitsLen v < v.length := by
        rcases Nat.lt_or_ge (digitsLen v) v.length with h | h
        · exact h
        · rw [List.getElem?_eq_none h] at hjv; cases hjv
      rw [if_pos (by simpa using hjv)] at hj
      rw [plus_D_q v (digitsLen v + 1) (by omega) [] k q hk] at hj
      simp only [Bool.and_eq_true, decide_eq_true_eq] at hj
      exact ⟨⟨hjv, hj.1⟩, hj.2⟩
    · rw [if_neg (by simpa using hjv)] at hj
      cases hj
  · rintro ⟨⟨h46, hb⟩, hend⟩
    have hlt : digitsLen v < v.length := by
      rcases Nat.lt_or_ge (digitsLen v) v.length with h | h
      · exact h
      · rw [List.getElem?_eq_none h] at h46; cases h46
    refine ⟨digitsLen v, ⟨Nat.zero_le _, by omega⟩, ?_⟩
    rw [if_pos (by simpa using h46)]
    rw [plus_D_q v (digitsLen v + 1) (by omega) [] k q hk]
    simp [hb, hend]

/-- a number at the start of `v` followed by something satisfying `q`: digits, or optional digits, a dot, digits -/
def numThen (v : Text) (q : Nat → Bool) : Bool :=
  (decide (digitsLen v ≥ 1) && q (digitsLen v)) ||
  (v[digitsLen v]? == some 46 && decide (digitsLen (v.drop (digitsLen v + 1)) ≥ 1) &&
    q (digitsLen v + 1 + digitsLen (v.drop (digitsLen v + 1))))

/-- the number group `([0-9]+|[0-9]*\.[0-9]+)` at the start of the text, then `k` -/
theorem numGroup_q (v : Text) (g : Nat) (k : K) (q : Nat → Bool)
    (hk : PosK v (fun st' => k { st' with caps := (g, 0, st'.pos) :: st'.caps }) q) :
    (m v.toArray (.group g (.alt (.rep 1 none true (.cls false D))
        (.seq (.rep 0 none true (.cls false D)) (.seq (.lit 46) (.rep 1 none true (.cls false D)))))) ⟨0, []⟩ k).isSome
      = numThen v q := by
  rw [m_group, m_alt, isSome_orElse]
  have h1 := plus_D_q v 0 (Nat.zero_le _) [] _ q hk
  have h2 := alt2_q v _ q hk
  simp only [List.drop_zero, Nat.zero_add] at h1
  unfold numThen
  rw [← h1, ← h2]

/-- the shape `num` accepts, up to the end of the text or a final newline -/
def numShape (v : Text) : Bool := numThen v (atEnd v)

theorem atEnd_notDigit (v : Text) (j c : Nat) (hc : v[j]? = some c) (hd : isDig c = true) : atEnd v j = false := by
  have hlt : j < v.length := by
    rcases Nat.lt_or_ge j v.length with h | h
    · exact h
    · rw [List.getElem?_eq_none h] at hc; cases hc
  have hne : c ≠ 10 := by rintro rfl; revert hd; decide
  simp [atEnd, hc, hne]; omega

/-- `DTDChecker.num.match(v)` succeeds exactly on the number shape -/
theorem isNum_eq_numShape (v : Text) : isNum v = numShape v := by
  unfold isNum reMatches matchAt Gen.Pat.DTDChecker_num numShape
  rw [m_seq, m_bol0, m_seq]
  refine numGroup_q v 1 _ (atEnd v) ⟨?_, atEnd_notDigit v⟩
  intro j caps
  simp only [m_eol]
  split <;> simp_all

/-- one of the five units of `length` at position j: em px ch cm in -/
def unitAt (v : Text) (j : Nat) : Bool :=
  (v[j]? == some 101 && v[j + 1]? == some 109) || (v[j]? == some 112 && v[j + 1]? == some 120) ||
  (v[j]? == some 99 && v[j + 1]? == some 104) || (v[j]? == some 99 && v[j + 1]? == some 109) ||
  (v[j]? == some 105 && v[j + 1]? == some 110)

/-- the shape `length` accepts: a number, a unit, the end -/
def lengthShape (v : Text) : Bool := numThen v (fun j => unitAt v j && atEnd v (j + 2))

theorem isSome_ite_none {α} (c : Prop) [Decidable c] (x : Option α) :
    (if c then x else none).isSome = (decide c && x.isSome) := by
  by_cases h : c <;> simp [h]

theorem isSome_ite_some {α} (c : Prop) [Decidable c] (x : α) :
    (if c then some x else none).isSome = decide c := by
  by_cases h : c <;> simp [h]

/-- `DTDChecker.length.match(v)` succeeds exactly on the length shape -/
theorem isLength_eq_lengthShape (v : Text) : isLength v = lengthShape v := by
  unfold isLength reMatches matchAt Gen.Pat.DTDChecker_length lengthShape
  rw [m_seq, m_bol0, m_seq]
  refine numGroup_q v 1 _ _ ⟨?_, ?_⟩
  · intro j caps
    simp only [m_seq, m_group, m_alt, m_lit, m_eol, isSome_orElse, isSome_ite_none, isSome_ite_some, unitAt,
      List.getElem?_toArray, Option.isSome_some]
    generalize (v[j]? == some 101) = a1
    generalize (v[j]? == some 112) = a2
    generalize (v[j]? == some 99) = a3
    generalize (v[j]? == some 105) = a4
    generalize (v[j + 1]? == some 109) = b1
    generalize (v[j + 1]? == some 120) = b2
    generalize (v[j + 1]? == some 104) = b3
    generalize (v[j + 1]? == some 110) = b4
    generalize atEnd v (j + 1 + 1) = e
    cases a1 <;> cases a2 <;> cases a3 <;> cases a4 <;> cases b1 <;> cases b2 <;> cases b3 <;> cases b4 <;> cases e <;> rfl
  · intro j c hc hd
    have h1 : c ≠ 101 := by rintro rfl; revert hd; decide
    have h2 : c ≠ 112 := by rintro rfl; revert hd; decide
    have h3 : c ≠ 99 := by rintro rfl; revert hd; decide
    have h4 : c ≠ 105 := by rintro rfl; revert hd; decide
    simp [unitAt, hc, h1, h2, h3, h4]

end Dtd

/-
C16R, part 5: `.ini` — a section header followed by printed records (`C02X.printIni`): the text the serializer
produces for two such files with the same section re-parses to exactly the expected records, without junk.
-/
import CLModel.Proofs.C16RText
import CLModel.Proofs.C02XIni
import CLModel.Proofs.C04Ini
namespace C16R
open AR Ser C16L
open P (PRec printRec printProps)

/-- the entry-level view of the section header `[sec]` (an `IniSection`: neither Entity nor Comment nor Whitespace) -/
def entS (sec : List Nat) : Ent := { kind := .other, key := sec, val := sec, all := 91 :: (sec ++ [93]) }

/-- entries of a printed ini file -/
def iniEnts (sec : List Nat) (rs : List PRec) : List Ent := entS sec :: entW :: entsOf rs

/-! ### the walk, at the entry level -/

theorem iniRecEntries_eq : ∀ (rs : List PRec) (off : Nat), C02X.iniRecEntries off rs = P.expEntries off rs := by
  intro rs
  induction rs with
  | nil => intro _; rfl
  | cons r rs ih =>
    intro off
    simp only [C02X.iniRecEntries, P.expEntries, ih]
    rfl

/-- the slices of a printed ini file: section name, section header, the newline after it, the records -/
theorem printIni_facts (sec : List Nat) (rs : List PRec) (s : Array Nat) (hs : (C02X.printIni sec rs).toArray = s) :
    sec.length + 3 ≤ s.size ∧
    P.slice s 1 (sec.length + 1) = sec ∧
    P.slice s 0 (sec.length + 2) = 91 :: (sec ++ [93]) ∧
    s[sec.length + 2]? = some 10 ∧
    s.toList.drop (sec.length + 3) = printProps rs := by
  have hl : s.toList = 91 :: (sec ++ 93 :: 10 :: printProps rs) := by rw [← hs]; rfl
  have hlen : s.size = sec.length + 3 + (printProps rs).length := by
    have := congrArg List.length hl
    simp at this
    omega
  have hd0 : s.toList.drop 0 = s.toList := rfl
  have hsl := fun a b hb => slice_of_drop s 0 a b _ hd0 (by omega) hb
  have ename : P.slice s 1 (sec.length + 1) = sec := by
    have := hsl 1 (sec.length + 1) (by rw [hl]; simp <;> omega)
    simp only [Nat.zero_add] at this
    rw [this]
    exact take_drop_mid _ [91] sec (93 :: 10 :: printProps rs) _ _ (by rw [hl]; simp) rfl (by omega)
  have eall : P.slice s 0 (sec.length + 2) = 91 :: (sec ++ [93]) := by
    have := hsl 0 (sec.length + 2) (by rw [hl]; simp <;> omega)
    simp only [Nat.zero_add] at this
    rw [this]
    exact take_drop_mid _ [] (91 :: (sec ++ [93])) (10 :: printProps rs) _ _ (by rw [hl]; simp) rfl (by simp)
  have hnl : s[sec.length + 2]? = some 10 := by
    have := P.get_of_drop s 0 (sec.length + 2) _ hd0
    rw [Nat.zero_add] at this
    rw [this, hl, show (91 :: (sec ++ 93 :: 10 :: printProps rs)) = (91 :: (sec ++ [93])) ++ 10 :: printProps rs by simp,
      List.getElem?_append_right (by simp)]
    simp
  have hdrop : s.toList.drop (sec.length + 3) = printProps rs := by
    rw [hl, show (91 :: (sec ++ 93 :: 10 :: printProps rs)) = (91 :: (sec ++ [93, 10])) ++ printProps rs by simp]
    exact List.drop_left' (by simp)
  exact ⟨by omega, ename, eall, hnl, hdrop⟩

theorem walkEnts_printIni (sec : List Nat) (rs : List PRec) (hsec : ∀ c ∈ sec, c ≠ 93 ∧ c ≠ 10)
    (h : ∀ r ∈ rs, C02X.SafeIniRec r) :
    walkEnts .ini (C02X.printIni sec rs).toArray = some (iniEnts sec rs) := by
  unfold walkEnts
  rw [C02X.walk_ini_printed sec rs hsec h]
  simp only
  generalize hs : (C02X.printIni sec rs).toArray = s
  obtain ⟨hlen, ename, eall, hnl, hdrop⟩ := printIni_facts sec rs s hs
  have e1 : ofEntry .ini s (C02X.iniSectionEntry sec.length) = entS sec := by
    unfold ofEntry C02X.iniSectionEntry entS
    simp only [P.Entry.all]
    rw [C16L.pySlice_nat s 1 (sec.length + 1) (by omega) (by omega), ename, eall]
  simp only [C02X.iniExpEntries, List.map_cons, iniEnts]
  rw [e1, ofEntry_ws .ini s _ hnl, iniRecEntries_eq, map_ofEntry_expEntries .ini s rs _ hdrop]

/-! ### the dicts `parse_resource` builds -/

theorem pairsOf_headed (src : Nat) (H : Ent) (X : PRec → Ent) (hH : H.isComment = false ∧ H.isWs = false)
    (hX : ∀ r, (X r).isComment = false ∧ (X r).isWs = false ∧ (X r).key = r.1) (rs : List PRec) :
    pairsOf src [] 0 (H :: entW :: mkList X rs) = (MKey.str H.key, H) :: (MKey.ws src 1, entW) :: pk src X 2 rs := by
  rw [pairsOf]
  simp only [hH.1, hH.2, Bool.false_eq_true, if_false]
  rw [pairsOf]
  have : entW.isComment = false := rfl
  have hw : entW.isWs = true := rfl
  simp only [this, hw, Bool.false_eq_true, if_false, if_true]
  rw [pairsOf_mkList src X hX]

theorem parseResource_headed (src : Nat) (H : Ent) (X : PRec → Ent) (hH : H.isComment = false ∧ H.isWs = false)
    (hX : ∀ r, (X r).isComment = false ∧ (X r).isWs = false ∧ (X r).key = r.1) (rs : List PRec)
    (hn : (H.key :: rs.map (·.1)).Nodup) :
    parseResource src (H :: entW :: mkList X rs)
      = (MKey.str H.key, H) :: (MKey.ws src 1, entW) :: pk src X 2 rs := by
  unfold parseResource mkDict
  rw [pairsOf_headed src H X hH hX]
  apply mkDict_of_nodup
  rw [List.nodup_cons] at hn
  simp only [List.map_cons, List.nodup_cons, List.mem_cons, List.mem_map, not_or]
  refine ⟨⟨by simp, ?_⟩, ?_, pk_keys_nodup src X rs 2 hn.2⟩
  · rintro ⟨p, hp, hk⟩
    rcases mem_pk src X rs 2 p hp with ⟨r', hr', h⟩ | ⟨j, _, h⟩
    · rw [h] at hk
      simp only [MKey.str.injEq] at hk
      exact hn.1 (List.mem_map.2 ⟨r', hr', hk⟩)
    · rw [h] at hk; simp at hk
  · rintro ⟨p, hp, hk⟩
    rcases mem_pk src X rs 2 p hp with ⟨r', _, h⟩ | ⟨j, hj, h⟩
    · rw [h] at hk; simp at hk
    · rw [h] at hk
      simp only [MKey.ws.injEq] at hk
      omega

theorem map_iniEnts (g : Ent → Ent) (hg : g entW = entW) (sec : List Nat) (rs : List PRec) :
    ((iniEnts sec rs).filter (fun e => !e.isJunk)).map g = g (entS sec) :: entW :: mkList (fun r => g (entE r)) rs := by
  unfold iniEnts
  have h1 : (fun e : Ent => !e.isJunk) (entS sec) = true := rfl
  have h2 : (fun e : Ent => !e.isJunk) entW = true := rfl
  simp only [List.filter_cons, h1, h2, if_true, List.map_cons, hg]
  rw [map_entsOf g hg]

theorem d0_ini (sec : List Nat) (rs : List PRec) (hn : (sec :: rs.map (·.1)).Nodup) :
    d0Of (iniEnts sec rs)
      = (MKey.str sec, entS sec) :: (MKey.ws 0 1, entW) :: pk 0 (fun r => placeholder (entE r)) 2 rs := by
  unfold d0Of plOf
  rw [map_iniEnts placeholder rfl]
  exact parseResource_headed 0 (entS sec) _ ⟨rfl, rfl⟩ (fun r => ⟨rfl, rfl, rfl⟩) rs hn

theorem sanOf_entS (ref : List Ent) (nd : NewData) (sec : List Nat) : sanOf ref nd (entS sec) = entS sec := by
  unfold sanOf shouldPlaceholder
  rfl

theorem d1_ini (ref : List Ent) (nd : NewData) (sec : List Nat) (rs : List PRec) (hn : (sec :: rs.map (·.1)).Nodup) :
    d1Of ref (iniEnts sec rs) nd
      = (MKey.str sec, entS sec) :: (MKey.ws 1 1, entW) :: pk 1 (fun r => sanOf ref nd (entE r)) 2 rs := by
  unfold d1Of
  rw [osOf_eq, map_iniEnts (sanOf ref nd) (by unfold sanOf shouldPlaceholder; rfl), sanOf_entS]
  apply parseResource_headed 1 (entS sec) _ ⟨rfl, rfl⟩ _ rs hn
  intro r
  rcases sanOf_entE ref nd r with h | h <;> rw [h] <;> exact ⟨rfl, rfl, rfl⟩

/-! ### lookups -/

theorem mem_iniEnts {sec : List Nat} {rs : List PRec} {e : Ent} (h : e ∈ iniEnts sec rs) :
    e = entS sec ∨ e = entW ∨ ∃ r ∈ rs, e = entE r := by
  unfold iniEnts at h
  rcases List.mem_cons.1 h with rfl | h
  · exact .inl rfl
  · rcases List.mem_cons.1 h with rfl | h
    · exact .inr (.inl rfl)
    · rcases mem_entsOf h with rfl | h
      · exact .inr (.inl rfl)
      · exact .inr (.inr h)

theorem entities_iniEnts (sec : List Nat) (rs : List PRec) :
    (iniEnts sec rs).filter Ent.isEntity = (entsOf rs).filter Ent.isEntity := by
  unfold iniEnts
  have h1 : (entS sec).isEntity = false := rfl
  have h2 : entW.isEntity = false := rfl
  simp only [List.filter_cons, h1, h2, Bool.false_eq_true, if_false]

theorem refMapping_ini (sec : List Nat) (rs : List PRec) (s : List Nat) :
    dget (refMapping (iniEnts sec rs)) s = dget (refMapping (entsOf rs)) s := by
  rw [refMapping_get, refMapping_get, entities_iniEnts]

theorem known_ini (sec : List Nat) (rs : List PRec) (s : List Nat) :
    known (iniEnts sec rs) s = known (entsOf rs) s := by
  rw [Bool.eq_iff_iff, known_iff, known_iff, refMapping_ini]

theorem newValue_ini (sec : List Nat) (rs : List PRec) (nd : NewData) (s : List Nat) :
    newValue (iniEnts sec rs) nd s = newValue (entsOf rs) nd s := by
  unfold newValue
  rw [refMapping_ini]

theorem oldEntry_ini (sec : List Nat) (rs : List PRec) (s : List Nat) (hs : s ≠ sec) :
    oldEntry (iniEnts sec rs) s = oldEntry (entsOf rs) s := by
  unfold oldEntry iniEnts
  have h1 : (fun e : Ent => !e.isJunk) (entS sec) = true := rfl
  have h2 : (fun e : Ent => !e.isJunk) entW = true := rfl
  have p1 : (fun e : Ent => strKeyed e && e.key == s) (entS sec) = false := by
    have : ((entS sec).key == s) = false := by
      simp only [entS, beq_eq_false_iff_ne, ne_eq]
      exact fun e => hs e.symm
    simp only [this, Bool.and_false]
  have p2 : (fun e : Ent => strKeyed e && e.key == s) entW = false := rfl
  simp only [List.filter_cons, h1, h2, if_true, lastMatch, p1, p2, Bool.false_eq_true, if_false]
  cases lastMatch (fun e => strKeyed e && e.key == s) ((entsOf rs).filter (fun e => !e.isJunk)) <;> rfl

/-- what the proof needs of the old localization's entry list `oldE`, standing for the records `oldRecs` -/
structure OldOK (sec : List Nat) (ref : List Ent) (nd : NewData) (oldE : List Ent) (oldRecs : List PRec) : Prop where
  /-- its dict is empty or starts with the section header -/
  head : d1Of ref oldE nd = [] ∨ ∃ d1', d1Of ref oldE nd = (MKey.str sec, entS sec) :: d1'
  alt : Alt wsKey (dkeys (d1Of ref oldE nd))
  mem : ∀ e ∈ oldE, e = entS sec ∨ e = entW ∨ ∃ r ∈ oldRecs, e = entE r
  entry : ∀ s, s ≠ sec → oldEntry oldE s = oldEntry (entsOf oldRecs) s
  nosec : sec ∉ oldRecs.map (·.1)
  nodup : (oldRecs.map (·.1)).Nodup

/-- an old file `[sec]⏎` + records -/
theorem oldOK_ini (sec : List Nat) (ref : List Ent) (nd : NewData) (oldRecs : List PRec)
    (hok : (sec :: oldRecs.map (·.1)).Nodup) : OldOK sec ref nd (iniEnts sec oldRecs) oldRecs where
  head := .inr ⟨_, d1_ini ref nd sec oldRecs hok⟩
  alt := by rw [d1_ini ref nd sec oldRecs hok]; exact ⟨.inr rfl, .inl rfl, alt_pk 1 _ oldRecs 2⟩
  mem := fun _ he => mem_iniEnts he
  entry := fun s hs => oldEntry_ini sec oldRecs s hs
  nosec := (List.nodup_cons.1 hok).1
  nodup := (List.nodup_cons.1 hok).2

/-- no old file (a new localization) -/
theorem oldOK_nil (sec : List Nat) (ref : List Ent) (nd : NewData) : OldOK sec ref nd [] [] where
  head := .inl rfl
  alt := trivial
  mem := fun _ he => by simp at he
  entry := fun _ _ => rfl
  nosec := by simp
  nodup := by simp

theorem alt_out_ini (sec : List Nat) (refRecs : List PRec) (nd : NewData) (oldE : List Ent) (oldRecs : List PRec)
    (hrk : (sec :: refRecs.map (·.1)).Nodup) (ho : OldOK sec (iniEnts sec refRecs) nd oldE oldRecs) :
    Alt Ent.isWs (serializeEnts (iniEnts sec refRecs) oldE nd) := by
  apply serializeEnts_alt
  · rw [d0_ini sec refRecs hrk]
    exact ⟨.inr rfl, .inl rfl, alt_pk 0 _ refRecs 2⟩
  · exact ho.alt

theorem chosen_ini (sec : List Nat) (refRecs : List PRec) (nd : NewData) (oldE : List Ent) (oldRecs : List PRec)
    (ho : OldOK sec (iniEnts sec refRecs) nd oldE oldRecs) (s : List Nat) (hs : s ≠ sec) :
    chosen (iniEnts sec refRecs) oldE nd s = chosen (entsOf refRecs) (entsOf oldRecs) nd s := by
  unfold chosen
  rw [newValue_ini, ho.entry s hs, known_ini]

theorem chosen_sec (sec : List Nat) (refRecs : List PRec) (nd : NewData) (oldE : List Ent) (oldRecs : List PRec)
    (ho : OldOK sec (iniEnts sec refRecs) nd oldE oldRecs) (hr : sec ∉ refRecs.map (·.1)) :
    chosen (iniEnts sec refRecs) oldE nd sec = none := by
  have hnv : newValue (iniEnts sec refRecs) nd sec = none := by
    rw [newValue_ini]
    unfold newValue
    have : dget (refMapping (entsOf refRecs)) sec = none := by
      cases hg : dget (refMapping (entsOf refRecs)) sec with
      | none => rfl
      | some r =>
        exfalso
        obtain ⟨hm, he, hk⟩ := refMapping_some hg
        rcases mem_entsOf hm with rfl | ⟨r', hr', rfl⟩
        · exact absurd he (by decide)
        · exact hr (List.mem_map.2 ⟨r', hr', hk⟩)
    rw [this]
    cases dget nd sec with
    | none => rfl
    | some ov => cases ov <;> rfl
  unfold chosen
  rw [hnv]
  simp only
  cases ho' : oldEntry oldE sec with
  | none => rfl
  | some e =>
    simp only
    have hm := lastMatch_some ho'
    have hk : e.key = sec := by
      have := hm.2
      simp only [Bool.and_eq_true, beq_iff_eq] at this
      exact this.2
    have hreal : e.isReal = false := by
      rcases ho.mem e (List.mem_filter.1 hm.1).1 with rfl | rfl | ⟨r', hr', rfl⟩
      · rfl
      · rfl
      · exact absurd (List.mem_map.2 ⟨r', hr', hk⟩) ho.nosec
    simp [hreal]

theorem refKeys_iniEnts (sec : List Nat) (rs : List PRec) (hn : (sec :: rs.map (·.1)).Nodup) :
    refKeys (iniEnts sec rs) = sec :: rs.map (·.1) := by
  unfold refKeys
  have : (((iniEnts sec rs).filter (fun e => !e.isJunk)).filter strKeyed).map (·.key) = sec :: rs.map (·.1) := by
    unfold iniEnts
    have h1 : (fun e : Ent => !e.isJunk) (entS sec) = true := rfl
    have h2 : (fun e : Ent => !e.isJunk) entW = true := rfl
    have h3 : strKeyed (entS sec) = true := rfl
    have h4 : strKeyed entW = false := rfl
    simp only [List.filter_cons, h1, h2, h3, h4, if_true, Bool.false_eq_true, if_false, List.map_cons]
    rw [strKeys_entsOf]
    rfl
  rw [this, firstOcc_of_nodup _ hn]

theorem out_records_ini (sec : List Nat) (refRecs : List PRec) (nd : NewData) (oldE : List Ent) (oldRecs : List PRec)
    (hrk : (sec :: refRecs.map (·.1)).Nodup) (ho : OldOK sec (iniEnts sec refRecs) nd oldE oldRecs)
    (hnd : (nd.map (·.1)).Nodup) :
    ((serializeEnts (iniEnts sec refRecs) oldE nd).filter Ent.isReal).map recOf
      = expectedRecs refRecs oldRecs nd := by
  have hrk' := List.nodup_cons.1 hrk
  rw [C16L.serialized_entities _ _ _ hnd, refKeys_iniEnts sec refRecs hrk, List.filterMap_cons,
    chosen_sec sec refRecs nd oldE oldRecs ho hrk'.1]
  simp only
  rw [List.map_filterMap, List.filterMap_map]
  unfold expectedRecs
  apply filterMap_congr'
  intro r hr
  have hne : r.1 ≠ sec := by
    intro e
    exact hrk'.1 (List.mem_map.2 ⟨r, hr, e⟩)
  show (chosen (iniEnts sec refRecs) oldE nd r.1).map recOf = _
  rw [chosen_ini sec refRecs nd oldE oldRecs ho r.1 hne]
  exact chosen_entsOf refRecs oldRecs nd hrk'.2 ho.nodup r hr

/-! ### the entries of the output -/

theorem safe_of_ini {r : PRec} (h : C02X.SafeIniRec r) : C04R.IniSafeRec r :=
  ⟨h.key_ne, h.key, h.key_head, h.val⟩

theorem good_out_ini (sec : List Nat) (refRecs : List PRec) (nd : NewData) (oldE : List Ent) (oldRecs : List PRec)
    (ho : OldOK sec (iniEnts sec refRecs) nd oldE oldRecs)
    (href : ∀ r ∈ refRecs, C02X.SafeIniRec r) (hold : ∀ r ∈ oldRecs, C02X.SafeIniRec r)
    (hv : ∀ r ∈ refRecs, ∀ v, (r.1, some v) ∈ nd → ∀ c ∈ v, c ≠ 10) :
    ∀ e ∈ serializeEnts (iniEnts sec refRecs) oldE nd, e = entS sec ∨ GoodEnt C04R.IniSafeRec e := by
  intro e he
  obtain ⟨_, _, h⟩ := C16L.nothing_foreign _ _ nd e he
  rcases h with h | ⟨h, _⟩ | ⟨h, hne⟩
  · right
    obtain ⟨_, _, v, r, hm, hr, rfl⟩ := mem_nl (ref := iniEnts sec refRecs) h
    obtain ⟨hrm, hre, hrk⟩ := refMapping_some hr
    rcases mem_iniEnts hrm with rfl | rfl | ⟨r', hr', rfl⟩
    · exact absurd hre (by simp [entS, Ent.isEntity])
    · exact absurd hre (by decide)
    · have hk : (wrap (entE r') v).key = r'.1 := rfl
      rw [hk] at hm
      have hs := href r' hr'
      refine .inr ⟨rfl, rfl, ⟨hs.key_ne, hs.key, hs.key_head, hv r' hr' v hm⟩, ?_⟩
      simp [wrap, entE]
  · rcases ho.mem e h with rfl | rfl | ⟨r', hr', rfl⟩
    · exact .inl rfl
    · exact .inr (good_entW _)
    · exact .inr (good_entE (safe_of_ini (hold r' hr')))
  · rcases mem_iniEnts h with rfl | rfl | ⟨r', _, rfl⟩
    · exact .inl rfl
    · exact .inr (good_entW _)
    · exact absurd hne (by simp [entE, Ent.isEntity])

/-! ### the theorem -/

/-- the entry-level core: reference `[sec]⏎` + records, old localization any entry list that is `OldOK` -/
theorem serialize_reparses_ini_core (sec : List Nat) (refRecs : List PRec) (nd : NewData) (oldE : List Ent)
    (oldRecs : List PRec) (hsec : ∀ c ∈ sec, c ≠ 93 ∧ c ≠ 10)
    (href : ∀ r ∈ refRecs, C02X.SafeIniRec r) (hold : ∀ r ∈ oldRecs, C02X.SafeIniRec r)
    (hrk : (sec :: refRecs.map (·.1)).Nodup) (ho : OldOK sec (iniEnts sec refRecs) nd oldE oldRecs)
    (hnd : (nd.map (·.1)).Nodup)
    (hv : ∀ r ∈ refRecs, ∀ v, (r.1, some v) ∈ nd → ∀ c ∈ v, c ≠ 10) :
    ∃ es, P.walk .ini (serializeOut (iniEnts sec refRecs) oldE nd).toArray = .done es ∧
      P.entitiesOf .ini (serializeOut (iniEnts sec refRecs) oldE nd).toArray es
        = (expectedRecs refRecs oldRecs nd).map P.expectedView ∧
      P.junkOf (serializeOut (iniEnts sec refRecs) oldE nd).toArray es = [] := by
  have hrk' := List.nodup_cons.1 hrk
  -- the first entry of the output is the section
  have h2 : dget (d2Of (iniEnts sec refRecs) nd) (MKey.str sec) = none := by
    cases hg : dget (d2Of (iniEnts sec refRecs) nd) (MKey.str sec) with
    | none => rfl
    | some l =>
      exfalso
      obtain ⟨_, hk, hkn⟩ := d2_some hg
      have hls : l.key = sec := by injection hk with hk; exact hk.symm
      rw [hls, known_iff] at hkn
      cases hr : dget (refMapping (iniEnts sec refRecs)) sec with
      | none => rw [hr] at hkn; simp at hkn
      | some r =>
        obtain ⟨hm, he, hk'⟩ := refMapping_some hr
        rcases mem_iniEnts hm with rfl | rfl | ⟨r', hr', rfl⟩
        · exact absurd he (by simp [entS, Ent.isEntity])
        · exact absurd he (by decide)
        · exact hrk'.1 (List.mem_map.2 ⟨r', hr', hk'⟩)
  obtain ⟨m2', rest, hm2, hout, hsub⟩ := serializeEnts_head (iniEnts sec refRecs) oldE nd
    (MKey.str sec) (entS sec) _ (d0_ini sec refRecs hrk) ho.head rfl rfl rfl h2
  have hgood := good_out_ini sec refRecs nd oldE oldRecs ho href hold hv
  have halt := alt_out_ini sec refRecs nd oldE oldRecs hrk ho
  rw [hout] at hgood halt
  -- no second section
  have hrest : ∀ e ∈ rest, GoodEnt C04R.IniSafeRec e := by
    intro e he
    rcases hgood e (List.mem_cons_of_mem _ he) with rfl | h
    · exfalso
      have hm := hsub.subset he
      rw [List.mem_map] at hm
      obtain ⟨p, hp, hpe⟩ := hm
      have hpm : p ∈ m2Of (iniEnts sec refRecs) oldE nd := by
        rw [hm2]; exact List.mem_cons_of_mem _ hp
      have hok2 := m2_keyOK _ _ nd p hpm
      have hk : p.1 = MKey.str sec := by
        have := keyOK_str (k := p.1) (e := p.2) hok2 (by rw [hpe]; rfl)
        rw [this, hpe]; rfl
      have hnd2 := m2_nodup (iniEnts sec refRecs) oldE nd
      rw [hm2] at hnd2
      simp only [dkeys, List.map_cons, List.nodup_cons] at hnd2
      exact hnd2.1 (List.mem_map.2 ⟨p, hp, hk⟩)
    · exact h
  obtain ⟨t, h1, h2', _⟩ := toks_of_alt C04R.IniSafeRec rest halt.2 hrest
  have hsafe : ∀ r ∈ C04R.recsOf t, C04R.IniSafeRec r := by rw [h2']; exact safe_records _ rest hrest
  obtain ⟨es, hw1, hw2, hw3⟩ := C04R.ini_walk_section_toks sec t hsec hsafe
  have htext : serializeOut (iniEnts sec refRecs) oldE nd = C04R.iniSection sec ++ C04R.printToks t := by
    have : serializeLegacy (entS sec :: rest) = (entS sec).all ++ serializeLegacy rest := by simp [serializeLegacy]
    rw [serializeOut, hout, h1, this]
    rfl
  have hrecs : C04R.recsOf t = expectedRecs refRecs oldRecs nd := by
    rw [h2', ← out_records_ini sec refRecs nd oldE oldRecs hrk ho hnd, hout,
      List.filter_cons_of_neg (by simp [entS, Ent.isReal])]
  refine ⟨es, ?_, ?_, ?_⟩
  · rw [htext]; exact hw1
  · rw [htext, hw2, hrecs]
  · rw [htext]; exact hw3

/-- serializer output for two printed ini files with the same section: it re-parses, junk-free, to the section and
    exactly the expected records -/
theorem serialize_reparses_ini (sec : List Nat) (refRecs oldRecs : List PRec) (nd : NewData)
    (hsec : ∀ c ∈ sec, c ≠ 93 ∧ c ≠ 10)
    (href : ∀ r ∈ refRecs, C02X.SafeIniRec r) (hold : ∀ r ∈ oldRecs, C02X.SafeIniRec r)
    (hrk : (sec :: refRecs.map (·.1)).Nodup) (hok : (sec :: oldRecs.map (·.1)).Nodup) (hnd : (nd.map (·.1)).Nodup)
    (hv : ∀ r ∈ refRecs, ∀ v, (r.1, some v) ∈ nd → ∀ c ∈ v, c ≠ 10) :
    ∃ t es, serializeText .ini (C02X.printIni sec refRecs).toArray (C02X.printIni sec oldRecs).toArray nd = some t ∧
      P.walk .ini t.toArray = .done es ∧
      P.entitiesOf .ini t.toArray es = (expectedRecs refRecs oldRecs nd).map P.expectedView ∧
      P.junkOf t.toArray es = [] := by
  obtain ⟨es, h1, h2, h3⟩ := serialize_reparses_ini_core sec refRecs nd (iniEnts sec oldRecs) oldRecs hsec href hold hrk
    (oldOK_ini sec _ nd oldRecs hok) hnd hv
  refine ⟨serializeOut (iniEnts sec refRecs) (iniEnts sec oldRecs) nd, es, ?_, h1, h2, h3⟩
  unfold serializeText
  rw [walkEnts_printIni sec refRecs hsec href, walkEnts_printIni sec oldRecs hsec hold]

/-- … and for a new localization (empty old file) -/
theorem serialize_reparses_ini_new (sec : List Nat) (refRecs : List PRec) (nd : NewData)
    (hsec : ∀ c ∈ sec, c ≠ 93 ∧ c ≠ 10) (href : ∀ r ∈ refRecs, C02X.SafeIniRec r)
    (hrk : (sec :: refRecs.map (·.1)).Nodup) (hnd : (nd.map (·.1)).Nodup)
    (hv : ∀ r ∈ refRecs, ∀ v, (r.1, some v) ∈ nd → ∀ c ∈ v, c ≠ 10) :
    ∃ t es, serializeText .ini (C02X.printIni sec refRecs).toArray #[] nd = some t ∧
      P.walk .ini t.toArray = .done es ∧
      P.entitiesOf .ini t.toArray es = (expectedRecs refRecs [] nd).map P.expectedView ∧
      P.junkOf t.toArray es = [] := by
  obtain ⟨es, h1, h2, h3⟩ := serialize_reparses_ini_core sec refRecs nd [] [] hsec href (by simp) hrk
    (oldOK_nil sec _ nd) hnd hv
  refine ⟨serializeOut (iniEnts sec refRecs) [] nd, es, ?_, h1, h2, h3⟩
  unfold serializeText
  rw [walkEnts_printIni sec refRecs hsec href]
  rfl

end C16R

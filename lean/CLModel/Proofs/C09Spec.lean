/- Independent (regex-free, list-level) reference definitions for the Android checker.
   They are what the C09 theorems compare the model of the Python code with:
   a hand-written lexer for printf arguments, the Java `Formatter` numbering of arguments,
   escape silencing and the quoting rule, and the "plain text or one CDATA" shape of a node. -/
import CLModel.Checks.Android
namespace Android.Spec
open Android

/-! ### printf arguments -/

def isDig (c : Nat) : Bool := 48 ≤ c && c ≤ 57
def isD19 (c : Nat) : Bool := 49 ≤ c && c ≤ 57

/-- length of a conversion `f`, `.<digits>f`, `d`, `s`, `S` at the head of a list -/
def fmtLen : List Nat → Option Nat
  | [] => none
  | c :: rest =>
    if c == 46 then
      let n := (rest.takeWhile isDig).length
      if n != 0 && (rest.drop n).head? == some 102 then some (n + 2) else none
    else if c == 102 || c == 100 || c == 115 || c == 83 then some 1 else none

/-- one argument at the head of a list: `%`, optionally `<1-9>$`, a conversion.
    Result: explicit position, conversion text, total length. -/
def parHead : List Nat → Option (Option Nat × List Nat × Nat)
  | [] => none
  | c :: rest =>
    if c != 37 then none else
    match rest with
    | d :: e :: rest2 =>
      if isD19 d && e == 36 then (fmtLen rest2).map (fun n => (some (d - 48), rest2.take n, n + 3))
      else (fmtLen rest).map (fun n => (none, rest.take n, n + 1))
    | _ => (fmtLen rest).map (fun n => (none, rest.take n, n + 1))

/-- left-to-right lexer: arguments do not overlap; anything else is skipped character by character -/
def lexL : Nat → Nat → List Nat → List Tok
  | 0, _, _ => []
  | _ + 1, _, [] => []
  | f + 1, off, c :: rest =>
    match parHead (c :: rest) with
    | some (o, fmt, n) => ⟨off, o, fmt⟩ :: lexL f (off + n) ((c :: rest).drop n)
    | none => lexL f (off + 1) rest

def lex (l : List Nat) : List Tok := lexL (l.length + 1) 0 l

/-- Java `Formatter` numbering: `n$` addresses argument n; an ordinary specifier takes the next
    sequential argument, counted independently of the explicit ones.  `n` = next sequential index. -/
def uses : Nat → List Tok → List (Nat × Tok)
  | _, [] => []
  | n, t :: ts =>
    match t.order with
    | some o => (o, t) :: uses n ts
    | none => (n, t) :: uses (n + 1) ts

/-- conversion of the first use of argument `p` -/
def firstFmt (us : List (Nat × Tok)) (p : Nat) : Option (List Nat) :=
  match us.find? (fun u => u.1 == p) with
  | some u => some u.2.fmt
  | none => none

/-- argument map of a string: argument number -> conversion of its first use -/
def argMap (v : List Nat) (p : Nat) : Option (List Nat) := firstFmt (uses 1 (lex v)) p

/-- uses whose conversion differs from the first use of the same argument, as `get_params` reports them -/
def conflictsOf (us : List (Nat × Tok)) : List (Msg × Nat) :=
  us.filterMap (fun u =>
    match firstFmt us u.1 with
    | some f => if f == u.2.fmt then none else some (Msg.conflict u.1 u.2.fmt f, u.2.pos)
    | none => none)

/-- some argument is used with two different conversions -/
def Conflict (v : List Nat) : Prop :=
  ∃ u1 u2, u1 ∈ uses 1 (lex v) ∧ u2 ∈ uses 1 (lex v) ∧ u1.1 = u2.1 ∧ u1.2.fmt ≠ u2.2.fmt

/-! ### quoting -/

/-- left to right: a pair of adjacent characters satisfying `cond` is replaced by two blanks (and skipped) -/
def blankPairs (cond : Nat → Nat → Bool) : List Nat → List Nat
  | [] => []
  | [c] => [c]
  | a :: tl@(b :: rest) =>
    if cond a b then 32 :: 32 :: blankPairs cond rest
    else a :: blankPairs cond tl

/-- an escape: a backslash and any character but a newline -/
def escCond (a b : Nat) : Bool := a == 92 && b != 10
/-- what the silencer blanks: an escape or a pair of straight quotes -/
def silCond (a b : Nat) : Bool := (a == 92 && b != 10) || (a == 34 && b == 34)

/-- escapes `\x` blanked out (what the doubled-quote search looks at) -/
def blankEsc (v : List Nat) : List Nat := blankPairs escCond v

/-- `\x` (x not a newline) and `""` are blanked out, left to right -/
def silence (v : List Nat) : List Nat := blankPairs silCond v

/-- start offsets of non-overlapping `""` pairs, left to right -/
def dqPositions : Nat → List Nat → List Nat
  | _, [] => []
  | _, [_] => []
  | off, a :: tl@(b :: rest) =>
    if a == 34 && b == 34 then off :: dqPositions (off + 2) rest
    else dqPositions (off + 1) tl

def indicesOf (c : Nat) : Nat → List Nat → List Nat
  | _, [] => []
  | off, x :: rest => if x == c then off :: indicesOf c (off + 1) rest else indicesOf c (off + 1) rest

/-- two adjacent straight quotes somewhere in a string; the checker looks at `blankEsc value` -/
def DoubledQuote (v : List Nat) : Prop := ∃ i, v[i]? = some 34 ∧ v[i + 1]? = some 34

/-- two adjacent straight quotes the first of which is not escaped by a backslash (`e` = the current
    character is escaped): a flag-based formulation of "a doubled straight quote", equivalent to
    `DoubledQuote (blankEsc v)` (`unescapedDq_iff`). -/
def unescapedDq : Bool → List Nat → Bool
  | _, [] => false
  | e, c :: rest => (!e && c == 34 && rest.head? == some 34) || unescapedDq (!e && c == 92) rest

/-- the (silenced) string starts and ends with a straight quote -/
def Quoted (w : List Nat) : Prop := w.head? = some 34 ∧ w.getLast? = some 34

/-! ### node shape -/

def TranslatableFalse (n : Node) : Prop := n.translatable = some Gen.Tables.android_translatable_false

def AtString (n : Node) : Prop := Gen.Tables.android_at_prefix <+: textContent n

def WhiteText (c : Child) : Prop := ∃ d, c = .text d ∧ ∀ x ∈ d, Rx.isSpace x = true

/-- empty, a single text node, or exactly one CDATA section among white-space-only text nodes -/
def SimpleData (n : Node) : Prop :=
  n.children = [] ∨ (∃ d, n.children = [.text d]) ∨
  ((n.children.filter (·.isCdata)).length = 1 ∧ ∀ c ∈ n.children, c.isCdata = true ∨ WhiteText c)

end Android.Spec

/-
Helper lemmas for C14 (round 4): legacy filter.py (`Paths/FilterPy.lean`), the guards of the object graph,
`set_locales(deep)`.
-/
import CLModel.Paths.FilterPy
import CLModel.Proofs.C14Filter
namespace C14P
open Filt FiltP

/-! ### without any `filter_py` the model is the one of `Paths/Filter.lean` -/

mutual
theorem allLocalesP_erase : ∀ (c : ConfigP), allLocalesP c = allLocales (erase c)
  | .mk f locales paths rules children excludes => by
    rw [allLocalesP, erase, allLocales, allLocalesListP_erase children]
theorem allLocalesListP_erase : ∀ (cs : List ConfigP), allLocalesListP cs = allLocalesList (eraseList cs)
  | [] => rfl
  | c :: cs => by
    rw [allLocalesListP, eraseList, allLocalesList, allLocalesP_erase c, allLocalesListP_erase cs]
end

mutual
theorem filterInnerP_noPy : ∀ (c : ConfigP) (file : FileP) (e : Option Text), noPy c = true →
    filterInnerP c file e = .ok (filterInner (erase c) file.toFile e)
  | .mk f locales paths rules children excludes, file, e, h => by
    simp only [noPy, Bool.and_eq_true] at h
    obtain ⟨⟨_, hc⟩, hx⟩ := h
    rw [filterInnerP, erase, filterInner, anyExcludeErrorP_noPy excludes file hx, childActionsP_noPy children file e hc]
    simp only [bind, Except.bind, pure, Except.pure, FileP.toFile]
    by_cases h1 : anyExcludeError (eraseList excludes) ⟨file.fullpath, file.locale⟩ = true
    · simp [h1]
    · by_cases h2 : (childActions (eraseList children) ⟨file.fullpath, file.locale⟩ e).contains (some Action.error) = true
      · have h2' : some Action.error ∈ childActions (eraseList children) ⟨file.fullpath, file.locale⟩ e := by
          simpa using h2
        simp [h1, h2']
      · have h2' : some Action.error ∉ childActions (eraseList children) ⟨file.fullpath, file.locale⟩ e := by
          simpa using h2
        simp [h1, h2']
theorem childActionsP_noPy : ∀ (cs : List ConfigP) (file : FileP) (e : Option Text), noPyList cs = true →
    childActionsP cs file e = .ok (childActions (eraseList cs) file.toFile e)
  | [], _, _, _ => rfl
  | c :: cs, file, e, h => by
    simp only [noPyList, Bool.and_eq_true] at h
    rw [childActionsP, eraseList, childActions, filterInnerP_noPy c file e h.1, childActionsP_noPy cs file e h.2]
    rfl
theorem anyExcludeErrorP_noPy : ∀ (cs : List ConfigP) (file : FileP), noPyList cs = true →
    anyExcludeErrorP cs file = .ok (anyExcludeError (eraseList cs) file.toFile)
  | [], _, _ => rfl
  | c :: cs, file, h => by
    simp only [noPyList, Bool.and_eq_true] at h
    have hpy : c.filterPy = none := by
      cases c with
      | mk f l p r ch ex =>
        have := h.1
        simp only [noPy, Bool.and_eq_true, Option.isNone_iff_eq_none] at this
        exact this.1.1
    rw [anyExcludeErrorP, eraseList, anyExcludeError, anyExcludeErrorP_noPy cs file h.2, allLocalesP_erase c, hpy]
    simp only [filterInnerP_noPy c file none h.1, bind, Except.bind, pure, Except.pure, FileP.toFile]
    by_cases hl : (allLocales (erase c)).contains file.locale = true
    · simp only [hl, Bool.not_true, Bool.false_eq_true, ↓reduceIte]
      cases hi : filterInner (erase c) ⟨file.fullpath, file.locale⟩ none with
      | none => simp +decide
      | some a => cases a <;> simp +decide
    · have hl' : file.locale ∉ allLocales (erase c) := by simpa using hl
      simp +decide [hl']
end

theorem filterP_noPy (c : ConfigP) (file : FileP) (e : Option Text) (h : noPy c = true) :
    filterP c file e = .ok (some (filter (erase c) file.toFile e)) := by
  have hpy : c.filterPy = none := by
    cases c with
    | mk f l p r ch ex =>
      simp only [noPy, Bool.and_eq_true, Option.isNone_iff_eq_none] at h
      exact h.1.1
  rw [filterP, filter, allLocalesP_erase, hpy]
  simp only [filterInnerP_noPy c file e h, bind, Except.bind, pure, Except.pure, FileP.toFile]
  by_cases hl : (allLocales (erase c)).contains file.locale = true
  · simp only [hl, Bool.not_true, Bool.false_eq_true, ↓reduceIte]
    cases filterInner (erase c) ⟨file.fullpath, file.locale⟩ e <;> rfl
  · have hl' : file.locale ∉ allLocales (erase c) := by simpa using hl
    simp [hl']

/-! ### which callables are consulted -/

mutual
/-- clear the callable of every INCLUDED configuration below a node (`self` = also the node's own);
    the excluded configurations keep their own callable (they are asked through their public `filter`) -/
def clr (self : Bool) : ConfigP → ConfigP
  | .mk f locales paths rules children excludes =>
    .mk (if self then none else f) locales paths rules (clrList true children) (clrList false excludes)
def clrList (self : Bool) : List ConfigP → List ConfigP
  | [] => []
  | c :: cs => clr self c :: clrList self cs
end

mutual
theorem allLocalesP_clr : ∀ (b : Bool) (c : ConfigP), allLocalesP (clr b c) = allLocalesP c
  | b, .mk f locales paths rules children excludes => by
    rw [clr, allLocalesP, allLocalesP, allLocalesListP_clr true children]
theorem allLocalesListP_clr : ∀ (b : Bool) (cs : List ConfigP), allLocalesListP (clrList b cs) = allLocalesListP cs
  | _, [] => rfl
  | b, c :: cs => by
    rw [clrList, allLocalesListP, allLocalesListP, allLocalesP_clr b c, allLocalesListP_clr b cs]
end

theorem filterPy_clr_false (c : ConfigP) : (clr false c).filterPy = c.filterPy := by
  cases c with
  | mk f l p r ch ex => simp [clr, ConfigP.filterPy]

mutual
theorem filterInnerP_clr : ∀ (b : Bool) (c : ConfigP) (file : FileP) (e : Option Text),
    filterInnerP (clr b c) file e = filterInnerP c file e
  | b, .mk f locales paths rules children excludes, file, e => by
    rw [clr, filterInnerP, filterInnerP, anyExcludeErrorP_clr excludes file, childActionsP_clr children file e]
theorem childActionsP_clr : ∀ (cs : List ConfigP) (file : FileP) (e : Option Text),
    childActionsP (clrList true cs) file e = childActionsP cs file e
  | [], _, _ => rfl
  | c :: cs, file, e => by
    rw [clrList, childActionsP, childActionsP, filterInnerP_clr true c file e, childActionsP_clr cs file e]
theorem anyExcludeErrorP_clr : ∀ (cs : List ConfigP) (file : FileP),
    anyExcludeErrorP (clrList false cs) file = anyExcludeErrorP cs file
  | [], _ => rfl
  | c :: cs, file => by
    rw [clrList, anyExcludeErrorP, anyExcludeErrorP, allLocalesP_clr false c, filterPy_clr_false c,
      filterInnerP_clr false c file none, anyExcludeErrorP_clr cs file]
end

theorem filterP_clr (c : ConfigP) (file : FileP) (e : Option Text) :
    filterP (clr false c) file e = filterP c file e := by
  rw [filterP, filterP, allLocalesP_clr, filterPy_clr_false, filterInnerP_clr]

/-! ### `set_locales(deep)` -/

mutual
theorem filterInnerP_setLocalesDeep : ∀ (c : ConfigP) (ls : Option (List Text)) (file : FileP) (e : Option Text),
    filterInnerP (setLocalesDeep c ls) file e = filterInnerP c file e
  | .mk f locales paths rules children excludes, ls, file, e => by
    rw [setLocalesDeep, filterInnerP, filterInnerP, childActionsP_setLocalesDeep children ls file e]
theorem childActionsP_setLocalesDeep : ∀ (cs : List ConfigP) (ls : Option (List Text)) (file : FileP) (e : Option Text),
    childActionsP (setLocalesDeepList cs ls) file e = childActionsP cs file e
  | [], _, _, _ => rfl
  | c :: cs, ls, file, e => by
    rw [setLocalesDeepList, childActionsP, childActionsP, filterInnerP_setLocalesDeep c ls file e,
      childActionsP_setLocalesDeep cs ls file e]
end

mutual
/-- the locales the `paths` entries of a configuration and of its included configurations name -/
def pathLocales : ConfigP → List Text
  | .mk _ _ paths _ children _ => paths.flatMap (fun p => optLocales p.locales) ++ pathLocalesList children
def pathLocalesList : List ConfigP → List Text
  | [] => []
  | c :: cs => pathLocales c ++ pathLocalesList cs
end

mutual
theorem mem_allLocalesP_deep : ∀ (c : ConfigP) (ls : Option (List Text)) (l : Text),
    l ∈ allLocalesP (setLocalesDeep c ls) ↔ l ∈ optLocales ls ∨ l ∈ pathLocales c
  | .mk f locales paths rules children excludes, ls, l => by
    rw [setLocalesDeep, allLocalesP, pathLocales]
    have ih := mem_allLocalesListP_deep children ls l
    simp only [ownLocales, List.mem_append, ih]
    constructor
    · rintro ((h | h) | (⟨_, h⟩ | h))
      · exact Or.inl h
      · exact Or.inr (Or.inl h)
      · exact Or.inl h
      · exact Or.inr (Or.inr h)
    · rintro (h | h | h)
      · exact Or.inl (Or.inl h)
      · exact Or.inl (Or.inr h)
      · exact Or.inr (Or.inr h)
theorem mem_allLocalesListP_deep : ∀ (cs : List ConfigP) (ls : Option (List Text)) (l : Text),
    l ∈ allLocalesListP (setLocalesDeepList cs ls) ↔ (cs ≠ [] ∧ l ∈ optLocales ls) ∨ l ∈ pathLocalesList cs
  | [], _, _ => by simp [setLocalesDeepList, allLocalesListP, pathLocalesList]
  | c :: cs, ls, l => by
    rw [setLocalesDeepList, allLocalesListP, pathLocalesList]
    have h1 := mem_allLocalesP_deep c ls l
    have h2 := mem_allLocalesListP_deep cs ls l
    simp only [List.mem_append, h1, h2, ne_eq, reduceCtorEq, not_false_eq_true, true_and]
    constructor
    · rintro ((h | h) | (⟨_, h⟩ | h))
      · exact Or.inl h
      · exact Or.inr (Or.inl h)
      · exact Or.inl h
      · exact Or.inr (Or.inr h)
    · rintro (h | h | h)
      · exact Or.inl (Or.inl h)
      · exact Or.inl (Or.inr h)
      · exact Or.inr (Or.inr h)
end

/-! ### the normalisation `filter_` applies -/

theorem str_report : Gen.Tables.filterPyStrMap.lookup [114, 101, 112, 111, 114, 116] = some (Action.name .warning) := by
  decide

end C14P

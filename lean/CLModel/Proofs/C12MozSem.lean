/- `mozpath.match`: soundness and completeness of the translated regular expression with respect to the glob relation `TokM`. -/
import CLModel.Proofs.C12MozLex
import CLModel.Proofs.C12REngine
namespace C12M
open Rx PM C11R

/-- **the glob relation** (independent of regular expressions): the token list matches the whole text -/
inductive TokM : List MTok → Text → Prop
  | nil : TokM [] []
  | chr {c ts v} : TokM ts v → TokM (.chr c :: ts) (c :: v)
  | star {ts v} (w : Text) : 47 ∉ w → TokM ts v → TokM (.star :: ts) (w ++ v)
  | dirs0 {ts v} : TokM ts v → TokM (.dirs :: ts) v
  | dirsN {ts v} (w : Text) : w ≠ [] → 10 ∉ w → TokM ts v → TokM (.dirs :: ts) (w ++ 47 :: v)
  | below0 {ts v} : TokM ts v → TokM (.below :: ts) v
  | belowN {ts v} (w : Text) : w ≠ [] → 10 ∉ w → TokM ts v → TokM (.below :: ts) (47 :: w ++ v)
  | all0 {ts v} : TokM ts v → TokM (.all :: ts) v
  | allN {ts v} (w : Text) : w ≠ [] → 10 ∉ w → TokM ts v → TokM (.all :: ts) (w ++ v)

theorem isSome_firstSome (k : Nat → Option St) : ∀ (l : List Nat), (firstSome k l).isSome = true ↔ ∃ j ∈ l, (k j).isSome = true
  | [] => by simp [firstSome]
  | x :: xs => by
    simp only [firstSome, List.mem_cons]
    cases hx : k x with
    | some r => simp [hx]
    | none =>
      simp only [Option.orElse_none, isSome_firstSome k xs]
      constructor
      · rintro ⟨j, hj, h⟩; exact ⟨j, Or.inr hj, h⟩
      · rintro ⟨j, hj | hj, h⟩
        · subst hj; simp [hx] at h
        · exact ⟨j, hj, h⟩

theorem isSome_orElse {α} (a : Option α) (f : Unit → Option α) : (a.orElse f).isSome = true ↔ a.isSome = true ∨ (f ()).isSome = true := by
  cases a <;> simp

/-- the subject has no newline -/
def NoNL (s : Array Nat) : Prop := ∀ i : Nat, s[i]? ≠ some 10

/-- the run of non-newline characters from `q` reaches the end of a newline-free subject -/
theorem runP_nl {s : Array Nat} (h : NoNL s) : ∀ (f q : Nat), s.size - q ≤ f → runP s (fun d => d != 10) f q = s.size - q
  | 0, q, hf => by simp [runP]; omega
  | f + 1, q, hf => by
    simp only [runP]
    by_cases hq : q < s.size
    · have hc : s[q]? = some s[q] := by simp [hq]
      have hne : (s[q] != 10) = true := by
        simp only [bne_iff_ne, ne_eq]
        intro e; exact h q (by rw [hc, e])
      simp only [hc, hne, if_true]
      rw [runP_nl h f (q + 1) (by omega)]; omega
    · have : s[q]? = none := by simp; omega
      simp only [this]; omega

/-- what the tail `(?:/.*)?$` accepts at `p` in a newline-free subject: the end, or a "/" -/
theorem tail_acc {s : Array Nat} (h : NoNL s) (p : Nat) (hp : p ≤ s.size) (caps) :
    (m s Gen.Pat.mozpath_frag_tail ⟨p, caps⟩ some).isSome = true ↔ p = s.size ∨ s[p]? = some 47 := by
  have hk : ∀ (j : Nat) (c : List (Nat × Nat × Nat)), j ≤ s.size →
      ((m s (Re.eol false) ⟨j, c⟩ some).isSome = true ↔ j = s.size) := by
    intro j c hj
    simp only [m]
    by_cases e : j = s.size
    · simp [e]
    · have h10 : (s[j]? == some 10) = false := by
        have := h j
        cases hh : s[j]? with
        | none => rfl
        | some d => simp; intro e2; exact this (by rw [hh, e2])
      simp [e, h10]
  simp only [Gen.Pat.mozpath_frag_tail]
  have h1 : ∀ (a b : Re) (st : St) (k : K), m s (.seq a b) st k = m s a st (fun st' => m s b st' k) := by
    intro a b st k; simp only [m]
  have h2 : ∀ (a b : Re) (st : St) (k : K), m s (.alt a b) st k = (m s a st k).orElse (fun _ => m s b st k) := by
    intro a b st k; simp only [m]
  rw [h1, h2, isSome_orElse, h1]
  have h3 : ∀ (st : St) (k : K), m s .eps st k = k st := by intro st k; simp only [m]
  rw [h3, hk p caps hp]
  have h4 : ∀ (c : Nat) (st : St) (k : K), m s (.lit c) st k = if s[st.pos]? == some c then k { st with pos := st.pos + 1 } else none := by
    intro c st k; simp only [m]
  rw [h4]
  by_cases h47 : s[p]? = some 47
  · have hlt := getElem?_some_lt h47
    simp only [h47, beq_self_eq_true, if_true, or_true, iff_true]
    left
    have hm : m s (Re.rep 0 none true (Re.any false)) ⟨p + 1, caps⟩ (fun st' => m s (Re.eol false) st' some) =
        firstSome (fun j => m s (Re.eol false) ⟨j, caps⟩ some)
          (downFrom (p + 1) (runP s (fun d => d != 10) (s.size + 2 - (p + 1)) (p + 1))) := by
      simp only [m]
      have hle := runP_le s (fun d => d != 10) (s.size + 2 - (p + 1)) (p + 1)
      exact star_greedy_one s _ _ (oneChar_any s) caps _ _ (p + 1) (by omega)
    rw [hm, isSome_firstSome]
    refine ⟨s.size, ?_, (hk s.size caps (Nat.le_refl _)).mpr rfl⟩
    rw [mem_downFrom, runP_nl h _ _ (by omega)]
    omega
  · have : (s[p]? == some 47) = false := by simpa using h47
    simp [this, h47]

/-- the translated token list, followed by the tail, accepts from `p` -/
def Acc (s : Array Nat) (ts : List MTok) (p : Nat) (caps : List (Nat × Nat × Nat)) : Prop :=
  (m s (seqOf (mozItems ts ++ [Gen.Pat.mozpath_frag_tail])) ⟨p, caps⟩ some).isSome = true

/-- the glob relation holds for a text found at `p`, and after it the subject ends or goes on with "/" -/
def Spec (s : Array Nat) (ts : List MTok) (p : Nat) : Prop :=
  ∃ pre, TokM ts pre ∧ TextAt s p pre ∧ (p + pre.length = s.size ∨ s[p + pre.length]? = some 47)

theorem mozItems_cons (t : MTok) (ts : List MTok) : mozItems (t :: ts) = t.items ++ mozItems ts := by
  simp [mozItems]

theorem textAt_len {s : Array Nat} {p : Nat} {t : Text} (h : TextAt s p t) (hp : p ≤ s.size) : p + t.length ≤ s.size := by
  by_cases h0 : t.length = 0
  · omega
  · have := getElem?_some_lt (textAt_get h (q := t.length - 1) (by omega))
    omega

theorem nl_of_textAt {s : Array Nat} (h : NoNL s) {p : Nat} {t : Text} (ht : TextAt s p t) : 10 ∉ t := by
  intro hm
  obtain ⟨i, hi⟩ := List.mem_iff_getElem?.mp hm
  have hlt : i < t.length := by
    by_cases hlt : i < t.length
    · exact hlt
    · rw [List.getElem?_eq_none (by omega)] at hi; cases hi
  have := ht i hlt
  rw [hi] at this
  exact h (p + i) this

theorem acc_iff (s : Array Nat) (h : NoNL s) : ∀ (ts : List MTok) (p : Nat) (caps : List (Nat × Nat × Nat)), p ≤ s.size →
    (Acc s ts p caps ↔ Spec s ts p)
  | [], p, caps, hp => by
    unfold Acc Spec
    simp only [mozItems, List.flatMap_nil, List.nil_append, seqOf]
    rw [tail_acc h p hp]
    constructor
    · intro hh
      exact ⟨[], TokM.nil, by intro j hj; simp at hj, by simpa using hh⟩
    · rintro ⟨pre, hm, _, hh⟩
      cases hm
      simpa using hh
  | .chr c :: ts, p, caps, hp => by
    have ih := acc_iff s h ts
    unfold Acc Spec at *
    rw [mozItems_cons, List.append_assoc]
    simp only [MTok.items, List.cons_append, List.nil_append]
    rw [m_seqOf_cons]
    simp only [m]
    constructor
    · intro hh
      split at hh
      · rename_i hc
        have hc' : s[p]? = some c := by simpa using hc
        have hlt := getElem?_some_lt hc'
        obtain ⟨pre, h1, h2, h3⟩ := (ih (p + 1) caps (by omega)).mp hh
        refine ⟨c :: pre, TokM.chr h1, TextAt.cons hc' h2, ?_⟩
        simp only [List.length_cons]
        rcases h3 with h3 | h3
        · left; omega
        · right; rw [← h3]; congr 1; omega
      · simp at hh
    · rintro ⟨pre, h1, h2, h3⟩
      cases h1 with
      | chr h1' =>
        rename_i v
        obtain ⟨hc, htl⟩ := h2.tail
        have hlt := getElem?_some_lt hc
        simp only [hc, beq_self_eq_true, if_true]
        apply (ih (p + 1) caps (by omega)).mpr
        refine ⟨v, h1', htl, ?_⟩
        simp only [List.length_cons] at h3
        rcases h3 with h3 | h3
        · left; omega
        · right; rw [← h3]; congr 1; omega
  | .star :: ts, p, caps, hp => by
    have ih := acc_iff s h ts
    unfold Acc Spec at *
    rw [mozItems_cons, List.append_assoc]
    simp only [MTok.items, List.cons_append, List.nil_append, Gen.Pat.mozpath_frag_star]
    rw [m_seqOf_cons]
    have hm : ∀ (k : K), m s (Re.rep 0 none true (Re.notLit 47)) ⟨p, caps⟩ k =
        firstSome (fun j => k ⟨j, caps⟩) (downFrom p (runP s (fun d => d != 47) (s.size + 2 - p) p)) := by
      intro k
      simp only [m]
      have hle := runP_le s (fun d => d != 47) (s.size + 2 - p) p
      exact star_greedy_one s _ _ (oneChar_notLit s 47) caps _ _ p (by omega)
    rw [hm, isSome_firstSome]
    have hle := runP_le s (fun d => d != 47) (s.size + 2 - p) p
    constructor
    · rintro ⟨j, hj, hacc⟩
      obtain ⟨hj1, hj2⟩ := mem_downFrom.mp hj
      obtain ⟨pre, h1, h2, h3⟩ := (ih j caps (by omega)).mp hacc
      obtain ⟨hta, hlen⟩ := textAt_slice (s := s) (a := p) (b := j) hj1 (by omega)
      refine ⟨slice s p j ++ pre, TokM.star _ ?_ h1, TextAt.append hta (by rw [hlen]; simpa [show p + (j - p) = j by omega] using h2), ?_⟩
      · intro hmem
        obtain ⟨i, hi1, hi2, hi3⟩ := mem_slice hmem
        obtain ⟨c, hc, hpc⟩ := runP_all s (fun d => d != 47) (s.size + 2 - p) p (i - p) (by omega)
        rw [show p + (i - p) = i by omega, hi3] at hc
        simp only [Option.some.injEq] at hc
        subst hc
        simp at hpc
      · simp only [List.length_append, hlen]
        rw [show p + (j - p + pre.length) = j + pre.length by omega]
        exact h3
    · rintro ⟨pre, h1, h2, h3⟩
      cases h1 with
      | star w hw h1' =>
        rename_i v
        obtain ⟨ha, hb⟩ := h2.split
        have hwl := textAt_len ha hp
        refine ⟨p + w.length, ?_, ?_⟩
        · rw [mem_downFrom]
          refine ⟨by omega, ?_⟩
          have := runP_ge s (fun d => d != 47) (s.size + 2 - p) p w.length (by omega) (by
            intro q hq
            refine ⟨w[q], textAt_get ha hq, ?_⟩
            have : w[q] ∈ w := List.getElem_mem hq
            simp only [bne_iff_ne, ne_eq]
            intro e; rw [e] at this; exact hw this)
          omega
        · apply (ih (p + w.length) caps hwl).mpr
          refine ⟨v, h1', hb, ?_⟩
          simp only [List.length_append] at h3
          rw [Nat.add_assoc]; exact h3
  | .dirs :: ts, p, caps, hp => by
    have ih := acc_iff s h ts
    unfold Acc Spec at *
    rw [mozItems_cons, List.append_assoc]
    simp only [MTok.items, List.cons_append, List.nil_append, Gen.Pat.mozpath_frag_anyplus, seqOf]
    rw [m_seqOf_cons]
    have h2 : ∀ (a b : Re) (st : St) (k : K), m s (.alt a b) st k = (m s a st k).orElse (fun _ => m s b st k) := by
      intro a b st k; simp only [m]
    have h1 : ∀ (a b : Re) (st : St) (k : K), m s (.seq a b) st k = m s a st (fun st' => m s b st' k) := by
      intro a b st k; simp only [m]
    have h3 : ∀ (st : St) (k : K), m s .eps st k = k st := by intro st k; simp only [m]
    rw [h2, isSome_orElse, h1, h3, m_plus s _ _ (oneChar_any s) p hp]
    have hrun : runP s (fun d => d != 10) (s.size + 1 - p) (p + 1) = s.size - (p + 1) := runP_nl h _ _ (by omega)
    constructor
    · rintro (hh | hh)
      · cases hc : s[p]? with
        | none => simp [hc] at hh
        | some c0 =>
          simp only [hc] at hh
          split at hh
          · have hlt := getElem?_some_lt hc
            rw [isSome_firstSome] at hh
            obtain ⟨j, hj, hacc⟩ := hh
            obtain ⟨hj1, hj2⟩ := mem_downFrom.mp hj
            rw [hrun] at hj2
            simp only [m] at hacc
            split at hacc
            · rename_i h47
              have h47' : s[j]? = some 47 := by simpa using h47
              have hjlt := getElem?_some_lt h47'
              obtain ⟨pre, a1, a2, a3⟩ := (ih (j + 1) caps (by omega)).mp hacc
              obtain ⟨hta, hlen⟩ := textAt_slice (s := s) (a := p) (b := j) (by omega) (by omega)
              refine ⟨slice s p j ++ 47 :: pre, TokM.dirsN _ ?_ (nl_of_textAt h hta) a1, ?_, ?_⟩
              · intro e
                have := congrArg List.length e
                rw [hlen] at this; simp at this; omega
              · apply TextAt.append hta
                rw [hlen, show p + (j - p) = j by omega]
                exact TextAt.cons h47' a2
              · simp only [List.length_append, List.length_cons, hlen]
                rw [show p + (j - p + (pre.length + 1)) = j + 1 + pre.length by omega]
                exact a3
            · simp at hacc
          · simp at hh
      · obtain ⟨pre, a1, a2, a3⟩ := (ih p caps hp).mp hh
        exact ⟨pre, TokM.dirs0 a1, a2, a3⟩
    · rintro ⟨pre, a1, a2, a3⟩
      cases a1 with
      | dirs0 a1' => right; exact (ih p caps hp).mpr ⟨pre, a1', a2, a3⟩
      | dirsN w hw hnl a1' =>
        rename_i v
        left
        obtain ⟨ha, hb⟩ := a2.split
        obtain ⟨h47, hv⟩ := hb.tail
        have hjlt := getElem?_some_lt h47
        have hwpos : 0 < w.length := List.length_pos_iff.mpr hw
        have hc0 := textAt_get ha (q := 0) hwpos
        simp only [Nat.add_zero] at hc0
        have hne10 : (w[0] != 10) = true := by
          simp only [bne_iff_ne, ne_eq]
          intro e; apply hnl; rw [← e]; exact List.getElem_mem hwpos
        simp only [hc0, hne10, if_true]
        rw [isSome_firstSome]
        refine ⟨p + w.length, ?_, ?_⟩
        · rw [mem_downFrom, hrun]; omega
        · simp only [m, h47, beq_self_eq_true, if_true]
          apply (ih (p + w.length + 1) caps (by omega)).mpr
          refine ⟨v, a1', hv, ?_⟩
          simp only [List.length_append, List.length_cons] at a3
          rw [show p + w.length + 1 + v.length = p + (w.length + (v.length + 1)) by omega]
          exact a3
  | .below :: ts, p, caps, hp => by
    have ih := acc_iff s h ts
    unfold Acc Spec at *
    rw [mozItems_cons, List.append_assoc]
    simp only [MTok.items, List.cons_append, List.nil_append, Gen.Pat.mozpath_frag_anyplus, seqOf]
    rw [m_seqOf_cons]
    have h2 : ∀ (a b : Re) (st : St) (k : K), m s (.alt a b) st k = (m s a st k).orElse (fun _ => m s b st k) := by
      intro a b st k; simp only [m]
    have h1 : ∀ (a b : Re) (st : St) (k : K), m s (.seq a b) st k = m s a st (fun st' => m s b st' k) := by
      intro a b st k; simp only [m]
    have h3 : ∀ (st : St) (k : K), m s .eps st k = k st := by intro st k; simp only [m]
    have h4 : ∀ (c : Nat) (st : St) (k : K), m s (.lit c) st k = if s[st.pos]? == some c then k { st with pos := st.pos + 1 } else none := by
      intro c st k; simp only [m]
    rw [h2, isSome_orElse, h1, h3, h4]
    constructor
    · rintro (hh | hh)
      · split at hh
        · rename_i h47
          have h47' : s[p]? = some 47 := by simpa using h47
          have hlt := getElem?_some_lt h47'
          rw [m_plus s _ _ (oneChar_any s) (p + 1) (by omega)] at hh
          have hrun : runP s (fun d => d != 10) (s.size + 1 - (p + 1)) (p + 1 + 1) = s.size - (p + 1 + 1) := runP_nl h _ _ (by omega)
          cases hc : s[p + 1]? with
          | none => simp [hc] at hh
          | some c0 =>
            simp only [hc] at hh
            split at hh
            · have hlt2 := getElem?_some_lt hc
              rw [isSome_firstSome] at hh
              obtain ⟨j, hj, hacc⟩ := hh
              obtain ⟨hj1, hj2⟩ := mem_downFrom.mp hj
              rw [hrun] at hj2
              obtain ⟨pre, a1, a2, a3⟩ := (ih j caps (by omega)).mp hacc
              obtain ⟨hta, hlen⟩ := textAt_slice (s := s) (a := p + 1) (b := j) (by omega) (by omega)
              refine ⟨47 :: (slice s (p + 1) j ++ pre), ?_, ?_, ?_⟩
              · rw [← List.cons_append]
                have := TokM.belowN (ts := ts) (v := pre) (slice s (p + 1) j) (by
                  intro e
                  have := congrArg List.length e
                  rw [hlen] at this; simp at this; omega) (nl_of_textAt h hta) a1
                simpa using this
              · apply TextAt.cons h47'
                apply TextAt.append hta
                rw [hlen, show p + 1 + (j - (p + 1)) = j by omega]
                exact a2
              · simp only [List.length_cons, List.length_append, hlen]
                rw [show p + (j - (p + 1) + pre.length + 1) = j + pre.length by omega]
                exact a3
            · simp at hh
        · simp at hh
      · obtain ⟨pre, a1, a2, a3⟩ := (ih p caps hp).mp hh
        exact ⟨pre, TokM.below0 a1, a2, a3⟩
    · rintro ⟨pre, a1, a2, a3⟩
      cases a1 with
      | below0 a1' => right; exact (ih p caps hp).mpr ⟨pre, a1', a2, a3⟩
      | belowN w hw hnl a1' =>
        rename_i v
        left
        obtain ⟨h47, hrest⟩ := a2.tail
        obtain ⟨ha, hb⟩ := hrest.split
        have hlt := getElem?_some_lt h47
        have hwl := textAt_len ha (by omega)
        have hwpos : 0 < w.length := List.length_pos_iff.mpr hw
        have hc0 := textAt_get ha (q := 0) hwpos
        simp only [Nat.add_zero] at hc0
        have hne10 : (w[0] != 10) = true := by
          simp only [bne_iff_ne, ne_eq]
          intro e; apply hnl; rw [← e]; exact List.getElem_mem hwpos
        simp only [h47, beq_self_eq_true, if_true]
        rw [m_plus s _ _ (oneChar_any s) (p + 1) (by omega)]
        have hrun : runP s (fun d => d != 10) (s.size + 1 - (p + 1)) (p + 1 + 1) = s.size - (p + 1 + 1) := runP_nl h _ _ (by omega)
        simp only [hc0, hne10, if_true]
        rw [isSome_firstSome]
        refine ⟨p + 1 + w.length, ?_, ?_⟩
        · rw [mem_downFrom, hrun]; omega
        · apply (ih (p + 1 + w.length) caps hwl).mpr
          refine ⟨v, a1', hb, ?_⟩
          simp only [List.length_cons, List.length_append] at a3
          rw [show p + 1 + w.length + v.length = p + (w.length + 1 + v.length) by omega]
          exact a3
  | .all :: ts, p, caps, hp => by
    have ih := acc_iff s h ts
    unfold Acc Spec at *
    rw [mozItems_cons, List.append_assoc]
    simp only [MTok.items, List.cons_append, List.nil_append, Gen.Pat.mozpath_frag_anyplus]
    rw [m_seqOf_cons]
    have h2 : ∀ (a b : Re) (st : St) (k : K), m s (.alt a b) st k = (m s a st k).orElse (fun _ => m s b st k) := by
      intro a b st k; simp only [m]
    have h3 : ∀ (st : St) (k : K), m s .eps st k = k st := by intro st k; simp only [m]
    rw [h2, isSome_orElse, h3, m_plus s _ _ (oneChar_any s) p hp]
    have hrun : runP s (fun d => d != 10) (s.size + 1 - p) (p + 1) = s.size - (p + 1) := runP_nl h _ _ (by omega)
    constructor
    · rintro (hh | hh)
      · cases hc : s[p]? with
        | none => simp [hc] at hh
        | some c0 =>
          simp only [hc] at hh
          split at hh
          · have hlt := getElem?_some_lt hc
            rw [isSome_firstSome] at hh
            obtain ⟨j, hj, hacc⟩ := hh
            obtain ⟨hj1, hj2⟩ := mem_downFrom.mp hj
            rw [hrun] at hj2
            obtain ⟨pre, a1, a2, a3⟩ := (ih j caps (by omega)).mp hacc
            obtain ⟨hta, hlen⟩ := textAt_slice (s := s) (a := p) (b := j) (by omega) (by omega)
            refine ⟨slice s p j ++ pre, TokM.allN _ ?_ (nl_of_textAt h hta) a1, ?_, ?_⟩
            · intro e
              have := congrArg List.length e
              rw [hlen] at this; simp at this; omega
            · apply TextAt.append hta
              rw [hlen, show p + (j - p) = j by omega]
              exact a2
            · simp only [List.length_append, hlen]
              rw [show p + (j - p + pre.length) = j + pre.length by omega]
              exact a3
          · simp at hh
      · obtain ⟨pre, a1, a2, a3⟩ := (ih p caps hp).mp hh
        exact ⟨pre, TokM.all0 a1, a2, a3⟩
    · rintro ⟨pre, a1, a2, a3⟩
      cases a1 with
      | all0 a1' => right; exact (ih p caps hp).mpr ⟨pre, a1', a2, a3⟩
      | allN w hw hnl a1' =>
        rename_i v
        left
        obtain ⟨ha, hb⟩ := a2.split
        have hwl := textAt_len ha hp
        have hwpos : 0 < w.length := List.length_pos_iff.mpr hw
        have hc0 := textAt_get ha (q := 0) hwpos
        simp only [Nat.add_zero] at hc0
        have hne10 : (w[0] != 10) = true := by
          simp only [bne_iff_ne, ne_eq]
          intro e; apply hnl; rw [← e]; exact List.getElem_mem hwpos
        simp only [hc0, hne10, if_true]
        rw [isSome_firstSome]
        refine ⟨p + w.length, ?_, ?_⟩
        · rw [mem_downFrom, hrun]; omega
        · apply (ih (p + w.length) caps hwl).mpr
          refine ⟨v, a1', hb, ?_⟩
          simp only [List.length_append] at a3
          rw [Nat.add_assoc]; exact a3


theorem noNL_of {path : Text} (h : 10 ∉ path) : NoNL path.toArray := by
  intro i hi
  apply h
  have : path[i]? = some 10 := by simpa using hi
  exact List.mem_of_getElem? this

/-- the text-level reading of `Spec` at position 0 -/
theorem spec_zero (path : Text) (ts : List MTok) :
    Spec path.toArray ts 0 ↔ ∃ pre, TokM ts pre ∧ (path = pre ∨ ∃ rest, path = pre ++ 47 :: rest) := by
  unfold Spec
  constructor
  · rintro ⟨pre, h1, h2, h3⟩
    refine ⟨pre, h1, ?_⟩
    obtain ⟨t, ht⟩ := h2.prefix
    simp only [Nat.zero_add] at h3
    have ht' : path = pre ++ t := by simpa using ht.symm
    rcases h3 with h3 | h3
    · left
      have : t = [] := by
        have := congrArg List.length ht'
        simp at h3 this
        cases t with
        | nil => rfl
        | cons x xs => simp at this; omega
      subst this; simpa using ht'
    · right
      subst ht'
      simp only [List.getElem?_toArray] at h3
      rw [List.getElem?_append_right (Nat.le_refl _)] at h3
      simp only [Nat.sub_self] at h3
      cases t with
      | nil => simp at h3
      | cons x xs =>
        simp at h3; subst h3
        exact ⟨xs, rfl⟩
  · rintro ⟨pre, h1, h2⟩
    refine ⟨pre, h1, ?_, ?_⟩
    · rcases h2 with rfl | ⟨rest, rfl⟩
      · intro j _; simp
      · intro j hj; simp [List.getElem?_append_left hj]
    · rcases h2 with rfl | ⟨rest, rfl⟩
      · left; simp
      · right; simp

/-- **`mozpath.match` is sound and complete for the glob relation**, for every pattern text and every newline-free path:
    it never raises, and it answers `True` exactly when the pattern is empty, or the token list of the pattern
    (`mozLex`) matches the path or one of its ancestor directories (`path = pre` or `path = pre + "/" + rest`). -/
theorem mozMatch_iff (path pat : Text) (hnl : 10 ∉ path) :
    ∃ b, mozMatch path pat = .ok b ∧
      (b = true ↔ pat = [] ∨ ∃ pre, TokM (mozLex pat) pre ∧ (path = pre ∨ ∃ rest, path = pre ++ 47 :: rest)) := by
  unfold mozMatch
  by_cases hp : pat = []
  · subst hp; exact ⟨true, rfl, by simp⟩
  · have hpe : pat.isEmpty = false := by cases pat <;> simp_all
    simp only [hpe, Bool.false_eq_true, if_false, mozRegex_lex, bind, Except.bind, pure, Except.pure]
    refine ⟨_, rfl, ?_⟩
    have := acc_iff path.toArray (noNL_of hnl) (mozLex pat) 0 [] (Nat.zero_le _)
    unfold Acc at this
    unfold matchAt
    rw [this, spec_zero]
    simp [hp]

end C12M

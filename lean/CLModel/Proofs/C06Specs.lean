/- C06 helper lemmas, part 6: `getPrintfSpecs` on the token list of a value (closed form). -/
import CLModel.Checks.Properties
import CLModel.Checks.PrintfToks
namespace PropCk
open Rx

/-- `printfStep` on an abstract token -/
def stepA (st : PState) (p : Nat) : ATok → Except PErr PState
  | .lone => .error (.printf sFoundSingle p)
  | .pct => .ok st
  | .arg num spec =>
    if (st.hasNumber && num.isNone) || (!st.hasNumber && !st.specs.isEmpty && num.isSome) then
      .error (.printf sMixed p)
    else
      match num with
      | some n =>
        if n - 1 ≥ st.specs.length then
          .ok ⟨true, st.specs ++ List.replicate (n - 1 - st.specs.length) none ++ [some spec]⟩
        else .ok ⟨true, st.specs.set (n - 1) (some spec)⟩
      | none => .ok ⟨false, st.specs ++ [some spec]⟩

def foldA : List (Nat × ATok) → PState → Except PErr PState
  | [], st => .ok st
  | (p, t) :: ts, st =>
    match stepA st p t with
    | .error e => .error e
    | .ok st' => foldA ts st'

theorem printfStep_eq_stepA (s : Array Nat) (st : PState) (m : Nat × St) (t : ATok)
    (h : atokOf s m = some t) : printfStep s st m = stepA st m.1 t := by
  unfold atokOf at h
  unfold printfStep
  simp only at h ⊢
  split at h
  · rename_i hg
    cases h
    simp [hg, stepA]
  · rename_i hg
    split at h
    · rename_i hp
      cases h
      simp [hg, hp, stepA]
    · rename_i hp
      simp only [hg, hp, Bool.false_eq_true, if_false]
      split at h
      · rename_i c cs hs
        split at h
        · rename_i hn
          cases h
          simp [hn, hs, stepA]
        · rename_i nt hn
          split at h
          · rename_i n hi
            split at h
            · cases h
              simp [hn, hs, hi, stepA]
            · cases h
          · cases h
      · cases h

theorem printfFold_eq_foldA (s : Array Nat) :
    ∀ (ms : List (Nat × St)) (ts : List (Nat × ATok)) (st : PState),
      mapOpt (fun m => (atokOf s m).map (fun t => (m.1, t))) ms = some ts →
      printfFold s ms st = foldA ts st := by
  intro ms
  induction ms with
  | nil => intro ts st h; simp [mapOpt] at h; subst h; rfl
  | cons m ms ih =>
    intro ts st h
    simp only [mapOpt] at h
    cases ha : atokOf s m with
    | none => simp [ha] at h
    | some t =>
      simp only [ha, Option.map_some] at h
      cases hr : mapOpt (fun m => (atokOf s m).map (fun t => (m.1, t))) ms with
      | none => simp [hr] at h
      | some ts' =>
        simp only [hr] at h
        cases h
        simp only [printfFold, foldA, printfStep_eq_stepA s st m t ha]
        cases stepA st m.1 t with
        | error e => rfl
        | ok st' => exact ih ts' st' hr

/-! ### the closed form -/

/-- the argument tokens `(number, type)` in order -/
def argsOf : List (Nat × ATok) → List (Option Nat × Text)
  | [] => []
  | (_, .arg num spec) :: ts => (num, spec) :: argsOf ts
  | (_, _) :: ts => argsOf ts

/-- the first problem met when reading left to right: a lone `%`, or an argument whose style
    (ordered / unordered) differs from the arguments before it.  `mode` = style seen so far. -/
def scanErr : List (Nat × ATok) → Option Bool → Option PErr
  | [], _ => none
  | (p, .lone) :: _, _ => some (.printf sFoundSingle p)
  | (_, .pct) :: ts, mode => scanErr ts mode
  | (p, .arg num _) :: ts, mode =>
    if mode = some (!num.isSome) then some (.printf sMixed p) else scanErr ts (some num.isSome)

/-- highest argument number -/
def maxNum (as : List (Option Nat × Text)) : Nat := as.foldl (fun m a => max m (a.1.getD 0)) 0

/-- type of the last argument numbered `p + 1` -/
def lastSpecAt (as : List (Option Nat × Text)) (p : Nat) : Option Text :=
  as.foldl (fun acc a => if a.1.getD 0 - 1 = p then some a.2 else acc) none

/-- positional argument types of ordered arguments: position `p` holds the type of the last
    `%{p+1}$…` token, `none` if there is no such token -/
def positional (as : List (Option Nat × Text)) : List (Option Text) :=
  (List.range (maxNum as)).map (lastSpecAt as)

/-- **closed form of `getPrintfSpecs`** on a token list -/
def specsSpec (ts : List (Nat × ATok)) : Except PErr (List (Option Text)) :=
  match scanErr ts none with
  | some e => .error e
  | none =>
    match argsOf ts with
    | [] => .ok []
    | (none, sp) :: as => .ok (((none, sp) :: as).map (fun a => some a.2))
    | (some n, sp) :: as =>
      if (positional ((some n, sp) :: as)).all Option.isSome then .ok (positional ((some n, sp) :: as))
      else .error (.printf sOrderedMissing 0)

/-- all arguments have the style `b` and ordered ones are numbered from 1 -/
def Uniform (b : Bool) (as : List (Option Nat × Text)) : Prop :=
  ∀ a ∈ as, a.1.isSome = b ∧ a.2 ≠ [] ∧ (∀ n, a.1 = some n → n ≥ 1)

/-- state of the loop after the arguments `as` (all of one style) -/
def absState (as : List (Option Nat × Text)) : PState :=
  match as with
  | [] => ⟨false, []⟩
  | (none, _) :: _ => ⟨false, as.map (fun a => some a.2)⟩
  | (some _, _) :: _ => ⟨true, positional as⟩

def modeOf (as : List (Option Nat × Text)) : Option Bool :=
  match as with
  | [] => none
  | a :: _ => some a.1.isSome

theorem maxNum_append (as : List (Option Nat × Text)) (a : Option Nat × Text) :
    maxNum (as ++ [a]) = max (maxNum as) (a.1.getD 0) := by
  simp [maxNum, List.foldl_append]

theorem lastSpecAt_append (as : List (Option Nat × Text)) (a : Option Nat × Text) (p : Nat) :
    lastSpecAt (as ++ [a]) p = if a.1.getD 0 - 1 = p then some a.2 else lastSpecAt as p := by
  simp [lastSpecAt, List.foldl_append]

theorem foldl_max_ge (as : List (Option Nat × Text)) :
    ∀ m, m ≤ as.foldl (fun m a => max m (a.1.getD 0)) m ∧
      ∀ a ∈ as, a.1.getD 0 ≤ as.foldl (fun m a => max m (a.1.getD 0)) m := by
  induction as with
  | nil => intro m; simp
  | cons x xs ih =>
    intro m
    simp only [List.foldl_cons]
    obtain ⟨h1, h2⟩ := ih (max m (x.1.getD 0))
    refine ⟨by omega, ?_⟩
    intro a ha
    rcases List.mem_cons.mp ha with rfl | ha
    · omega
    · exact h2 a ha

theorem le_maxNum {as : List (Option Nat × Text)} {a : Option Nat × Text} (h : a ∈ as) :
    a.1.getD 0 ≤ maxNum as := (foldl_max_ge as 0).2 a h

theorem foldl_last_none (as : List (Option Nat × Text)) (p : Nat) (acc : Option Text)
    (h : ∀ a ∈ as, a.1.getD 0 - 1 ≠ p) :
    as.foldl (fun acc a => if a.1.getD 0 - 1 = p then some a.2 else acc) acc = acc := by
  induction as generalizing acc with
  | nil => rfl
  | cons x xs ih =>
    simp only [List.foldl_cons, h x (by simp), if_false]
    exact ih acc (fun a ha => h a (by simp [ha]))

theorem lastSpecAt_none_of_ge {as : List (Option Nat × Text)} {p : Nat} (h : maxNum as ≤ p)
    (hu : ∀ a ∈ as, a.1.getD 0 ≥ 1) : lastSpecAt as p = none := by
  apply foldl_last_none
  intro a ha
  have := le_maxNum ha
  have := hu a ha
  omega

theorem positional_length (as : List (Option Nat × Text)) : (positional as).length = maxNum as := by
  simp [positional]

theorem positional_get (as : List (Option Nat × Text)) (p : Nat) :
    (positional as)[p]? = if p < maxNum as then some (lastSpecAt as p) else none := by
  simp only [positional, List.getElem?_map, List.getElem?_range]
  split <;> simp [*]

end PropCk

namespace PropCk

/-- well-formed arguments of one style -/
def Uni (as : List (Option Nat × Text)) : Prop :=
  (∀ a ∈ as, a.2 ≠ [] ∧ ∀ n, a.1 = some n → n ≥ 1) ∧
  (∀ a ∈ as, ∀ a' ∈ as, a.1.isSome = a'.1.isSome)

/-- well-formed tokens: types are non-empty, numbers start at 1 -/
def WFToks (ts : List (Nat × ATok)) : Prop :=
  ∀ p num spec, (p, ATok.arg num spec) ∈ ts → spec ≠ [] ∧ ∀ n, num = some n → n ≥ 1

theorem uni_getD_ge {as : List (Option Nat × Text)} (hu : Uni as) {n0 : Nat} {sp0 : Text}
    {rest : List (Option Nat × Text)} (hh : as = (some n0, sp0) :: rest) :
    ∀ a ∈ as, a.1.getD 0 ≥ 1 := by
  intro a ha
  have hs := hu.2 a ha (some n0, sp0) (by rw [hh]; simp)
  simp only [Option.isSome_some] at hs
  obtain ⟨n, hn⟩ := Option.isSome_iff_exists.mp hs
  have := (hu.1 a ha).2 n hn
  rw [hn]; simpa using this

theorem positional_snoc (as : List (Option Nat × Text)) (n : Nat) (spec : Text) (hn : n ≥ 1)
    (hge : ∀ a ∈ as, a.1.getD 0 ≥ 1) :
    positional (as ++ [(some n, spec)]) =
      if n - 1 ≥ (positional as).length then
        positional as ++ List.replicate (n - 1 - (positional as).length) none ++ [some spec]
      else (positional as).set (n - 1) (some spec) := by
  apply List.ext_getElem?
  intro p
  rw [positional_get, maxNum_append, lastSpecAt_append, positional_length]
  simp only [Option.getD_some]
  by_cases hc : n - 1 ≥ maxNum as
  · simp only [hc, if_true]
    have hmax : max (maxNum as) n = n := by omega
    rw [hmax]
    by_cases h1 : p < maxNum as
    · have : p < n := by omega
      have hne : ¬ (n - 1 = p) := by omega
      rw [List.append_assoc, List.getElem?_append_left (by rw [positional_length]; exact h1)]
      simp [this, hne, positional_get, h1]
    · by_cases h2 : p < n - 1
      · have : p < n := by omega
        have hne : ¬ (n - 1 = p) := by omega
        rw [List.getElem?_append_left (by simp [positional_length]; omega),
          List.getElem?_append_right (by rw [positional_length]; omega)]
        simp only [this, hne, if_true, if_false, positional_length]
        rw [List.getElem?_replicate]
        have : p - maxNum as < n - 1 - maxNum as := by omega
        simp [this, lastSpecAt_none_of_ge (show maxNum as ≤ p by omega) hge]
      · by_cases h3 : p = n - 1
        · subst h3
          have : n - 1 < n := by omega
          rw [List.getElem?_append_right (by simp [positional_length]; omega)]
          have e : n - 1 - (maxNum as + (n - 1 - maxNum as)) = 0 := by omega
          simp [this, positional_length, e]
        · have : ¬ p < n := by omega
          rw [List.getElem?_append_right (by simp [positional_length]; omega)]
          have e : p - (maxNum as + (n - 1 - maxNum as)) = (p - n) + 1 := by omega
          simp [this, positional_length, e]
  · simp only [hc, if_false]
    have hmax : max (maxNum as) n = maxNum as := by omega
    rw [hmax, List.getElem?_set]
    by_cases hp : n - 1 = p
    · subst hp
      have : n - 1 < maxNum as := by omega
      simp [this, positional_length]
    · simp [hp, positional_get]

theorem stepA_arg (as : List (Option Nat × Text)) (hu : Uni as) (p : Nat) (num : Option Nat) (spec : Text)
    (hs : spec ≠ []) (hn : ∀ n, num = some n → n ≥ 1) :
    stepA (absState as) p (.arg num spec) =
      if modeOf as = some (!num.isSome) then .error (.printf sMixed p)
      else .ok (absState (as ++ [(num, spec)])) := by
  cases as with
  | nil =>
    cases num with
    | none => simp [stepA, absState, modeOf]
    | some n =>
      have hn' := hn n rfl
      have hp := positional_snoc [] n spec hn' (by simp)
      simp only [List.nil_append, positional_length, maxNum, List.foldl_nil] at hp
      simp only [stepA, absState, modeOf, List.nil_append, List.length_nil, Nat.sub_zero]
      simp only [Bool.false_and, Bool.not_false, List.isEmpty_nil, Bool.not_true, Bool.and_false,
        Bool.or_self, Bool.false_eq_true, if_false, Nat.zero_le, ge_iff_le, if_true, reduceCtorEq]
      rw [hp]
      simp [positional, maxNum]
  | cons a rest =>
    obtain ⟨an, asp⟩ := a
    cases an with
    | none =>
      cases num with
      | none => simp [stepA, absState, modeOf]
      | some n => simp [stepA, absState, modeOf]
    | some n0 =>
      cases num with
      | none => simp [stepA, absState, modeOf]
      | some n =>
        have hn' := hn n rfl
        have hge := uni_getD_ge hu rfl
        have hp := positional_snoc ((some n0, asp) :: rest) n spec hn' hge
        simp only [stepA, absState, modeOf, Option.isSome_some, Bool.not_true, List.cons_append]
        simp only [Option.isNone_some, Bool.and_false, Bool.not_true, Bool.false_and, Bool.or_self,
          Bool.false_eq_true, if_false, Option.some.injEq]
        rw [List.cons_append] at hp
        rw [hp]
        split <;> simp [*]

theorem uni_snoc {as : List (Option Nat × Text)} (hu : Uni as) (num : Option Nat) (spec : Text)
    (hs : spec ≠ []) (hn : ∀ n, num = some n → n ≥ 1) (hm : ¬ modeOf as = some (!num.isSome)) :
    Uni (as ++ [(num, spec)]) := by
  constructor
  · intro a ha
    rcases List.mem_append.mp ha with ha | ha
    · exact hu.1 a ha
    · simp at ha; subst ha; exact ⟨hs, hn⟩
  · have hall : ∀ a ∈ as, a.1.isSome = num.isSome := by
      intro a ha
      cases as with
      | nil => simp at ha
      | cons h t =>
        have := hu.2 a ha h (by simp)
        rw [this]
        simp only [modeOf, Option.some.injEq] at hm
        cases h1 : h.1.isSome <;> cases h2 : num.isSome <;> simp_all
    intro a ha a' ha'
    rcases List.mem_append.mp ha with ha | ha <;> rcases List.mem_append.mp ha' with ha' | ha'
    · exact hu.2 a ha a' ha'
    · simp at ha'; subst ha'; exact hall a ha
    · simp at ha; subst ha; exact (hall a' ha').symm
    · simp at ha ha'; subst ha; subst ha'; rfl

theorem modeOf_snoc (as : List (Option Nat × Text)) (hu : Uni as) (num : Option Nat) (spec : Text)
    (hm : ¬ modeOf as = some (!num.isSome)) : modeOf (as ++ [(num, spec)]) = some num.isSome := by
  cases as with
  | nil => rfl
  | cons h t =>
    simp only [modeOf, List.cons_append, Option.some.injEq] at hm ⊢
    cases h1 : h.1.isSome <;> cases h2 : num.isSome <;> simp_all

/-- the fold over the tokens, started after the arguments `as`, is the closed form -/
theorem foldA_spec : ∀ (ts : List (Nat × ATok)) (as : List (Option Nat × Text)), Uni as → WFToks ts →
    foldA ts (absState as) =
      (match scanErr ts (modeOf as) with
       | some e => .error e
       | none => .ok (absState (as ++ argsOf ts))) ∧
    (scanErr ts (modeOf as) = none → Uni (as ++ argsOf ts)) := by
  intro ts
  induction ts with
  | nil => intro as hu _; simp [foldA, scanErr, argsOf, hu]
  | cons t ts ih =>
    intro as hu hwf
    obtain ⟨p, tok⟩ := t
    have hwf' : WFToks ts := fun p' n' s' h' => hwf p' n' s' (by simp [h'])
    cases tok with
    | lone => simp [foldA, stepA, scanErr]
    | pct =>
      simp only [foldA, stepA, scanErr, argsOf]
      exact ih as hu hwf'
    | arg num spec =>
      obtain ⟨hs, hn⟩ := hwf p num spec (by simp)
      simp only [foldA, scanErr, argsOf, stepA_arg as hu p num spec hs hn]
      by_cases hm : modeOf as = some (!num.isSome)
      · simp [hm]
      · simp only [hm, if_false]
        have hu' := uni_snoc hu num spec hs hn hm
        have := ih (as ++ [(num, spec)]) hu' hwf'
        rw [modeOf_snoc as hu num spec hm] at this
        simpa [List.append_assoc] using this

theorem lastSpecAt_mem {as : List (Option Nat × Text)} {p : Nat} {t : Text}
    (h : lastSpecAt as p = some t) : ∃ a ∈ as, a.2 = t := by
  have : ∀ (as : List (Option Nat × Text)) (acc : Option Text),
      as.foldl (fun acc a => if a.1.getD 0 - 1 = p then some a.2 else acc) acc = some t →
      acc = some t ∨ ∃ a ∈ as, a.2 = t := by
    intro as
    induction as with
    | nil => intro acc h; left; exact h
    | cons x xs ih =>
      intro acc h
      simp only [List.foldl_cons] at h
      rcases ih _ h with h' | ⟨a, ha, hat⟩
      · split at h'
        · right; exact ⟨x, by simp, by simpa using h'⟩
        · left; exact h'
      · right; exact ⟨a, by simp [ha], hat⟩
  rcases this as none h with h' | h'
  · cases h'
  · exact h'

theorem all_congr' {β : Type} {l : List β} {f g : β → Bool} (h : ∀ x ∈ l, f x = g x) :
    l.all f = l.all g := by
  induction l with
  | nil => rfl
  | cons x xs ih =>
    simp only [List.all_cons, h x (by simp), ih (fun y hy => h y (by simp [hy]))]

theorem all_truthy_positional (as : List (Option Nat × Text)) (hu : Uni as) :
    (positional as).all truthy = (positional as).all Option.isSome := by
  apply all_congr'
  intro x hx
  cases x with
  | none => rfl
  | some t =>
    simp only [positional, List.mem_map] at hx
    obtain ⟨p, _, hp⟩ := hx
    obtain ⟨a, ha, hat⟩ := lastSpecAt_mem hp
    have := (hu.1 a ha).1
    rw [hat] at this
    cases t with
    | nil => exact absurd rfl this
    | cons c cs => rfl

theorem mapOpt_total {β γ : Type} (f : β → Option γ) (l : List β) (h : ∀ x ∈ l, (f x).isSome = true) :
    ∃ r, mapOpt f l = some r ∧ r.length = l.length := by
  induction l with
  | nil => exact ⟨[], rfl, rfl⟩
  | cons x xs ih =>
    obtain ⟨r, hr, hl⟩ := ih (fun y hy => h y (by simp [hy]))
    have hx := h x (by simp)
    obtain ⟨y, hy⟩ := Option.isSome_iff_exists.mp hx
    exact ⟨y :: r, by simp [mapOpt, hy, hr], by simp [hl]⟩

theorem mapOpt_eq_map {β γ : Type} (f : β → Option γ) (g : β → γ) (l : List β)
    (h : ∀ x ∈ l, f x = some (g x)) : mapOpt f l = some (l.map g) := by
  induction l with
  | nil => rfl
  | cons x xs ih =>
    simp [mapOpt, h x (by simp), ih (fun y hy => h y (by simp [hy]))]

theorem mem_of_mapOpt {β γ : Type} (f : β → Option γ) :
    ∀ (l : List β) (r : List γ), mapOpt f l = some r → ∀ y ∈ r, ∃ x ∈ l, f x = some y := by
  intro l
  induction l with
  | nil => intro r h y hy; simp [mapOpt] at h; subst h; simp at hy
  | cons x xs ih =>
    intro r h y hy
    simp only [mapOpt] at h
    cases hx : f x with
    | none => simp [hx] at h
    | some v =>
      cases hr : mapOpt f xs with
      | none => simp [hx, hr] at h
      | some r' =>
        simp only [hx, hr] at h
        cases h
        rcases List.mem_cons.mp hy with rfl | hy
        · exact ⟨x, by simp, hx⟩
        · obtain ⟨x', hx', hf⟩ := ih r' hr y hy
          exact ⟨x', by simp [hx'], hf⟩

theorem atoks_wf (val : Text) (ts : List (Nat × ATok)) (h : atoks val = some ts) : WFToks ts := by
  intro p num spec hmem
  obtain ⟨m, _, hm⟩ := mem_of_mapOpt _ _ _ h _ hmem
  cases ha : atokOf val.toArray m with
  | none => simp [ha] at hm
  | some t =>
    simp only [ha, Option.map_some, Option.some.injEq, Prod.mk.injEq] at hm
    obtain ⟨_, rfl⟩ := hm
    unfold atokOf at ha
    simp only at ha
    split at ha
    · cases ha
    · split at ha
      · cases ha
      · split at ha
        · split at ha
          · cases ha; exact ⟨by simp, by intro n hn; cases hn⟩
          · split at ha
            · split at ha
              · rename_i hge
                cases ha
                exact ⟨by simp, by intro n hn; cases hn; exact hge⟩
              · cases ha
            · cases ha
        · cases ha

/-- **`getPrintfSpecs` = closed form on the tokens of the value.** -/
theorem getPrintfSpecs_eq_spec (val : Text) (ts : List (Nat × ATok)) (h : atoks val = some ts) :
    getPrintfSpecs val = specsSpec ts := by
  have hwf := atoks_wf val ts h
  have hfold := printfFold_eq_foldA val.toArray _ ts ⟨false, []⟩ h
  obtain ⟨h1, h2⟩ := foldA_spec ts [] ⟨by simp, by simp⟩ hwf
  simp only [absState, modeOf, List.nil_append] at h1 h2
  unfold getPrintfSpecs specsSpec
  simp only
  rw [hfold, h1]
  cases hs : scanErr ts none with
  | some e => rfl
  | none =>
    simp only
    have hu := h2 hs
    cases ha : argsOf ts with
    | nil => simp [absState]
    | cons a as =>
      obtain ⟨an, asp⟩ := a
      cases an with
      | none => simp [absState]
      | some n =>
        rw [ha] at hu
        simp only [absState, Bool.true_and, all_truthy_positional _ hu]
        split <;> simp_all

end PropCk

/-
C10, round 5 — the sticky `error` flag of EVERY observer (the `ObserverList` itself and each project observer)
as an invariant of the operations: `o.error = true ↔ o has counted an error`, for arbitrary filters — in
particular for filters that answer "warning" (the finding is DOWNGRADED: still counted under `errors`, still
displayed as an error, the flag is still raised) or "ignore" (not counted, flag untouched) for a notification of
category `error`.  With the invariant the exit status is the same function of the counted errors whichever flag
`CompareLocales.handle` reads (`exitVia`).

Helper lemmas only; the property theorems are in Props/C10.lean.
-/
import CLModel.Compare.Observer
import CLModel.Proofs.C10Obs
namespace C10F
open TreeM ObsM

/-- the flag of an observer says exactly that the observer has counted an error -/
def FlagIffCounted (o : Obs) : Prop := o.error = true ↔ 0 < totalErrors o.summary

/-- one event whose stats dict, if it has an `errors` entry at all, gives it a positive value -/
def EvErrPos (ev : Ev) : Prop := ErrStatsPos [ev]

theorem errStatsPos_iff (h : List Ev) : ErrStatsPos h ↔ ∀ ev ∈ h, EvErrPos ev := by
  constructor
  · intro hp ev hev e he
    simp only [List.mem_singleton] at he
    subst he
    exact hp _ hev
  · intro hh ev hev
    exact hh ev hev ev (by simp)

theorem evErrPos_notify (cat : Cat) (f : File) (d : Data) : EvErrPos (.notify cat f d) := by
  intro e he
  simp only [List.mem_singleton] at he
  subst he
  trivial

theorem flagIffCounted_init (q : Nat) (flt : Option Filter) : FlagIffCounted (Obs.init q flt) := by
  simp [FlagIffCounted, Obs.init, totalErrors]

/-- one step of the summary/flag fold keeps `flag ↔ counted` -/
theorem coreEv_flag (ign : Ev → Bool) (c : Core) (ev : Ev) (hev : EvErrPos ev) (hc : FlagOK c) :
    FlagOK (coreEv ign c ev) := by
  have := coreRun_flag ign [ev] hev c hc
  simpa [coreRun] using this

/-- ONE OPERATION on one observer — `notify` with any category, file, data and ANY filter verdict, or
    `updateStats` — keeps `flag ↔ counted` -/
theorem step_flag {o o1 : Obs} {ev : Ev} (hs : o.step ev = .ok o1) (hev : EvErrPos ev) (hf : FlagIffCounted o) :
    FlagIffCounted o1 := by
  obtain ⟨c, _, _⟩ := Obs.step_core hs
  have h1 : FlagOK o1.core := by
    rw [c]
    exact coreEv_flag (ignObs o.filter) o.core ev hev hf
  exact h1

theorem step_of_notify {o o' : Obs} {cat f d rv} (h : o.notify cat f d = .ok (o', rv)) :
    o.step (.notify cat f d) = .ok o' := by
  simp [Obs.step, h, bind, Except.bind, pure, Except.pure]

/-- what one `notify` does to the flag and to the number of counted errors, exactly: both move iff the category
    is `error` and the filter's verdict is not "ignore" — a "warning" verdict DOWNGRADES the return value only -/
theorem notify_flag_exact {o o' : Obs} {cat f d rv} (h : o.notify cat f d = .ok (o', rv)) :
    o'.error = (o.error || (cat.isError && rv != .ignore)) ∧
      totalErrors o'.summary = totalErrors o.summary + (if cat.isError && rv != .ignore then 1 else 0) := by
  obtain ⟨hrv, hc, _⟩ := notify_ok h
  subst hrv
  have h1 : o'.error = (coreEv (ignObs o.filter) o.core (.notify cat f d)).2 := by rw [← hc]; rfl
  have h2 : o'.summary = (coreEv (ignObs o.filter) o.core (.notify cat f d)).1 := by rw [← hc]; rfl
  rw [h1, h2]
  simp only [coreEv, coreNotify, ignObs]
  by_cases hi : rvOf o.filter cat f d = Ret.ignore
  · simp [hi, Obs.core]
  · have h3 : (rvOf o.filter cat f d == Ret.ignore) = false := by simpa using hi
    have hne : (rvOf o.filter cat f d != Ret.ignore) = true := by simp [bne, h3]
    simp only [h3, Bool.false_eq_true, ↓reduceIte, totalErrors_bumpCat, hne, Bool.and_true]
    exact ⟨rfl, rfl⟩

/-- one event through the `ObserverList` keeps `flag ↔ counted` for the list itself AND for every project observer -/
theorem list_step_flags {l l' : ObsList} {ev : Ev} (hs : l.step ev = .ok l') (hev : EvErrPos ev)
    (hown : FlagIffCounted l.own) (hobs : ∀ o ∈ l.observers, FlagIffCounted o) :
    FlagIffCounted l'.own ∧ ∀ o' ∈ l'.observers, FlagIffCounted o' := by
  obtain ⟨s1, s2⟩ := list_step_spec hs
  constructor
  · cases hi : ignList l.filters ev
    · rw [hi] at s1
      simp only [Bool.false_eq_true, ↓reduceIte] at s1
      exact step_flag s1 hev hown
    · rw [hi] at s1
      simp only [↓reduceIte] at s1
      rw [s1]
      exact hown
  · intro o' ho'
    obtain ⟨o, ho, hst⟩ := All₂.mem_right s2 o' ho'
    exact step_flag hst hev (hobs o ho)

/-- any history through an `ObserverList` (any starting state that satisfies the invariant) -/
theorem list_run_flags : ∀ (h : List Ev) (l l' : ObsList), l.run h = .ok l' → ErrStatsPos h →
    FlagIffCounted l.own → (∀ o ∈ l.observers, FlagIffCounted o) →
    FlagIffCounted l'.own ∧ ∀ o' ∈ l'.observers, FlagIffCounted o'
  | [], l, l', hr, _, hown, hobs => by
    simp only [ObsList.run, pure, Except.pure, Except.ok.injEq] at hr
    subst hr
    exact ⟨hown, hobs⟩
  | ev :: rest, l, l', hr, hp, hown, hobs => by
    simp only [ObsList.run, bind, Except.bind] at hr
    cases hs : l.step ev with
    | error e => rw [hs] at hr; cases hr
    | ok l1 =>
      rw [hs] at hr
      have hev : EvErrPos ev := (errStatsPos_iff _).1 hp ev (by simp)
      obtain ⟨a, b⟩ := list_step_flags hs hev hown hobs
      exact list_run_flags rest l1 l' hr (fun e he => hp e (by simp [he])) a b

/-- any history through one observer -/
theorem run_flag : ∀ (h : List Ev) (o o' : Obs), o.run h = .ok o' → ErrStatsPos h → FlagIffCounted o →
    FlagIffCounted o'
  | [], o, o', hr, _, hf => by
    simp only [Obs.run, pure, Except.pure, Except.ok.injEq] at hr
    subst hr
    exact hf
  | ev :: rest, o, o', hr, hp, hf => by
    simp only [Obs.run, bind, Except.bind] at hr
    cases hs : o.step ev with
    | error e => rw [hs] at hr; cases hr
    | ok o1 =>
      rw [hs] at hr
      have hev : EvErrPos ev := (errStatsPos_iff _).1 hp ev (by simp)
      exact run_flag rest o1 o' hr (fun e he => hp e (by simp [he])) (step_flag hs hev hf)

/-! ### which flag `handle` reads -/

/-- the exit status as a function of the flag(s) `CompareLocales.handle` reads off what `compareProjects` returned -/
def exitVia (read : ObsList → Bool) (returnZero : Bool) (l : ObsList) : Nat :=
  if !returnZero && read l then 1 else 0

/-- `observers.error`: the flag of the `ObserverList` itself (what the code reads) -/
def readOwn (l : ObsList) : Bool := l.own.error

/-- `any(observer.error for observer in observers)`: the flags of the project observers -/
def readAny (l : ObsList) : Bool := l.observers.any (·.error)

/-- `observers.observers[0].error` (`False` without project observers) -/
def readFirst (l : ObsList) : Bool :=
  match l.observers with
  | o :: _ => o.error
  | [] => false

theorem exitStatus_eq_exitVia (rz : Bool) (l : ObsList) : exitStatus rz l = exitVia readOwn rz l := rfl

theorem exitVia_eq_one (read : ObsList → Bool) (rz : Bool) (l : ObsList) :
    exitVia read rz l = 1 ↔ rz = false ∧ read l = true := by
  cases rz <;> cases hr : read l <;> simp [exitVia, hr]

theorem exitVia_zero_or_one (read : ObsList → Bool) (rz : Bool) (l : ObsList) :
    exitVia read rz l = 0 ∨ exitVia read rz l = 1 := by
  simp only [exitVia]
  split <;> simp

/-- under the invariant the project observers' flags together say that some project observer counted an error -/
theorem readAny_iff {l : ObsList} (hobs : ∀ o ∈ l.observers, FlagIffCounted o) :
    readAny l = true ↔ ∃ o ∈ l.observers, 0 < totalErrors o.summary := by
  simp only [readAny, List.any_eq_true]
  constructor
  · rintro ⟨o, ho, he⟩
    exact ⟨o, ho, (hobs o ho).1 he⟩
  · rintro ⟨o, ho, hp⟩
    exact ⟨o, ho, (hobs o ho).2 hp⟩

end C10F

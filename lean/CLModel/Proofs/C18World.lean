/-
C18 (round 5): the world `HistW` — process state `HistM.S` plus an explicit file system.

* `pureOutW l v op` — the reference semantics: what `op` returns as a function of its arguments, of the CURRENT world
  `l : Path → Option Node` and of the construction data `v` of the objects it names; no counter, no cache, no history.
* `step_out_world` — in every world whose memos are coherent the machine returns `pureOutW` (junk ids shifted).
* `step_s` — the process state moves by the path-free operation `textOp` only.
* `look_step` — how the world itself moves (`lookStep`), as a function on `Path → Option Node`.
* `run_out_world` — whole histories from two worlds that hold the same files.
-/
import CLModel.History.World
import CLModel.Proofs.C18MStep
namespace C18W
open Hist HistM HistW C18M P

/-! ### the dict and the function view of the world -/

theorem look_dset (fs : FS) (p : Path) (n : Node) : look (AR.dset fs p n) = lset (look fs) p n := by
  funext q
  simp only [look, lset]
  exact dget_dset fs p n q

theorem look_erase (fs : FS) (p : Path) : look (fs.erase p) = ldel (look fs) p := by
  funext q
  simp only [look, ldel, FS.erase, AR.dget]
  induction fs with
  | nil => simp
  | cons x t ih =>
    simp only [List.filter_cons]
    by_cases hx : (x.1 == p) = true
    · have hxp : x.1 = p := by simpa using hx
      simp only [hx, Bool.not_true, Bool.false_eq_true, if_false, List.find?_cons]
      by_cases hq : (q == p) = true
      · simpa [hq] using ih
      · have hxq : (x.1 == q) = false := by
          cases h : (x.1 == q)
          · rfl
          · have : x.1 = q := by simpa using h
            rw [← this, hxp] at hq
            simp at hq
        simp only [hxq]
        exact ih
    · simp only [hx, Bool.not_false, if_true, List.find?_cons]
      by_cases hxq : (x.1 == q) = true
      · have hxq' : x.1 = q := by simpa using hxq
        have hq : (q == p) = false := by
          cases h : (q == p)
          · rfl
          · have : q = p := by simpa using h
            exact absurd (by rw [hxq', this]; simp) hx
        simp [hxq, hq]
      · simp only [hxq]
        exact ih

theorem mergeWrite_look (fs : FS) (mp : Path) (a b : Array Nat) (o : Option (Except String Merge.Outcome)) :
    look (mergeWrite fs mp a b o) = mergeLook (look fs) mp a b o := by
  cases o with
  | none => rfl
  | some r =>
    cases r with
    | error e => rfl
    | ok oc => cases oc <;> simp only [mergeWrite, mergeLook, look_dset]

/-! ### the reference semantics -/

def pureOutW (l : Look) (v : View) : HistW.Op → HistW.Out
  | .write _ _ => .fsok
  | .remove p =>
    match l p with
    | none => .fserr .enoent
    | some _ => .fsok
  | .rename a _ =>
    match l a with
    | none => .fserr .enoent
    | some _ => .fsok
  | .copy a _ =>
    match readAt l a with
    | .error e => .fserr e
    | .ok _ => .fsok
  | .symlink _ _ => .fsok
  | .readFile f p =>
    match readAt l p with
    | .error e => .unreadable .cur p e
    | .ok t => .m (pureOut v (.base (.parse f t)))
  | .compare f r lp mg =>
    match readAt l r with
    | .error e => .unreadable .ref r e
    | .ok a =>
      match readAt l lp with
      | .error e => .unreadable .l10n lp e
      | .ok b =>
        match mg with
        | none => .m (pureOut v (.base (.compare f a b)))
        | some _ => .m (pureOut v (.merge f a b))
  | .add f r =>
    match readAt l r with
    | .error e => .unreadable .ref r e
    | .ok a => .added (addCounts (refK f a)).1 (addCounts (refK f a)).2
  | .lint f c r =>
    match readAt l c with
    | .ok b => .m (pureOut v (.lint f (lintRef l r) b))
    | .error e => .unreadable .cur c e
  | .lift op => .m (pureOut v op)

/-- how the world moves: a function of the world before, of the operation and (l10n-merge) of the contents read -/
def lookStep (l : Look) : HistW.Op → Look
  | .write p b => lset l p (.file b)
  | .remove p => ldel l p
  | .rename a b =>
    match l a with
    | none => l
    | some n => if a == b then l else lset (ldel l a) b n
  | .copy a b =>
    match readAt l a with
    | .error _ => l
    | .ok t => lset l b (.file t)
  | .symlink p t => lset l p (.link t)
  | .compare f r lp (some mp) =>
    match readAt l r, readAt l lp with
    | .ok a, .ok b => mergeLook l mp a b (pureMerge f a b)
    | _, _ => l
  | _ => l

/-! ### small facts -/

theorem addCounts_mapKey {κ κ' : Type} (g : κ → κ') (K : List (KEnt κ)) :
    addCounts (K.map (KEnt.mapKey g)) = addCounts K := by
  have hf : (K.map (KEnt.mapKey g)).filter (fun e => !e.junk) = (K.filter (fun e => !e.junk)).map (KEnt.mapKey g) := by
    rw [List.filter_map]
    rfl
  unfold addCounts
  rw [hf]
  simp only [List.length_map, List.map_map]
  rfl

theorem parse_step_out (s : S) (f : Fmt) (a : Array Nat) :
    (HistM.step s (.base (.parse f a))).2 = .base (.parsed (doParse s.g f a).2.1 (doParse s.g f a).2.2) := rfl

theorem ldel_absent (l : Look) (p : Path) (h : l p = none) : ldel l p = l := by
  funext q
  simp only [ldel]
  split
  · rename_i hq
    have : q = p := by simpa using hq
    rw [this, h]
  · rfl

/-! ### the process state moves by the path-free operation only -/

theorem step_s (w : W) (op : HistW.Op) : (HistW.step w op).1.s = sAfter w.s (textOp (look w.fs) op) := by
  cases op with
  | write p b => rfl
  | remove p =>
    simp only [HistW.step, textOp, sAfter]
    cases look w.fs p <;> rfl
  | rename a b =>
    simp only [HistW.step, textOp, sAfter]
    cases look w.fs a with
    | none => rfl
    | some n => simp only; split <;> rfl
  | copy a b =>
    simp only [HistW.step, textOp, sAfter]
    cases readAt (look w.fs) a <;> rfl
  | symlink p t => rfl
  | readFile f p =>
    simp only [HistW.step, textOp]
    cases readAt (look w.fs) p <;> rfl
  | compare f r lp mg =>
    simp only [HistW.step, textOp]
    cases readAt (look w.fs) r with
    | error e => rfl
    | ok a =>
      simp only
      cases readAt (look w.fs) lp with
      | error e => rfl
      | ok b => cases mg <;> rfl
  | add f r =>
    simp only [HistW.step, textOp]
    cases readAt (look w.fs) r <;> rfl
  | lint f c r =>
    simp only [HistW.step, textOp]
    cases readAt (look w.fs) c with
    | ok b => rfl
    | error e =>
      simp only
      cases lintRef (look w.fs) r <;> rfl
  | lift op => rfl

/-- the operations a path operation resolves to are safe (only `add_rules` / `add_paths` are not) -/
theorem textOp_safe (s : S) (l : Look) (op : HistW.Op) (h : ∀ o, op = .lift o → o.safe s) :
    ∀ top, textOp l op = some top → top.safe s := by
  intro top ht
  cases op with
  | write p b => simp [textOp] at ht
  | remove p => simp [textOp] at ht
  | rename a b => simp [textOp] at ht
  | copy a b => simp [textOp] at ht
  | symlink p t => simp [textOp] at ht
  | readFile f p =>
    simp only [textOp] at ht
    cases hr : readAt l p with
    | error e => simp [hr] at ht
    | ok t => simp only [hr, Option.some.injEq] at ht; subst ht; simp [HistM.Op.safe]
  | compare f r lp mg =>
    simp only [textOp] at ht
    cases hr : readAt l r with
    | error e => simp [hr] at ht
    | ok a =>
      cases hl : readAt l lp with
      | error e => simp only [hr, hl, Option.some.injEq] at ht; subst ht; simp [HistM.Op.safe]
      | ok b =>
        cases mg with
        | none => simp only [hr, hl, Option.some.injEq] at ht; subst ht; simp [HistM.Op.safe]
        | some mp => simp only [hr, hl, Option.some.injEq] at ht; subst ht; simp [HistM.Op.safe]
  | add f r =>
    simp only [textOp] at ht
    cases hr : readAt l r with
    | error e => simp [hr] at ht
    | ok a => simp only [hr, Option.some.injEq] at ht; subst ht; simp [HistM.Op.safe]
  | lint f c r =>
    simp only [textOp] at ht
    cases hc : readAt l c with
    | ok b => simp only [hc, Option.some.injEq] at ht; subst ht; simp [HistM.Op.safe]
    | error e =>
      cases hl : lintRef l r with
      | none => simp [hc, hl] at ht
      | some a => simp only [hc, hl, Option.some.injEq] at ht; subst ht; simp [HistM.Op.safe]
  | lift o =>
    simp only [textOp, Option.some.injEq] at ht
    subst ht
    exact h _ rfl

theorem inv_sAfter (s : S) (h : Inv s) (top : Option HistM.Op) (hs : ∀ t, top = some t → t.safe s) : Inv (sAfter s top) := by
  cases top with
  | none => exact h
  | some t => exact inv_step s h t (hs t rfl)

theorem safe_lift {w : W} {op : HistW.Op} (hs : op.safe w) : ∀ o, op = .lift o → o.safe w.s := by
  intro o ho
  subst ho
  exact hs

theorem inv_stepW (w : W) (h : Inv w.s) (op : HistW.Op) (hs : op.safe w) : Inv (HistW.step w op).1.s := by
  rw [step_s]
  exact inv_sAfter w.s h _ (textOp_safe w.s (look w.fs) op (safe_lift hs))

theorem reachable_invW (ep : EpEnv) (w : W) (h : HistW.Reachable ep w) : Inv w.s := by
  induction h with
  | init fs => exact inv_init ep
  | step w op _ hs ih => exact inv_stepW w ih op hs

/-- the process of a reachable world is a reachable process of `HistM` -/
theorem reachable_s (ep : EpEnv) (w : W) (h : HistW.Reachable ep w) : HistM.Reachable ep w.s := by
  induction h with
  | init fs => exact HistM.Reachable.init
  | step w op _ hs ih =>
    rw [step_s]
    cases ht : textOp (look w.fs) op with
    | none => exact ih
    | some top => exact HistM.Reachable.step w.s top ih (textOp_safe w.s (look w.fs) op (safe_lift hs) top ht)

/-! ### the machine returns the reference semantics of the CURRENT world -/

theorem step_out_world (w : W) (h : Inv w.s) (op : HistW.Op) (hc : op.closedIn (look w.fs)) :
    (HistW.step w op).2 = (pureOutW (look w.fs) w.s.view op).shift w.s.g.junkid w.s.g.heap.length := by
  cases op with
  | write p b => rfl
  | remove p =>
    simp only [HistW.step, pureOutW]
    cases look w.fs p <;> rfl
  | rename a b =>
    simp only [HistW.step, pureOutW]
    cases look w.fs a with
    | none => rfl
    | some n => simp only; split <;> rfl
  | copy a b =>
    simp only [HistW.step, pureOutW]
    cases readAt (look w.fs) a <;> rfl
  | symlink p t => rfl
  | readFile f p =>
    simp only [HistW.step, pureOutW]
    cases hr : readAt (look w.fs) p with
    | error e => rfl
    | ok t =>
      simp only [HistW.Out.shift]
      rw [step_out_pure w.s h (.base (.parse f t)) trivial]
  | compare f r lp mg =>
    simp only [HistW.step, pureOutW]
    cases hr : readAt (look w.fs) r with
    | error e => rfl
    | ok a =>
      simp only
      cases hl : readAt (look w.fs) lp with
      | error e => rfl
      | ok b =>
        cases mg with
        | none =>
          have hc' : (HistM.Op.base (.compare f a b)).closed := by
            simpa only [HistW.Op.closedIn, textOp, hr, hl] using hc
          simp only [HistW.Out.shift]
          rw [step_out_pure w.s h _ hc']
        | some mp =>
          have hc' : (HistM.Op.merge f a b).closed := by
            simpa only [HistW.Op.closedIn, textOp, hr, hl] using hc
          simp only [HistW.Out.shift]
          rw [step_out_pure w.s h _ hc']
  | add f r =>
    simp only [HistW.step, pureOutW]
    cases hr : readAt (look w.fs) r with
    | error e => rfl
    | ok a =>
      simp only [parse_step_out, addOf, HistW.Out.shift]
      rw [kents_doParse, addCounts_mapKey]
  | lint f c r =>
    simp only [HistW.step, pureOutW]
    cases hcr : readAt (look w.fs) c with
    | ok b =>
      have hc' : (HistM.Op.lint f (lintRef (look w.fs) r) b).closed := by
        simpa only [HistW.Op.closedIn, textOp, hcr] using hc
      simp only [HistW.Out.shift]
      rw [step_out_pure w.s h _ hc']
    | error e =>
      simp only
      cases lintRef (look w.fs) r <;> rfl
  | lift o =>
    have hc' : o.closed := by simpa only [HistW.Op.closedIn, textOp] using hc
    simp only [HistW.step, pureOutW, HistW.Out.shift]
    rw [step_out_pure w.s h o hc']

/-! ### how the world moves -/

theorem look_step (w : W) (h : Inv w.s) (op : HistW.Op) (hc : op.closedIn (look w.fs)) :
    look (HistW.step w op).1.fs = lookStep (look w.fs) op := by
  cases op with
  | write p b => exact look_dset _ _ _
  | remove p =>
    simp only [HistW.step, lookStep]
    cases hp : look w.fs p with
    | none => exact (ldel_absent _ _ hp).symm
    | some n => exact look_erase _ _
  | rename a b =>
    simp only [HistW.step, lookStep]
    cases look w.fs a with
    | none => rfl
    | some n =>
      simp only
      split
      · rfl
      · simp only [look_dset, look_erase]
  | copy a b =>
    simp only [HistW.step, lookStep]
    cases readAt (look w.fs) a with
    | error e => rfl
    | ok t => exact look_dset _ _ _
  | symlink p t => exact look_dset _ _ _
  | readFile f p =>
    simp only [HistW.step, lookStep]
    cases readAt (look w.fs) p <;> rfl
  | compare f r lp mg =>
    cases mg with
    | none =>
      simp only [HistW.step, lookStep]
      cases readAt (look w.fs) r with
      | error e => rfl
      | ok a => simp only; cases readAt (look w.fs) lp <;> rfl
    | some mp =>
      simp only [HistW.step, lookStep]
      cases hr : readAt (look w.fs) r with
      | error e => rfl
      | ok a =>
        simp only
        cases hl : readAt (look w.fs) lp with
        | error e => rfl
        | ok b =>
          have hc' : (HistM.Op.merge f a b).closed := by
            simpa only [HistW.Op.closedIn, textOp, hr, hl] using hc
          simp only [mergeWrite_look]
          rw [step_out_pure w.s h _ hc']
          rfl
  | add f r =>
    simp only [HistW.step, lookStep]
    cases readAt (look w.fs) r <;> rfl
  | lint f c r =>
    simp only [HistW.step, lookStep]
    cases readAt (look w.fs) c with
    | ok b => rfl
    | error e => simp only; cases lintRef (look w.fs) r <;> rfl
  | lift o => rfl

/-! ### whole histories -/

def viewStepW (l : Look) (v : View) (op : HistW.Op) : View :=
  match textOp l op with
  | some top => viewStep v top
  | none => v

theorem view_stepW (w : W) (h : Inv w.s) (op : HistW.Op) :
    (HistW.step w op).1.s.view = viewStepW (look w.fs) w.s.view op := by
  rw [step_s]
  unfold viewStepW
  cases textOp (look w.fs) op with
  | none => rfl
  | some top => exact view_step w.s h top

theorem textOp_frozen (l : Look) (op : HistW.Op) (h : op.mutatesConfig = false) :
    ∀ top, textOp l op = some top → top.mutatesConfig = false := by
  intro top ht
  cases op with
  | write p b => simp [textOp] at ht
  | remove p => simp [textOp] at ht
  | rename a b => simp [textOp] at ht
  | copy a b => simp [textOp] at ht
  | symlink p t => simp [textOp] at ht
  | readFile f p =>
    simp only [textOp] at ht
    cases hr : readAt l p with
    | error e => simp [hr] at ht
    | ok t => simp only [hr, Option.some.injEq] at ht; subst ht; rfl
  | compare f r lp mg =>
    simp only [textOp] at ht
    cases hr : readAt l r with
    | error e => simp [hr] at ht
    | ok a =>
      cases hl : readAt l lp with
      | error e => simp only [hr, hl, Option.some.injEq] at ht; subst ht; rfl
      | ok b =>
        cases mg with
        | none => simp only [hr, hl, Option.some.injEq] at ht; subst ht; rfl
        | some mp => simp only [hr, hl, Option.some.injEq] at ht; subst ht; rfl
  | add f r =>
    simp only [textOp] at ht
    cases hr : readAt l r with
    | error e => simp [hr] at ht
    | ok a => simp only [hr, Option.some.injEq] at ht; subst ht; rfl
  | lint f c r =>
    simp only [textOp] at ht
    cases hc : readAt l c with
    | ok b => simp only [hc, Option.some.injEq] at ht; subst ht; rfl
    | error e =>
      cases hl : lintRef l r with
      | none => simp [hc, hl] at ht
      | some a => simp only [hc, hl, Option.some.injEq] at ht; subst ht; rfl
  | lift o =>
    simp only [textOp, Option.some.injEq] at ht
    subst ht
    exact h

theorem safe_of_frozenW (w : W) (op : HistW.Op) (h : op.mutatesConfig = false) : op.safe w := by
  cases op with
  | lift o => exact safe_of_frozen w.s o h
  | _ => trivial

/-- every operation of the history is closed in the world it meets, and none adds rules / paths to a configuration -/
def ClosedRun : Look → List HistW.Op → Prop
  | _, [] => True
  | l, op :: ops => op.closedIn l ∧ op.mutatesConfig = false ∧ ClosedRun (lookStep l op) ops

theorem sAfter_g_shift (s s0 : S) (d a : Nat) (top : Option HistM.Op) (hc : ∀ t, top = some t → t.closed)
    (hj : s.g.junkid = s0.g.junkid + d) (hh : s.g.heap.length = s0.g.heap.length + a) :
    (sAfter s top).g.junkid = (sAfter s0 top).g.junkid + d ∧
      (sAfter s top).g.heap.length = (sAfter s0 top).g.heap.length + a := by
  cases top with
  | none => exact ⟨hj, hh⟩
  | some t => exact step_g_shift s s0 d a t (hc t rfl) hj hh

theorem closedIn_textOp {l : Look} {op : HistW.Op} (hc : op.closedIn l) : ∀ t, textOp l op = some t → t.closed := by
  intro t ht
  simpa only [HistW.Op.closedIn, ht] using hc

theorem outW_shift_shift (d a d' a' : Nat) (o : HistW.Out) :
    (o.shift d a).shift d' a' = o.shift (d + d') (a + a') := by
  cases o <;> simp only [HistW.Out.shift, out_shift_shift]

/-- two worlds that hold the same files and in which the same objects are alive return the same results for a whole
    history — whatever each process has read, cached or counted before -/
theorem run_out_world : ∀ (ops : List HistW.Op) (w w0 : W) (d a : Nat), Inv w.s → Inv w0.s → w.s.view = w0.s.view →
    look w.fs = look w0.fs → w.s.g.junkid = w0.s.g.junkid + d → w.s.g.heap.length = w0.s.g.heap.length + a →
    ClosedRun (look w.fs) ops →
    (HistW.run w ops).2 = ((HistW.run w0 ops).2).map (HistW.Out.shift d a) := by
  intro ops
  induction ops with
  | nil => intro w w0 d a _ _ _ _ _ _ _; rfl
  | cons op t ih =>
    intro w w0 d a hi hi0 hv hl hj hh hc
    obtain ⟨hcl, hfr, hrest⟩ := hc
    have hcl0 : op.closedIn (look w0.fs) := hl ▸ hcl
    have hs : op.safe w := safe_of_frozenW w op hfr
    have hs0 : op.safe w0 := safe_of_frozenW w0 op hfr
    have hv' : (HistW.step w op).1.s.view = (HistW.step w0 op).1.s.view := by
      rw [view_stepW w hi op, view_stepW w0 hi0 op, hv, hl]
    have hl' : look (HistW.step w op).1.fs = look (HistW.step w0 op).1.fs := by
      rw [look_step w hi op hcl, look_step w0 hi0 op hcl0, hl]
    have hg := sAfter_g_shift w.s w0.s d a (textOp (look w.fs) op) (closedIn_textOp hcl) hj hh
    have hg1 : (HistW.step w op).1.s.g.junkid = (HistW.step w0 op).1.s.g.junkid + d := by
      rw [step_s, step_s, ← hl]; exact hg.1
    have hg2 : (HistW.step w op).1.s.g.heap.length = (HistW.step w0 op).1.s.g.heap.length + a := by
      rw [step_s, step_s, ← hl]; exact hg.2
    have hrest' : ClosedRun (look (HistW.step w op).1.fs) t := by
      rw [look_step w hi op hcl]; exact hrest
    simp only [HistW.run, List.map_cons]
    rw [ih (HistW.step w op).1 (HistW.step w0 op).1 d a (inv_stepW w hi op hs) (inv_stepW w0 hi0 op hs0) hv' hl' hg1 hg2 hrest']
    congr 1
    rw [step_out_world w hi op hcl, step_out_world w0 hi0 op hcl0, hv, hl, outW_shift_shift, hj, hh]

end C18W

/-
C05 pipeline, DTD files: the `DTDChecker` model answers for every pair the comparison and the linter hand to it
(`Pipe.CheckerOK`), for every verdict function of expat and every `html.unescape`, when the two texts hold scalar values.
Core Lean only.
-/
import CLModel.Proofs.C05Dtd
namespace C05Dtd
open Pipe

theorem mem_pslice {s : Array Nat} {a b c : Nat} (h : c ∈ P.slice s a b) : c ∈ s.toList := by
  unfold P.slice at h
  rw [Array.toList_extract] at h
  simp only [List.extract_eq_take_drop] at h
  exact List.mem_of_mem_drop (List.mem_of_mem_take h)

theorem mem_pyslice {s : Array Nat} {a b : Int} {c : Nat} (h : c ∈ P.pySlice s a b) : c ∈ s.toList := mem_pslice h

/-- what `DTDChecker.check` encodes of an entry holds scalar values: `raw_val`, `all`, and the key of an Entity -/
def EntScalar (e : PEnt) : Prop :=
  ScalarText e.raw ∧ ScalarText e.all ∧ (e.junk = false → ∀ k, e.key = .str k → ScalarText k)

theorem mkEnt_scalar (ext : Ext) (s : Array Nat) (hs : ScalarText s.toList) (h : Hist.Ent) (e : PEnt)
    (he : mkEnt ext .dtd s h = .ok e) : EntScalar e := by
  unfold mkEnt at he
  cases hj : h.jid with
  | some id =>
    simp only [hj, Except.ok.injEq] at he
    subst he
    refine ⟨hs.sub (fun c hc => mem_pslice hc), hs.sub (fun c hc => mem_pslice hc), ?_⟩
    intro hjk; simp [mkJunk] at hjk
  | none =>
    simp only [hj, P.entView, entVal] at he
    simp only [Except.ok.injEq] at he
    subst he
    refine ⟨hs.sub (fun c hc => mem_pyslice hc), hs.sub (fun c hc => mem_pslice hc), ?_⟩
    intro _ k hk
    simp only [Cmp.Key.str.injEq] at hk
    subst hk
    exact hs.sub (fun c hc => mem_pyslice hc)

theorem parseFile_scalar (ext : Ext) (s : Array Nat) (hs : ScalarText s.toList) (n : Nat) (ents : List PEnt) (m : Nat)
    (h : parseFile ext .dtd s n = .ok (ents, m)) : ∀ e ∈ ents, EntScalar e := by
  unfold parseFile at h
  split at h
  · cases h
  · simp only at h
    split at h
    · cases h
    · rename_i ents' hm
      simp only [Except.ok.injEq, Prod.mk.injEq] at h
      obtain ⟨rfl, _⟩ := h
      intro e he
      obtain ⟨hh, _, hmk⟩ := (mapE_mem hm).1 e he
      exact mkEnt_scalar ext s hs hh e hmk

/-- every result of the DTD checker can be positioned on a DTDEntity -/
theorem dtd_resolvable (l : PEnt) (hj : l.junk = false) (hk : l.entry.kind = .entity) (r : Dtd.Result) :
    Resolvable .dtd l (ofDtdResult r).pos := by
  cases hp : r.pos with
  | lc a b => exact Or.inr (Or.inr ⟨⟨a, b, by simp [ofDtdResult, hp]⟩, rfl, hk⟩)
  | num n => exact Or.inr (Or.inl ⟨⟨n, by simp [ofDtdResult, hp]⟩, Or.inr ⟨hj, hk⟩⟩)
  | entityPos n => exact Or.inl ⟨n, by simp [ofDtdResult, hp]⟩

theorem encPrefix_eq : Dtd.msgMochibake = encPrefix := by decide

/-- `DTDChecker.check` on two Entities of scalar texts: a result list, positions a DTDEntity resolves, beginning with
    the results of the base check -/
theorem runDtd_ok (c : CkCtx) (r l : PEnt) (rk lk : Text) (hrk : r.key = .str rk) (hlk : l.key = .str lk)
    (hlj : l.junk = false) (hlk' : l.entry.kind = .entity)
    (hvals : ∀ v ∈ c.refVals, ScalarText v) (hr : EntScalar r) (hl : EntScalar l) (hrj : r.junk = false) :
    ∃ rs, runDtd c r l = .ok rs ∧ (∀ x ∈ rs, Resolvable .dtd l x.pos) ∧ ∀ b ∈ runBase l, b ∈ rs := by
  have hsc : InpScalar (dtdInp c rk lk r l) :=
    ⟨by simpa [Dtd.refValsOf, dtdInp] using hvals, hr.2.2 hrj rk hrk, hr.2.1, hr.1, hl.2.2 hlj lk hlk, hl.2.1, hl.1⟩
  have hexc := check_no_exc c.xml (dtdInp c rk lk r l) rfl hsc
  refine ⟨((Dtd.check c.xml (dtdInp c rk lk r l)).results.map ofDtdResult), ?_, ?_, ?_⟩
  · simp only [runDtd, hrk, hlk, hexc]
  · intro x hx
    simp only [List.mem_map] at hx
    obtain ⟨y, _, rfl⟩ := hx
    exact dtd_resolvable l hlj hlk' y
  · intro b hb
    simp only [runBase, Checks.baseCheck, List.mem_map] at hb
    obtain ⟨x, ⟨m, hm, rfl⟩, rfl⟩ := hb
    rw [Dtd.check_results _ _ hexc]
    simp only [List.map_append, List.mem_append, List.mem_map]
    refine Or.inl (Or.inl (Or.inl (Or.inl ⟨⟨.warning, .entityPos m.1, Dtd.msgMochibake ++ lk, .encodings⟩, ?_, ?_⟩)))
    · simp only [Dtd.baseCheck, dtdInp, List.mem_map]
      exact ⟨m, hm, rfl⟩
    · simp [ofDtdResult, dtdCatText, encPrefix_eq, hlk, keyText]

theorem refVals_scalar (ref : List PEnt) (h : ∀ e ∈ ref, EntScalar e) : ∀ v ∈ ref.map (·.raw), ScalarText v := by
  intro v hv
  obtain ⟨e, he, rfl⟩ := List.mem_map.1 hv
  exact (h e he).1

/-- the DTD checker inside `compare` -/
theorem checkerOK_dtd (env : Env) (hk : env.ck.kind = .dtd) (hc : env.cls = .dtd) (ref l10n : List PEnt)
    (hwr : ∀ e ∈ ref, PWf .dtd e) (hwl : ∀ e ∈ l10n, PWf .dtd e)
    (hvals : ∀ v ∈ env.ck.refVals, ScalarText v) (hsr : ∀ e ∈ ref, EntScalar e) (hsl : ∀ e ∈ l10n, EntScalar e) :
    CheckerOK env ref l10n := by
  intro r hr l hl hrj hlj
  have hlj := hlj (by rw [hk]; simp)
  obtain ⟨rk, hrk⟩ := (hwr r hr).2.1 (by simp)
  obtain ⟨lk, hlk⟩ := (hwl l hl).2.1 (by simp)
  obtain ⟨rs, h1, h2, _⟩ := runDtd_ok env.ck r l rk lk hrk hlk hlj ((hwl l hl).entity hlj) hvals (hsr r hr) (hsl l hl) hrj
  refine ⟨⟨_, by rw [hc]; rfl⟩, rs, by simp only [runChecker, hk, h1], ?_⟩
  rw [hc]; exact h2

end C05Dtd

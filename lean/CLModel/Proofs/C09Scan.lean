/- `finditer` of a regex that cannot match the empty string, as a plain left-to-right scan.
   `Matches s r pos ms`: `ms` are the successive leftmost matches at or after `pos`.
   The relation is functional; both `Rx.finditer` and a list-level scan `scanL` satisfy it. -/
import CLModel.Rx.Basic
import CLModel.Proofs.RxLemmas
namespace Rx

inductive Matches (s : Array Nat) (r : Re) : Nat → List (Nat × St) → Prop
  | nil {pos} : (∀ q, pos ≤ q → q ≤ s.size → matchAt s r q = none) → Matches s r pos []
  | cons {pos q st rest} : pos ≤ q → q ≤ s.size → (∀ q', pos ≤ q' → q' < q → matchAt s r q' = none) →
      matchAt s r q = some st → Matches s r st.pos rest → Matches s r pos ((q, st) :: rest)

theorem Matches.det {s r} : ∀ {pos a b}, Matches s r pos a → Matches s r pos b → a = b := by
  intro pos a b ha
  induction ha generalizing b with
  | nil h =>
    intro hb
    cases hb with
    | nil _ => rfl
    | cons h1 h2 _ h4 _ => rw [h _ h1 h2] at h4; cases h4
  | @cons pos q st rest h1 h2 h3 h4 _ ih =>
    intro hb
    cases hb with
    | nil h => rw [h _ h1 h2] at h4; cases h4
    | @cons _ q2 st2 rest2 g1 g2 g3 g4 g5 =>
      have hq : q = q2 := by
        rcases Nat.lt_trichotomy q q2 with hlt | heq | hgt
        · rw [g3 q h1 hlt] at h4; cases h4
        · exact heq
        · rw [h3 q2 g1 hgt] at g4; cases g4
      subst hq
      rw [h4] at g4
      cases g4
      rw [ih g5]

theorem Matches.step {s r pos ms} (h0 : matchAt s r pos = none) (h : Matches s r (pos + 1) ms) :
    Matches s r pos ms := by
  cases h with
  | nil h =>
    refine .nil ?_
    intro q h1 h2
    by_cases hq : q = pos
    · subst hq; exact h0
    · exact h q (by omega) h2
  | cons h1 h2 h3 h4 h5 =>
    refine .cons (by omega) h2 ?_ h4 h5
    intro q' g1 g2
    by_cases hq : q' = pos
    · subst hq; exact h0
    · exact h3 q' (by omega) g2

theorem searchFrom_none (s : Array Nat) (r : Re) :
    ∀ fuel pos, s.size + 1 - pos < fuel → searchFrom s r fuel pos = none →
      ∀ q, pos ≤ q → q ≤ s.size → matchAt s r q = none := by
  intro fuel
  induction fuel with
  | zero => intro pos h; omega
  | succ fuel ih =>
    intro pos hf h q h1 h2
    simp only [searchFrom] at h
    split at h
    · omega
    · split at h
      · cases h
      · rename_i hm
        by_cases hq : q = pos
        · subst hq; exact hm
        · exact ih (pos + 1) (by omega) h q (by omega) h2

theorem search_none {s : Array Nat} {r : Re} {pos : Nat} (h : search s r pos = none) :
    ∀ q, pos ≤ q → q ≤ s.size → matchAt s r q = none := by
  intro q h1 h2
  exact searchFrom_none s r _ pos (by omega) h q h1 h2

/-- `finditer` (from any position, with enough fuel) yields the successive leftmost matches -/
theorem finditerAux_matches (s : Array Nat) (r : Re) (hr : 1 ≤ minLen r) :
    ∀ fuel pos, s.size + 1 - pos < fuel → Matches s r pos (finditerAux s r fuel pos false) := by
  intro fuel
  induction fuel with
  | zero => intro pos h; omega
  | succ fuel ih =>
    intro pos hf
    simp only [finditerAux]
    split
    · exact .nil (by intro q h1 h2; omega)
    · rename_i hle
      have hle : pos ≤ s.size := by omega
      simp only [Bool.false_eq_true, if_false]
      split
      · rename_i st hm
        have hsp := matchAt_span hm hle
        have hne : (st.pos == pos) = false := by simp; omega
        rw [hne]
        exact .cons (Nat.le_refl _) hle (by intro q' h1 h2; omega) hm (ih _ (by omega))
      · rename_i hm
        split
        · rename_i q st hs
          obtain ⟨h1, h2, h3, h4⟩ := search_spec hs
          have hsp := matchAt_span h3 h2
          have hne : (st.pos == q) = false := by simp; omega
          rw [hne]
          refine .cons (by omega) h2 ?_ h3 (ih _ (by omega))
          intro q' g1 g2
          by_cases hq : q' = pos
          · subst hq; exact hm
          · exact h4 q' (by omega) g2
        · rename_i hs
          refine .nil ?_
          intro q h1 h2
          by_cases hq : q = pos
          · subst hq; exact hm
          · exact search_none hs q (by omega) h2

theorem finditer_matches (s : Array Nat) (r : Re) (hr : 1 ≤ minLen r) :
    Matches s r 0 (finditer s r) :=
  finditerAux_matches s r hr _ 0 (by omega)

/-- list-level scan driven by a local matcher `g off suffix` -/
def scanL (g : Nat → List Nat → Option St) : Nat → Nat → List Nat → List (Nat × St)
  | 0, _, _ => []
  | _ + 1, _, [] => []
  | f + 1, off, c :: rest =>
    match g off (c :: rest) with
    | some st => (off, st) :: scanL g f st.pos ((c :: rest).drop (st.pos - off))
    | none => scanL g f (off + 1) rest

theorem scanL_matches (s : Array Nat) (r : Re) (hr : 1 ≤ minLen r) (g : Nat → List Nat → Option St)
    (hg : ∀ p, p ≤ s.size → matchAt s r p = g p (s.toList.drop p)) :
    ∀ fuel pos, s.size + 1 - pos ≤ fuel → pos ≤ s.size →
      Matches s r pos (scanL g fuel pos (s.toList.drop pos)) := by
  have hend : matchAt s r s.size = none := by
    cases h : matchAt s r s.size with
    | none => rfl
    | some st => have := matchAt_span h (Nat.le_refl _); omega
  intro fuel
  induction fuel with
  | zero => intro pos h1 h2; omega
  | succ fuel ih =>
    intro pos hf hle
    by_cases hlt : pos < s.size
    · have hd : s.toList.drop pos = s[pos] :: s.toList.drop (pos + 1) := by
        rw [← Array.getElem_toList (h := by simpa using hlt)]
        exact (List.drop_eq_getElem_cons (by simpa using hlt))
      rw [hd]
      simp only [scanL]
      rw [← hd, ← hg pos hle]
      split
      · rename_i st hm
        have hsp := matchAt_span hm hle
        have : (s.toList.drop pos).drop (st.pos - pos) = s.toList.drop st.pos := by
          rw [List.drop_drop]; congr 1; omega
        rw [this]
        exact .cons (Nat.le_refl _) hle (by intro q' h1 h2; omega) hm (ih _ (by omega) hsp.2)
      · rename_i hm
        exact Matches.step hm (ih _ (by omega) (by omega))
    · have hp : pos = s.size := by omega
      subst hp
      have : s.toList.drop s.size = [] := by simp
      rw [this]
      simp only [scanL]
      refine .nil ?_
      intro q h1 h2
      have : q = s.size := by omega
      subst this; exact hend

/-- the bridge: a regex that needs at least one character and whose match at `p` only depends on the
    suffix at `p` (through `g`) is iterated by the list-level scan -/
theorem finditer_eq_scanL (s : Array Nat) (r : Re) (hr : 1 ≤ minLen r) (g : Nat → List Nat → Option St)
    (hg : ∀ p, p ≤ s.size → matchAt s r p = g p (s.toList.drop p)) :
    finditer s r = scanL g (s.size + 1) 0 s.toList := by
  have h1 := finditer_matches s r hr
  have h2 := scanL_matches s r hr g hg (s.size + 1) 0 (by omega) (by omega)
  simp only [List.drop_zero] at h2
  exact h1.det h2

/-- existence form: `finditer` is non-empty iff the regex matches somewhere -/
theorem finditer_ne_nil_iff (s : Array Nat) (r : Re) (hr : 1 ≤ minLen r) :
    finditer s r ≠ [] ↔ ∃ q, q ≤ s.size ∧ (matchAt s r q).isSome := by
  have h := finditer_matches s r hr
  generalize finditer s r = ms at h
  constructor
  · intro hne
    cases h with
    | nil _ => exact absurd rfl hne
    | cons h1 h2 h3 h4 h5 => exact ⟨_, h2, by simp [h4]⟩
  · rintro ⟨q, hq, hs⟩ hnil
    subst hnil
    cases h with
    | nil h => rw [h q (by omega) hq] at hs; simp at hs

end Rx

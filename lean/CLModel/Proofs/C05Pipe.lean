/-
Helper lemmas for the C05 pipeline theorems (CLModel/Compare/Pipeline.lean): totality of every stage of
`Pipe.compareFiles` / `Pipe.lintText`, composed from the component theorems of C01, C02, C03, C10, C17, C18, C19, C20.
Core Lean only.
-/
import CLModel.Compare.Pipeline
import CLModel.Proofs.AddRemove
import CLModel.Proofs.C03AddRemove
import CLModel.Proofs.C10Obs
import CLModel.Proofs.C17
import CLModel.Proofs.C18State
import CLModel.Proofs.ParserProgress
import CLModel.Proofs.C02Props
import CLModel.Proofs.C02Po
namespace Pipe
open ObsM (Ev ObsList Obs)

/-! ### loops that may raise -/

theorem mapE_ok {α β : Type} {f : α → Except PyErr β} : ∀ {l : List α}, (∀ x ∈ l, ∃ y, f x = .ok y) →
    ∃ ys, mapE f l = .ok ys ∧ ∀ y ∈ ys, ∃ x ∈ l, f x = .ok y
  | [], _ => ⟨[], rfl, by simp⟩
  | x :: xs, h => by
    obtain ⟨y, hy⟩ := h x (by simp)
    obtain ⟨ys, hys, hmem⟩ := mapE_ok (l := xs) (fun z hz => h z (by simp [hz]))
    refine ⟨y :: ys, by simp [mapE, hy, hys], ?_⟩
    intro y' hy'
    simp only [List.mem_cons] at hy'
    rcases hy' with rfl | hy'
    · exact ⟨x, by simp, hy⟩
    · obtain ⟨z, hz, hfz⟩ := hmem y' hy'
      exact ⟨z, by simp [hz], hfz⟩

theorem mapE_mem {α β : Type} {f : α → Except PyErr β} : ∀ {l : List α} {ys : List β}, mapE f l = .ok ys →
    (∀ y ∈ ys, ∃ x ∈ l, f x = .ok y) ∧ (∀ x ∈ l, ∃ y ∈ ys, f x = .ok y)
  | [], ys, h => by
    simp only [mapE, Except.ok.injEq] at h
    subst h
    simp
  | x :: xs, ys, h => by
    simp only [mapE] at h
    cases hx : f x with
    | error e => rw [hx] at h; cases h
    | ok y =>
      rw [hx] at h
      simp only at h
      cases hxs : mapE f xs with
      | error e => rw [hxs] at h; cases h
      | ok ys' =>
        rw [hxs] at h
        simp only [Except.ok.injEq] at h
        subst h
        obtain ⟨h1, h2⟩ := mapE_mem hxs
        constructor
        · intro y' hy'
          simp only [List.mem_cons] at hy'
          rcases hy' with rfl | hy'
          · exact ⟨x, by simp, hx⟩
          · obtain ⟨z, hz, hfz⟩ := h1 y' hy'
            exact ⟨z, by simp [hz], hfz⟩
        · intro x' hx'
          simp only [List.mem_cons] at hx'
          rcases hx' with rfl | hx'
          · exact ⟨y, by simp, hx⟩
          · obtain ⟨z, hz, hfz⟩ := h2 x' hx'
            exact ⟨z, by simp [hz], hfz⟩

/-- a loop whose body never raises from states satisfying an invariant it preserves -/
theorem foldE_inv {α σ : Type} {f : σ → α → Except PyErr σ} (I : σ → Prop) :
    ∀ (l : List α) (st : σ), I st → (∀ st x, x ∈ l → I st → ∃ st', f st x = .ok st' ∧ I st') →
      ∃ st', foldE f l st = .ok st' ∧ I st'
  | [], st, h0, _ => ⟨st, rfl, h0⟩
  | x :: xs, st, h0, hs => by
    obtain ⟨st1, h1, i1⟩ := hs st x (by simp) h0
    obtain ⟨st', h2, i2⟩ := foldE_inv I xs st1 i1 (fun s y hy hi => hs s y (by simp [hy]) hi)
    exact ⟨st', by simp [foldE, h1, h2], i2⟩

/-! ### `KeyedTuple.__getitem__` -/

theorem lookup_of_mem (es : List PEnt) (k : Cmp.Key) (h : k ∈ es.map (·.key)) :
    ∃ e, lookup es k = .ok e := by
  unfold lookup
  rw [AR.keyedIndex_eq]
  have hc : (es.map (·.key)).contains k = true := by simpa using h
  simp only [hc, if_true]
  have hlen : (es.map (·.key)).length - 1 - (es.map (·.key)).reverse.idxOf k < es.length := by
    have : 0 < (es.map (·.key)).length := List.length_pos_of_mem h
    simp only [List.length_map] at this ⊢
    omega
  rw [List.getElem?_eq_getElem hlen]
  exact ⟨_, rfl⟩

/-- a successful lookup returns an entry of the list with that key -/
theorem lookup_ok {es : List PEnt} {k : Cmp.Key} {e : PEnt} (h : lookup es k = .ok e) :
    e ∈ es ∧ e.key = k ∧ k ∈ es.map (·.key) := by
  unfold lookup at h
  rw [AR.keyedIndex_eq] at h
  by_cases hc : (es.map (·.key)).contains k = true
  · simp only [hc, if_true] at h
    have hk : k ∈ es.map (·.key) := by simpa using hc
    split at h
    · rename_i e' he'
      simp only [Except.ok.injEq] at h
      subst h
      refine ⟨List.mem_of_getElem? he', ?_, hk⟩
      -- the index is that of the last occurrence of k in the key list
      have hk' : k ∈ (es.map (·.key)).reverse := by simpa using hk
      have hi := List.idxOf_lt_length_of_mem hk'
      have hget := List.getElem_idxOf (xs := (es.map (·.key)).reverse) hi
      rw [List.getElem_reverse] at hget
      simp only [List.length_reverse] at hi
      have hkey : (es.map (·.key))[(es.map (·.key)).length - 1 - (es.map (·.key)).reverse.idxOf k]? = some k := by
        rw [List.getElem?_eq_getElem (by omega)]
        simpa using hget
      rw [List.getElem?_map, he'] at hkey
      simpa using hkey
    · cases h
  · simp only [hc] at h
    cases h

/-! ### positions never raise -/

theorem linecol_total (s : Array Nat) (x : Int) : ∃ lc, Pos.linecol s x = some lc := by
  by_cases hx : x < 0
  · exact ⟨_, Pos.linecol_neg s x hx⟩
  · exact ⟨_, Pos.linecol_of_nonneg s x (by omega)⟩

theorem position_total (s : Array Nat) (e : P.Entry) (off : Int) : ∃ lc, Pos.position s e off = some lc :=
  linecol_total s _

theorem junkMessage_ok (s : Array Nat) (cls : Cls) (j : PEnt) : ∃ t, junkMessage s cls j = .ok t := by
  unfold junkMessage Pos.junkMessagePositions
  obtain ⟨a, ha⟩ := position_total s j.entry 0
  obtain ⟨b, hb⟩ := position_total s j.entry (-1)
  cases cls <;> simp only [ha, hb] <;> exact ⟨_, rfl⟩

/-- the position of a check result can be resolved on this entry: `position` always; `value_position` with an int for
    an Entity (it has a `val_span`; Fluent: `position`) or any Android object; with a (line, col) tuple for a DTDEntity -/
def Resolvable (cls : Cls) (e : PEnt) (p : Pos.CheckPos) : Prop :=
  (∃ n, p = .entityPos n) ∨
  ((∃ n, p = .offset n) ∧ (cls = .node ∨ (e.junk = false ∧ e.entry.kind = .entity))) ∨
  ((∃ l c, p = .tuple l c) ∧ cls = .dtd ∧ e.entry.kind = .entity)

theorem resolve_entityPos (s : Array Nat) (cls : Cls) (e : PEnt) (n : Int) :
    ∃ lc, resolvePos s cls e (.entityPos n) = some lc := by
  cases cls
  · exact position_total s e.entry n
  · exact position_total s e.entry n
  · simp only [resolvePos]
    split
    · exact position_total s e.entry n
    · exact position_total s e.entry n
  · exact ⟨_, rfl⟩

theorem resolve_ok (s : Array Nat) (cls : Cls) (e : PEnt) (p : Pos.CheckPos) (h : Resolvable cls e p) :
    ∃ lc, resolvePos s cls e p = some lc := by
  rcases h with ⟨n, rfl⟩ | ⟨⟨n, rfl⟩, h⟩ | ⟨⟨l, c, rfl⟩, rfl, hk⟩
  · exact resolve_entityPos s cls e n
  · cases cls with
    | node => exact ⟨_, rfl⟩
    | plain =>
      rcases h with h | ⟨_, hk⟩
      · cases h
      · simp only [resolvePos, Pos.resolveCheckPos, Pos.valSpan, hk, Bool.false_and, Bool.false_eq_true, if_false, Pos.valuePosition]
        exact linecol_total s _
    | dtd =>
      rcases h with h | ⟨_, hk⟩
      · cases h
      · simp only [resolvePos, Pos.resolveCheckPos, Pos.valSpan, hk, Bool.false_and, Bool.false_eq_true, if_false, Pos.valuePosition]
        exact linecol_total s _
    | fluent =>
      rcases h with h | ⟨hj, _⟩
      · cases h
      · simp only [resolvePos, hj, Bool.false_eq_true, if_false, Pos.resolveCheckPos, Pos.fluentValuePosition]
        exact position_total s e.entry n
  · simp only [resolvePos, Pos.resolveCheckPos, Pos.dtdValuePositionTuple, Pos.valSpan, hk, Bool.false_and,
      Bool.false_eq_true, if_false, Pos.valuePosition]
    obtain ⟨lc, hlc⟩ := linecol_total s (if (0 : Int) < 0 then e.entry.ve else e.entry.vs + 0)
    rw [hlc]
    simp only
    split <;> exact ⟨_, rfl⟩

/-! ### the observers: every state the comparison reaches is the result of a history of events for the one file -/

theorem run_append (l : ObsList) : ∀ (h1 h2 : List Ev) (l1 : ObsList), l.run h1 = .ok l1 → l.run (h1 ++ h2) = l1.run h2 := by
  intro h1
  induction h1 generalizing l with
  | nil =>
    intro h2 l1 h
    simp only [ObsList.run, pure, Except.pure, Except.ok.injEq] at h
    subst h; rfl
  | cons ev rest ih =>
    intro h2 l1 h
    simp only [ObsList.run, List.cons_append, bind, Except.bind] at h ⊢
    cases hs : l.step ev with
    | error e => rw [hs] at h; cases h
    | ok l' =>
      rw [hs] at h
      simp only at h ⊢
      exact ih l' h2 l1 h

theorem run_single (l : ObsList) (ev : Ev) : l.run [ev] = l.step ev := by
  simp only [ObsList.run, bind, Except.bind]
  cases l.step ev <;> rfl

/-- fresh observers: empty details trees -/
def Fresh (obs0 : ObsList) : Prop :=
  TreeM.Inv obs0.own.details ∧ ∀ o ∈ obs0.observers, TreeM.Inv o.details

theorem fresh_init (q : Nat) (flts : List (Option ObsM.Filter)) : Fresh (ObsList.init q (flts.map (Obs.init q))) := by
  refine ⟨ObsM.inv_empty, ?_⟩
  intro o ho
  simp only [ObsList.init, List.mem_map] at ho
  obtain ⟨flt, _, rfl⟩ := ho
  exact ObsM.inv_empty

/-- `l` is what the observers `obs0` look like after the events `h`, all for `file` -/
structure Reach (obs0 : ObsList) (file : ObsM.File) (h : List Ev) (l : ObsList) : Prop where
  run : obs0.run h = .ok l
  files : ∀ ev ∈ h, ev.file = file

theorem Reach.nil (obs0 : ObsList) (file : ObsM.File) : Reach obs0 file [] obs0 := ⟨rfl, by simp⟩

/-- `observers.notify(category, l10n, data)` never raises, and extends the history by that event -/
theorem notify_spec (env : Env) {obs0 : ObsList} (hf : Fresh obs0) (hm : ObsM.Modelled env.file)
    {h : List Ev} {l : ObsList} (hr : Reach obs0 env.file h l) (cat : ObsM.Cat) (d : ObsM.Data) :
    ∃ l' rv, notify env l cat d = .ok (l', rv) ∧ Reach obs0 env.file (h ++ [.notify cat env.file d]) l' := by
  have hall : ∀ ev ∈ h ++ [Ev.notify cat env.file d], ObsM.Modelled ev.file := by
    intro ev hev
    simp only [List.mem_append, List.mem_singleton] at hev
    rcases hev with hev | rfl
    · rw [hr.files ev hev]; exact hm
    · exact hm
  obtain ⟨l', hl'⟩ := ObsM.list_run_ok _ obs0 hf.1 hf.2 hall
  have hstep : l.step (.notify cat env.file d) = .ok l' := by
    rw [run_append obs0 h _ l hr.run, run_single] at hl'
    exact hl'
  have hn : ∃ rv, l.notify cat env.file d = .ok (l', rv) := by
    simp only [ObsList.step, bind, Except.bind] at hstep
    cases hn : l.notify cat env.file d with
    | error e => rw [hn] at hstep; cases hstep
    | ok r =>
      obtain ⟨l1, rv⟩ := r
      rw [hn] at hstep
      simp only [pure, Except.pure, Except.ok.injEq] at hstep
      subst hstep
      exact ⟨rv, rfl⟩
  obtain ⟨rv, hn⟩ := hn
  refine ⟨l', rv, by simp [notify, hn], hl', ?_⟩
  intro ev hev
  simp only [List.mem_append, List.mem_singleton] at hev
  rcases hev with hev | rfl
  · exact hr.files ev hev
  · rfl

/-- `observers.updateStats(l10n, stats)` -/
theorem updateStats_reach {obs0 : ObsList} {file : ObsM.File} {h : List Ev} {l : ObsList} (hr : Reach obs0 file h l)
    (st : List (ObsM.StatKey × Nat)) : Reach obs0 file (h ++ [.stats file st]) (l.updateStats file st) := by
  refine ⟨?_, ?_⟩
  · rw [run_append obs0 h _ l hr.run, run_single]; rfl
  · intro ev hev
    simp only [List.mem_append, List.mem_singleton] at hev
    rcases hev with hev | rfl
    · exact hr.files ev hev
    · rfl

def Reachable (obs0 : ObsList) (file : ObsM.File) (l : ObsList) : Prop := ∃ h, Reach obs0 file h l

/-- exactly the events `evs` (all for `file`) lead from `l` to `l'` -/
def Emit (obs0 : ObsList) (file : ObsM.File) (l l' : ObsList) (evs : List Ev) : Prop :=
  ∀ h, Reach obs0 file h l → Reach obs0 file (h ++ evs) l'

theorem Emit.refl (obs0 : ObsList) (file : ObsM.File) (l : ObsList) : Emit obs0 file l l [] := by
  intro h hr; simpa using hr

theorem Emit.trans {obs0 : ObsList} {file : ObsM.File} {a b c : ObsList} {e1 e2 : List Ev}
    (h1 : Emit obs0 file a b e1) (h2 : Emit obs0 file b c e2) : Emit obs0 file a c (e1 ++ e2) := by
  intro h hr
  have := h2 _ (h1 h hr)
  simpa [List.append_assoc] using this

theorem Emit.reachable {obs0 : ObsList} {file : ObsM.File} {a b : ObsList} {e : List Ev}
    (h1 : Emit obs0 file a b e) (hr : Reachable obs0 file a) : Reachable obs0 file b := by
  obtain ⟨h, hh⟩ := hr
  exact ⟨_, h1 h hh⟩

theorem notify_emit (env : Env) {obs0 : ObsList} (hf : Fresh obs0) (hm : ObsM.Modelled env.file)
    {l : ObsList} (hr : Reachable obs0 env.file l) (cat : ObsM.Cat) (d : ObsM.Data) :
    ∃ l' rv, notify env l cat d = .ok (l', rv) ∧ Emit obs0 env.file l l' [.notify cat env.file d] := by
  obtain ⟨h, hh⟩ := hr
  obtain ⟨l', rv, hn, hr'⟩ := notify_spec env hf hm hh cat d
  refine ⟨l', rv, hn, ?_⟩
  intro h2 hh2
  refine ⟨?_, ?_⟩
  · have h1 := hr'.run
    rw [run_append obs0 h _ l hh.run] at h1
    rw [run_append obs0 h2 _ l hh2.run]
    exact h1
  · intro ev hev
    simp only [List.mem_append, List.mem_singleton] at hev
    rcases hev with hev | rfl
    · exact hh2.files ev hev
    · rfl

/-! ### the check loop -/

/-- the notification raised for one check result -/
def checkEv (env : Env) (refent l10nent : PEnt) (c : CheckRes) : Option Ev :=
  (resolvePos env.l10nText env.cls l10nent c.pos).map (fun lc =>
    Ev.notify (sevCat c.sev) env.file (.str (checkMsg c.msg lc.1 lc.2 refent.key)))

theorem checkLoop_spec (env : Env) {obs0 : ObsList} (hf : Fresh obs0) (hm : ObsM.Modelled env.file) (refent l10nent : PEnt) :
    ∀ (results : List CheckRes), (∀ c ∈ results, Resolvable env.cls l10nent c.pos) →
    ∀ (obs : ObsList) (skips : List PEnt), Reachable obs0 env.file obs →
      ∃ obs' skips', checkLoop env refent l10nent results (obs, skips) = .ok (obs', skips') ∧
        Emit obs0 env.file obs obs' (results.filterMap (checkEv env refent l10nent)) ∧
        (∀ sk ∈ skips', sk ∈ skips ∨ sk = l10nent) := by
  intro results
  induction results with
  | nil =>
    intro _ obs skips _
    exact ⟨obs, skips, rfl, Emit.refl _ _ _, fun sk h => Or.inl h⟩
  | cons c cs ih =>
    intro hres obs skips hr
    obtain ⟨lc, hlc⟩ := resolve_ok env.l10nText env.cls l10nent c.pos (hres c (by simp))
    obtain ⟨obs1, rv, hn, he⟩ := notify_emit env hf hm hr (sevCat c.sev) (.str (checkMsg c.msg lc.1 lc.2 refent.key))
    obtain ⟨obs', skips', hcl, he2, hsk⟩ := ih (fun c' hc' => hres c' (by simp [hc'])) obs1
      (if c.sev == .error && env.mergeOn && !skips.contains l10nent then skips ++ [l10nent] else skips) (he.reachable hr)
    refine ⟨obs', skips', ?_, ?_, ?_⟩
    · simp only [checkLoop, hlc, hn]
      exact hcl
    · have : (c :: cs).filterMap (checkEv env refent l10nent)
          = [Ev.notify (sevCat c.sev) env.file (.str (checkMsg c.msg lc.1 lc.2 refent.key))] ++ cs.filterMap (checkEv env refent l10nent) := by
        simp [checkEv, hlc]
      rw [this]
      exact he.trans he2
    · intro sk hsk'
      rcases hsk sk hsk' with h | h
      · split at h
        · simp only [List.mem_append, List.mem_singleton] at h
          exact h
        · exact Or.inl h
      · exact Or.inr h

/-! ### shapes of the notifications -/

/-- the texts `compare` hands to `notify("error" | "warning", …)`: all are `str`, positions are formatted integers -/
def MsgShape (t : Text) : Prop :=
  (∃ k n, t = dupMsg k n) ∨ t = Gen.Tables.cmpRefJunkMsg ∨
  (∃ (v : Text) (l1 c1 l2 c2 : Int), t = Lint.interleave Gen.Tables.junkMessageParts
      [v, Lint.showInt l1, Lint.showInt c1, Lint.showInt l2, Lint.showInt c2]) ∨
  (∃ (msg : Text) (line col : Int) (k : Cmp.Key), t = checkMsg msg line col k)

/-- a well-formed event of one comparison -/
def EvWF : Ev → Prop
  | .notify cat _ d =>
    ((cat = .error ∨ cat = .warning) ∧ ∃ t, d = .str t ∧ MsgShape t) ∨
    ((cat = .missingEntity ∨ cat = .obsoleteEntity) ∧ ∃ k, d = keyData k)
  | .stats _ _ => True

theorem checkEv_wf (env : Env) (refent l10nent : PEnt) (c : CheckRes) (ev : Ev)
    (h : checkEv env refent l10nent c = some ev) : EvWF ev := by
  unfold checkEv at h
  cases hr : resolvePos env.l10nText env.cls l10nent c.pos with
  | none => simp [hr] at h
  | some lc =>
    simp only [hr, Option.map_some, Option.some.injEq] at h
    subst h
    left
    refine ⟨?_, _, rfl, Or.inr (Or.inr (Or.inr ⟨_, _, _, _, rfl⟩))⟩
    cases c.sev <;> simp [sevCat]

theorem junkMessage_shape {s : Array Nat} {cls : Cls} {j : PEnt} {t : Text} (h : junkMessage s cls j = .ok t) : MsgShape t := by
  unfold junkMessage at h
  split at h
  · cases h
  · simp only [Except.ok.injEq] at h
    subst h
    exact Or.inr (Or.inr (Or.inl ⟨_, _, _, _, _, rfl⟩))

/-! ### one iteration of the loop -/

/-- the checker answers for every pair the loop can hand to it, with positions the entry can resolve -/
def CheckerOK (env : Env) (ref l10n : List PEnt) : Prop :=
  ∀ r ∈ ref, ∀ l ∈ l10n, r.junk = false → (env.ck.kind ≠ .base → l.junk = false) →
    (∃ b, entEquals env.cls r l = .ok b) ∧
    ∃ rs, runChecker env.ck r l = .ok rs ∧ ∀ c ∈ rs, Resolvable env.cls l c.pos

/-- no key shared by the two files belongs to a `Junk` of the reference (a `Junk` has no `equals`); with any checker
    but the base one neither to a `Junk` of the localization (a `Junk` has no `value_position`, `entry`, `node`) -/
def NoJunkClash (ck : CheckerKind) (ref l10n : List PEnt) : Prop :=
  ∀ k, k ∈ ref.map (·.key) → k ∈ l10n.map (·.key) →
    (∀ r, lookup ref k = .ok r → r.junk = false) ∧
    (ck ≠ .base → ∀ l, lookup l10n k = .ok l → l.junk = false)

/-- what the loop keeps true about its lists -/
structure Good (ref : List PEnt) (st : LoopSt) : Prop where
  missings : ∀ k ∈ st.missings, k ∈ ref.map (·.key)
  skips : ∀ sk ∈ st.skips, sk.junk = false → sk.key ∈ ref.map (·.key)

/-- the label of a diff item agrees with where its key occurs -/
def LabelOK (ref l10n : List PEnt) (p : AR.Label × Cmp.Key) : Prop :=
  match p.1 with
  | .delete => p.2 ∈ ref.map (·.key)
  | .add => p.2 ∈ l10n.map (·.key)
  | .equal => p.2 ∈ ref.map (·.key) ∧ p.2 ∈ l10n.map (·.key)

/-- the events of an `equal` item are exactly the notifications of the check results of the two last entries -/
def StepEvs (env : Env) (ref l10n : List PEnt) (p : AR.Label × Cmp.Key) (evs : List Ev) : Prop :=
  p.1 = .equal → ∃ refent l10nent rs, lookup ref p.2 = .ok refent ∧ lookup l10n p.2 = .ok l10nent ∧
    runChecker env.ck refent l10nent = .ok rs ∧ evs = rs.filterMap (checkEv env refent l10nent)

theorem step_spec (env : Env) {obs0 : ObsList} (hf : Fresh obs0) (hm : ObsM.Modelled env.file) (ref l10n : List PEnt)
    (hck : CheckerOK env ref l10n) (hnc : NoJunkClash env.ck.kind ref l10n)
    (st : LoopSt) (p : AR.Label × Cmp.Key) (hp : LabelOK ref l10n p)
    (hr : Reachable obs0 env.file st.obs) (hg : Good ref st) :
    ∃ st' evs, step env ref l10n st p = .ok st' ∧ Emit obs0 env.file st.obs st'.obs evs ∧
      (∀ ev ∈ evs, EvWF ev) ∧ StepEvs env ref l10n p evs ∧ Good ref st' := by
  obtain ⟨lab, k⟩ := p
  cases lab with
  | delete =>
    simp only [LabelOK] at hp
    obtain ⟨refent, hl⟩ := lookup_of_mem ref k hp
    have hse : ∀ evs, StepEvs env ref l10n (.delete, k) evs := by
      intro evs h; cases h
    cases hj : refent.junk with
    | true =>
      obtain ⟨obs', rv, hn, he⟩ := notify_emit env hf hm hr .warning (.str Gen.Tables.cmpRefJunkMsg)
      refine ⟨?st1, ?evs1, ?hs1, ?he1, ?hwf1, ?hse1, ?hg1⟩
      case hs1 =>
        simp only [step, hl, hj, if_true, hn]; rfl
      case he1 =>
        exact he
      case hwf1 =>
        intro ev hev
        simp only [List.mem_singleton] at hev
        subst hev
        exact Or.inl ⟨Or.inr rfl, _, rfl, Or.inr (Or.inl rfl)⟩
      case hg1 =>
        exact ⟨hg.missings, hg.skips⟩
      case hse1 => exact hse _
    | false =>
      obtain ⟨obs', rv, hn, he⟩ := notify_emit env hf hm hr .missingEntity (keyData k)
      have hwf : ∀ ev ∈ [Ev.notify .missingEntity env.file (keyData k)], EvWF ev := by
        intro ev hev
        simp only [List.mem_singleton] at hev
        subst hev
        exact Or.inr ⟨Or.inl rfl, _, rfl⟩
      cases rv with
      | ignore =>
        refine ⟨?st2, ?evs2, ?hs2, ?he2, ?hwf2, ?hse2, ?hg2⟩
        case hs2 =>
          simp only [step, hl, hj, Bool.false_eq_true, if_false, hn]; rfl
        case he2 =>
          exact he
        case hg2 =>
          exact ⟨hg.missings, hg.skips⟩
        case hwf2 => exact hwf
        case hse2 => exact hse _
      | warning =>
        refine ⟨?st3, ?evs3, ?hs3, ?he3, ?hwf3, ?hse3, ?hg3⟩
        case hs3 =>
          simp only [step, hl, hj, Bool.false_eq_true, if_false, hn]; rfl
        case he3 =>
          exact he
        case hg3 =>
          exact ⟨hg.missings, hg.skips⟩
        case hwf3 => exact hwf
        case hse3 => exact hse _
      | error =>
        refine ⟨?st4, ?evs4, ?hs4, ?he4, ?hwf4, ?hse4, ?hg4⟩
        case hs4 =>
          simp only [step, hl, hj, Bool.false_eq_true, if_false, hn]; rfl
        case he4 =>
          exact he
        case hg4 =>
          refine ⟨?_, hg.skips⟩
          intro k' hk'
          simp only [List.mem_append, List.mem_singleton] at hk'
          rcases hk' with hk' | rfl
          · exact hg.missings k' hk'
          · exact hp
        case hwf4 => exact hwf
        case hse4 => exact hse _
  | add =>
    simp only [LabelOK] at hp
    obtain ⟨l10nent, hl⟩ := lookup_of_mem l10n k hp
    have hse : ∀ evs, StepEvs env ref l10n (.add, k) evs := by
      intro evs h; cases h
    cases hj : l10nent.junk with
    | true =>
      obtain ⟨msg, hmsg⟩ := junkMessage_ok env.l10nText env.cls l10nent
      obtain ⟨obs', rv, hn, he⟩ := notify_emit env hf hm hr .error (.str msg)
      refine ⟨?st5, ?evs5, ?hs5, ?he5, ?hwf5, ?hse5, ?hg5⟩
      case hs5 =>
        simp only [step, hl, hj, if_true, hmsg, hn]; rfl
      case he5 =>
        exact he
      case hwf5 =>
        intro ev hev
        simp only [List.mem_singleton] at hev
        subst hev
        exact Or.inl ⟨Or.inl rfl, _, rfl, junkMessage_shape hmsg⟩
      case hg5 =>
        refine ⟨hg.missings, ?_⟩
        intro sk hsk hnj
        simp only at hsk
        split at hsk
        · simp only [List.mem_append, List.mem_singleton] at hsk
          rcases hsk with hsk | rfl
          · exact hg.skips sk hsk hnj
          · rw [hj] at hnj; cases hnj
        · exact hg.skips sk hsk hnj
      case hse5 => exact hse _
    | false =>
      obtain ⟨obs', rv, hn, he⟩ := notify_emit env hf hm hr .obsoleteEntity (keyData k)
      have hwf : ∀ ev ∈ [Ev.notify .obsoleteEntity env.file (keyData k)], EvWF ev := by
        intro ev hev
        simp only [List.mem_singleton] at hev
        subst hev
        exact Or.inr ⟨Or.inr rfl, _, rfl⟩
      by_cases hrv : (rv != .ignore) = true
      · refine ⟨?st6, ?evs6, ?hs6, ?he6, ?hwf6, ?hse6, ?hg6⟩
        case hs6 =>
          simp only [step, hl, hj, Bool.false_eq_true, if_false, hn, hrv, if_true]; rfl
        case he6 =>
          exact he
        case hg6 =>
          exact ⟨hg.missings, hg.skips⟩
        case hwf6 => exact hwf
        case hse6 => exact hse _
      · refine ⟨?st7, ?evs7, ?hs7, ?he7, ?hwf7, ?hse7, ?hg7⟩
        case hs7 =>
          simp only [step, hl, hj, Bool.false_eq_true, if_false, hn, hrv]; rfl
        case he7 =>
          exact he
        case hg7 =>
          exact ⟨hg.missings, hg.skips⟩
        case hwf7 => exact hwf
        case hse7 => exact hse _
  | equal =>
    simp only [LabelOK] at hp
    obtain ⟨hpr, hpl⟩ := hp
    obtain ⟨refent, hlr⟩ := lookup_of_mem ref k hpr
    obtain ⟨l10nent, hll⟩ := lookup_of_mem l10n k hpl
    obtain ⟨hrj, hlj⟩ := hnc k hpr hpl
    have hrj := hrj refent hlr
    have hlj : env.ck.kind ≠ .base → l10nent.junk = false := fun h => hlj h l10nent hll
    obtain ⟨hrmem, hrkey, _⟩ := lookup_ok hlr
    obtain ⟨hlmem, hlkey, _⟩ := lookup_ok hll
    obtain ⟨⟨eqb, heq⟩, rs, hrs, hres⟩ := hck refent hrmem l10nent hlmem hrj hlj
    obtain ⟨obs', skips', hcl, he, hsk⟩ := checkLoop_spec env hf hm refent l10nent rs hres st.obs st.skips hr
    have hgood : ∀ stats, Good ref { st with obs := obs', stats := stats, skips := skips' } := by
      intro stats
      refine ⟨hg.missings, ?_⟩
      intro sk hsk' hnj
      rcases hsk sk hsk' with h | rfl
      · exact hg.skips sk h hnj
      · rw [hlkey]; exact hpr
    have hwf : ∀ ev ∈ rs.filterMap (checkEv env refent l10nent), EvWF ev := by
      intro ev hev
      simp only [List.mem_filterMap] at hev
      obtain ⟨c, _, hc⟩ := hev
      exact checkEv_wf env refent l10nent c ev hc
    have hse : StepEvs env ref l10n (.equal, k) (rs.filterMap (checkEv env refent l10nent)) :=
      fun _ => ⟨refent, l10nent, rs, hlr, hll, hrs, rfl⟩
    by_cases hkm : Cmp.keyMatch k = true
    · refine ⟨?st8, ?evs8, ?hs8, ?he8, ?hwf8, ?hse8, ?hg8⟩
      case hs8 =>
        simp only [step, hlr, hll, hkm, if_true, hrs, hcl]; rfl
      case he8 =>
        exact he
      case hg8 =>
        exact hgood _
      case hwf8 => exact hwf
      case hse8 => exact hse
    · cases eqb with
      | true =>
        refine ⟨?st9, ?evs9, ?hs9, ?he9, ?hwf9, ?hse9, ?hg9⟩
        case hs9 =>
          simp only [step, hlr, hll, hkm, hrj, Bool.false_eq_true, if_false, heq, hrs, hcl]; rfl
        case he9 =>
          exact he
        case hg9 =>
          exact hgood _
        case hwf9 => exact hwf
        case hse9 => exact hse
      | false =>
        refine ⟨?st10, ?evs10, ?hs10, ?he10, ?hwf10, ?hse10, ?hg10⟩
        case hs10 =>
          simp only [step, hlr, hll, hkm, hrj, Bool.false_eq_true, if_false, heq, hrs, hcl]; rfl
        case he10 =>
          exact he
        case hg10 =>
          exact hgood _
        case hwf10 => exact hwf
        case hse10 => exact hse

/-! ### the whole loop, the duplicate notifications, the merge call -/

theorem loop_spec (env : Env) {obs0 : ObsList} (hf : Fresh obs0) (hm : ObsM.Modelled env.file) (ref l10n : List PEnt)
    (hck : CheckerOK env ref l10n) (hnc : NoJunkClash env.ck.kind ref l10n) :
    ∀ (ar : List (AR.Label × Cmp.Key)), (∀ p ∈ ar, LabelOK ref l10n p) →
    ∀ (st : LoopSt), Reachable obs0 env.file st.obs → Good ref st →
      ∃ st' evs, foldE (step env ref l10n) ar st = .ok st' ∧ Emit obs0 env.file st.obs st'.obs evs ∧
        (∀ ev ∈ evs, EvWF ev) ∧ Good ref st' ∧
        ∀ p ∈ ar, ∃ evp, StepEvs env ref l10n p evp ∧ ∀ ev ∈ evp, ev ∈ evs := by
  intro ar
  induction ar with
  | nil =>
    intro _ st _ hg
    exact ⟨st, [], rfl, Emit.refl _ _ _, by simp, hg, by simp⟩
  | cons p ps ih =>
    intro hlab st hr hg
    obtain ⟨st1, e1, hs1, he1, hw1, hse1, hg1⟩ := step_spec env hf hm ref l10n hck hnc st p (hlab p (by simp)) hr hg
    obtain ⟨st', e2, hs2, he2, hw2, hg2, hall⟩ := ih (fun q hq => hlab q (by simp [hq])) st1 (he1.reachable hr) hg1
    refine ⟨st', e1 ++ e2, by simp [foldE, hs1, hs2], he1.trans he2, ?_, hg2, ?_⟩
    · intro ev hev
      simp only [List.mem_append] at hev
      rcases hev with h | h
      · exact hw1 ev h
      · exact hw2 ev h
    · intro q hq
      simp only [List.mem_cons] at hq
      rcases hq with rfl | hq
      · exact ⟨e1, hse1, fun ev hev => by simp [hev]⟩
      · obtain ⟨evp, h1, h2⟩ := hall q hq
        exact ⟨evp, h1, fun ev hev => by simp [h2 ev hev]⟩

theorem notifyDups_spec (env : Env) {obs0 : ObsList} (hf : Fresh obs0) (hm : ObsM.Modelled env.file) (cat : ObsM.Cat) :
    ∀ (dups : List (Cmp.Key × Nat)) (obs : ObsList), Reachable obs0 env.file obs →
      ∃ obs', notifyDups env cat dups obs = .ok obs' ∧
        Emit obs0 env.file obs obs' (dups.map (fun p => Ev.notify cat env.file (.str (dupMsg p.1 p.2)))) := by
  intro dups
  induction dups with
  | nil => intro obs _; exact ⟨obs, rfl, Emit.refl _ _ _⟩
  | cons p ps ih =>
    intro obs hr
    obtain ⟨k, n⟩ := p
    obtain ⟨obs1, rv, hn, he⟩ := notify_emit env hf hm hr cat (.str (dupMsg k n))
    obtain ⟨obs', h2, he2⟩ := ih obs1 (he.reachable hr)
    exact ⟨obs', by simp [notifyDups, hn, h2], by simpa using he.trans he2⟩

/-- the merge call: the lookups of the collected keys succeed and every skip has a span, which is all
    `Merge.merge` needs (`hmerge` is `C05.merge_no_type_error`) -/
theorem refAllOf_ok (ref : List PEnt) (k : Cmp.Key) (h : k ∈ ref.map (·.key)) : ∃ t, refAllOf ref k = .ok t := by
  obtain ⟨r, hr⟩ := lookup_of_mem ref k h
  exact ⟨r.all, by simp [refAllOf, hr]⟩

theorem doMerge_ok (env : Env) (ref : List PEnt) (st : LoopSt) (hg : Good ref st)
    (hsp : env.mergeOn = true → env.cls ≠ .node)
    (hmerge : ∀ (mf : Bool) (caps : Nat) (contents : List Nat) (skips : List Merge.Skip) (ms : List (List Nat)),
      (∀ s ∈ skips, s.span.isSome) → Merge.merge mf caps contents skips ms ≠ .typeError) :
    ∃ o, doMerge env ref st.missings st.skips = .ok o := by
  unfold doMerge
  cases hmo : env.mergeOn with
  | false => exact ⟨_, rfl⟩
  | true =>
    simp only [Bool.not_true, Bool.false_eq_true, if_false]
    obtain ⟨ms, hms, _⟩ := mapE_ok (f := refAllOf ref) (l := st.missings)
      (fun k hk => refAllOf_ok ref k (hg.missings k hk))
    have hspan : ∀ sk : PEnt, spanOf env.cls sk = some (sk.entry.s, sk.entry.e) := by
      intro sk
      have := hsp hmo
      cases hc : env.cls <;> simp_all [spanOf]
    obtain ⟨sks, hsks, hmem⟩ := mapE_ok (f := mkSkip env.cls ref) (l := st.skips) (by
      intro sk hsk
      unfold mkSkip
      cases hj : sk.junk with
      | true => exact ⟨_, rfl⟩
      | false =>
        obtain ⟨t, ht⟩ := refAllOf_ok ref sk.key (hg.skips sk hsk hj)
        exact ⟨{ span := spanOf env.cls sk, junk := false, refAll := t }, by simp [ht]⟩)
    have hspans : ∀ s ∈ sks, s.span.isSome := by
      intro s hs
      obtain ⟨sk, _, hmk⟩ := hmem s hs
      unfold mkSkip at hmk
      split at hmk
      · simp only [Except.ok.injEq] at hmk; subst hmk; simp [hspan]
      · split at hmk
        · cases hmk
        · simp only [Except.ok.injEq] at hmk; subst hmk; simp [hspan]
    have hne := hmerge true env.caps env.l10nText.toList sks ms hspans
    rw [hms, hsks]
    simp only
    first
      | exact ⟨_, rfl⟩
      | (split
         · rename_i heq; exact absurd heq hne
         · exact ⟨_, rfl⟩)

/-! ### `compare` after parsing -/

theorem labels_ok (ref l10n : List PEnt) :
    ∀ p ∈ AR.addRemove (ref.map (·.key)) (l10n.map (·.key)), LabelOK ref l10n p := by
  intro p hp
  have hl := AR.addRemove_labels_gen _ _ p hp
  have hm := (AR.addRemove_keys_mem_gen (ref.map (·.key)) (l10n.map (·.key)) p.2).1 (List.mem_map_of_mem hp)
  unfold LabelOK
  rw [hl]
  unfold AR.lab
  by_cases h1 : (ref.map (·.key)).contains p.2 = true
  · by_cases h2 : (l10n.map (·.key)).contains p.2 = true
    · simp only [h1, h2, if_true]
      exact ⟨by simpa using h1, by simpa using h2⟩
    · simp only [h1, h2, if_true, Bool.false_eq_true, if_false]
      simpa using h1
  · simp only [h1, Bool.false_eq_true, if_false]
    rcases hm with hm | hm
    · exact absurd (by simpa using hm) h1
    · exact hm

/-- the events of the whole comparison: duplicates of the reference, duplicates of the localization, the loop, the stats -/
theorem compareParsed_spec (env : Env) {obs0 : ObsList} (hf : Fresh obs0) (hm : ObsM.Modelled env.file) (ref l10n : List PEnt)
    (hck : CheckerOK env ref l10n) (hnc : NoJunkClash env.ck.kind ref l10n)
    (hsp : env.mergeOn = true → env.cls ≠ .node)
    (hmerge : ∀ (mf : Bool) (caps : Nat) (contents : List Nat) (skips : List Merge.Skip) (ms : List (List Nat)),
      (∀ s ∈ skips, s.span.isSome) → Merge.merge mf caps contents skips ms ≠ .typeError) :
    ∃ obs' outcome evs stats, compareParsed env ref l10n obs0 = .ok (obs', outcome) ∧
      Reach obs0 env.file (evs ++ [.stats env.file stats]) obs' ∧ (∀ ev ∈ evs, EvWF ev) ∧
      ∀ p ∈ AR.addRemove (ref.map (·.key)) (l10n.map (·.key)), ∃ evp, StepEvs env ref l10n p evp ∧ ∀ ev ∈ evp, ev ∈ evs := by
  have hr0 : Reachable obs0 env.file obs0 := ⟨[], Reach.nil _ _⟩
  obtain ⟨obs1, h1, e1⟩ := notifyDups_spec env hf hm .warning (Hist.findDuplicates (ref.map (·.key))) obs0 hr0
  obtain ⟨obs2, h2, e2⟩ := notifyDups_spec env hf hm .error (Hist.findDuplicates (l10n.map (·.key))) obs1 (e1.reachable hr0)
  have hr2 := e2.reachable (e1.reachable hr0)
  obtain ⟨st, evs, h3, e3, hw3, hg3, hall⟩ := loop_spec env hf hm ref l10n hck hnc _ (labels_ok ref l10n)
    { obs := obs2 } hr2 ⟨by simp, by simp⟩
  obtain ⟨o, ho⟩ := doMerge_ok env ref st hg3 hsp hmerge
  have hreach := ((e1.trans e2).trans e3) [] (Reach.nil _ _)
  refine ⟨st.obs.updateStats env.file (statsList st.stats), o, _, statsList st.stats, ?_,
    updateStats_reach hreach (statsList st.stats), ?_, ?_⟩
  · simp only [compareParsed, h1, h2, h3, ho]
  · intro ev hev
    simp only [List.nil_append, List.mem_append, List.mem_map] at hev
    rcases hev with (⟨p, _, rfl⟩ | ⟨p, _, rfl⟩) | hev
    · exact Or.inl ⟨Or.inr rfl, _, rfl, Or.inl ⟨_, _, rfl⟩⟩
    · exact Or.inl ⟨Or.inl rfl, _, rfl, Or.inl ⟨_, _, rfl⟩⟩
    · exact hw3 ev hev
  · intro p hp
    obtain ⟨evp, ha, hb⟩ := hall p hp
    exact ⟨evp, ha, fun ev hev => by simp [hb ev hev]⟩

/-! ### parsing: `p.readFile(f); p.parse()` never raises for the covered formats -/

open P Rx in
theorem walkFrom_mem {σ : Type} (next : σ → Nat → Entry × σ) (size : Nat) :
    ∀ (fuel : Nat) (ctx : σ) (off : Nat) (es : List Entry), walkFrom next size fuel ctx off = .done es →
      ∀ e ∈ es, ∃ ctx' off', e = (next ctx' off').1 := by
  intro fuel
  induction fuel with
  | zero =>
    intro ctx off es h e he
    simp only [walkFrom] at h
    split at h
    · cases h; cases he
    · cases h
  | succ fuel ih =>
    intro ctx off es h e he
    simp only [walkFrom] at h
    split at h
    · cases h; cases he
    · cases hw : walkFrom next size fuel (next ctx off).2 (next ctx off).1.e with
      | done es' =>
        rw [hw] at h
        simp only [WalkResult.cons, WalkResult.done.injEq] at h
        subst h
        simp only [List.mem_cons] at he
        rcases he with rfl | he
        · exact ⟨ctx, off, rfl⟩
        · exact ih _ _ _ hw e he
      | stuck o es' =>
        rw [hw] at h
        simp [WalkResult.cons] at h

open P Rx in
/-- an Entity returned by the base `getNext` was built by `createEntity` at its own start -/
theorem getNext_entity (c : BaseCfg) (s : Array Nat) (off : Nat) (h : (getNext c s off).kind = .entity) :
    ∃ km r, c.create s (getNext c s off).s km = some r := by
  simp only [getNext] at h ⊢
  rcases hcm : matchAt s c.reComment off with _ | cst
  · simp only [hcm, Option.isSome_none, Option.isNone_none, Bool.false_and] at h ⊢
    rcases hws : matchAt s c.reWhitespace off with _ | w
    · simp only [hws] at h ⊢
      rcases hk : matchAt s c.reKey off with _ | km
      · simp [hk, getJunk] at h
      · simp only [hk] at h ⊢
        rcases hcr : c.create s off km with _ | ⟨e, k, v⟩
        · simp [hcr, getJunk] at h
        · simp only [Option.map_some]
          exact ⟨km, _, hcr⟩
    · simp [hws] at h
  · simp only [hcm, Option.isSome_some, Option.isNone_some] at h ⊢
    split at h
    · rename_i e he
      split at he
      · cases he; simp at h
      · cases he
    · rename_i hnone
      try simp only [hnone]
      rcases hws : matchAt s c.reWhitespace cst.pos with _ | w
      · simp only [hws] at h ⊢
        rcases hk : matchAt s c.reKey cst.pos with _ | km
        · simp [hk] at h
        · simp only [hk] at h ⊢
          rcases hcr : c.create s cst.pos km with _ | ⟨e, k, v⟩
          · simp [hcr] at h
          · simp only [Option.map_some]
            exact ⟨km, _, hcr⟩
      · simp only [hws] at h ⊢
        split at h
        · rename_i e he
          split at he
          · cases he; simp at h
          · simp at he
        · rename_i hnone2
          try simp only [hnone2]
          rcases hk : matchAt s c.reKey w.pos with _ | km
          · simp [hk] at h
          · simp only [hk] at h ⊢
            rcases hcr : c.create s w.pos km with _ | ⟨e, k, v⟩
            · simp [hcr] at h
            · simp only [Option.map_some]
              exact ⟨km, _, hcr⟩

/-- every PO Entity of a walk has the three string lists `createEntity` parsed at its start -/
theorem po_entity_parts (s : Array Nat) (es : List P.Entry) (hw : P.walk .po s = .done es) :
    ∀ e ∈ es, e.kind = .entity → (P.poCreate s e.s).isSome := by
  intro e he hk
  obtain ⟨_, off, rfl⟩ := walkFrom_mem _ _ _ _ _ _ hw e he
  simp only [P.poGetNext] at hk ⊢
  obtain ⟨km, r, hcr⟩ := getNext_entity P.poCfg s off hk
  have hcr' : (P.poCreate s (P.getNext P.poCfg s off).s).map
      (fun p => (p.e, ((p.idS : Int), (p.idE : Int)), ((p.valS : Int), (p.e : Int)))) = some r := hcr
  cases hp : P.poCreate s (P.getNext P.poCfg s off).s with
  | none => rw [hp] at hcr'; cases hcr'
  | some p => rfl

theorem poEval_some (s : Array Nat) (frags : List (Nat × Nat)) : ∃ t, P.poEval s frags = some t := by
  unfold P.poEval
  have : ∃ ts, frags.mapM (fun (x : Nat × Nat) => P.poUnescape (P.slice s x.1 x.2)) = some ts := by
    induction frags with
    | nil => exact ⟨[], rfl⟩
    | cons x xs ih =>
      obtain ⟨ts, hts⟩ := ih
      have hx : P.poUnescape (P.slice s x.1 x.2) = some _ := P.poUnescape_eq_spec _
      exact ⟨P.poOnePassText (P.slice s x.1 x.2) :: ts, by simp only [List.mapM_cons, hx, hts, bind, Option.bind, pure]⟩
  obtain ⟨ts, hts⟩ := this
  exact ⟨ts.flatten, by simp [hts]⟩

/-- the attribute values of an Entity of a covered format can always be computed; only gettext keys are tuples -/
theorem entView_ok (f : P.Fmt) (s : Array Nat) (e : P.Entry)
    (hpo : f = .po → (P.poCreate s e.s).isSome) :
    ∃ v, P.entView f s e = some v ∧ (f ≠ .dtd → ∃ val, v.val = some val) ∧ (f ≠ .po → v.ctxt = none) ∧
      (f = .po → v.ctxt ≠ none) := by
  cases f with
  | dtd => exact ⟨_, rfl, fun h => absurd rfl h, fun _ => rfl, fun h => by cases h⟩
  | ini => exact ⟨_, rfl, fun _ => ⟨_, rfl⟩, fun _ => rfl, fun h => by cases h⟩
  | inc => exact ⟨_, rfl, fun _ => ⟨_, rfl⟩, fun _ => rfl, fun h => by cases h⟩
  | properties => exact ⟨_, rfl, fun _ => ⟨_, P.propsVal_eq_spec _⟩, fun _ => rfl, fun h => by cases h⟩
  | po =>
    have hp := hpo rfl
    obtain ⟨p, hp⟩ := Option.isSome_iff_exists.1 hp
    obtain ⟨mid, hmid⟩ := poEval_some s p.msgid
    obtain ⟨mstr, hmstr⟩ := poEval_some s p.msgstr
    cases hctx : p.msgctxt with
    | none =>
      exact ⟨_, by simp [P.entView, hp, hctx, hmid, hmstr]; rfl, fun _ => ⟨_, rfl⟩, fun h => absurd rfl h, fun _ => by simp⟩
    | some fr =>
      obtain ⟨c, hcx⟩ := poEval_some s fr
      exact ⟨_, by simp [P.entView, hp, hctx, hcx, hmid, hmstr]; rfl, fun _ => ⟨_, rfl⟩, fun h => absurd rfl h, fun _ => by simp⟩

theorem assign_entry_mem (f : P.Fmt) (s : Array Nat) (ctx : Nat) :
    ∀ (es : List P.Entry) (n off : Nat), ∀ h ∈ (Hist.assign f s ctx n off es).2, h.entry ∈ es := by
  intro es
  induction es with
  | nil => intro n off h hh; simp [Hist.assign] at hh
  | cons x t ih =>
    intro n off h hh
    simp only [Hist.assign, List.mem_cons] at hh
    rcases hh with rfl | hh
    · simp
    · exact List.mem_cons_of_mem _ (ih _ _ h hh)

/-- a parsed entry is a Junk or an Entity, and the flag says which; only gettext keys are tuples -/
def PWf (f : P.Fmt) (e : PEnt) : Prop :=
  ((e.junk = true ∧ e.entry.kind = .junk) ∨ (e.junk = false ∧ e.entry.kind = .entity)) ∧
  (f ≠ .po → ∃ t, e.key = .str t) ∧
  (f = .po → e.junk = false → ∃ a b, e.key = .tup a b)

theorem PWf.entity {f : P.Fmt} {e : PEnt} (h : PWf f e) (hj : e.junk = false) : e.entry.kind = .entity := by
  rcases h.1 with ⟨h1, _⟩ | ⟨_, h2⟩
  · rw [hj] at h1; cases h1
  · exact h2

theorem mkEnt_ok (ext : Ext) (f : P.Fmt) (s : Array Nat) (h : Hist.Ent)
    (hw : h.jid.isSome = (h.entry.kind == P.Kind.junk)) (hloc : h.entry.localizable = true)
    (hpo : f = .po → h.entry.kind = .entity → (P.poCreate s h.entry.s).isSome) :
    ∃ e, mkEnt ext f s h = .ok e ∧ PWf f e := by
  unfold mkEnt
  cases hj : h.jid with
  | some id =>
    rw [hj] at hw
    refine ⟨_, rfl, Or.inl ⟨rfl, ?_⟩, fun _ => ⟨_, rfl⟩, fun _ h => by simp [mkJunk] at h⟩
    simpa [mkJunk] using hw.symm
  | none =>
    rw [hj] at hw
    have hk : h.entry.kind = .entity := by
      have hnj : h.entry.kind ≠ .junk := by
        intro hh; rw [hh] at hw; simp at hw
      simp only [P.Entry.localizable, Bool.or_eq_true, beq_iff_eq] at hloc
      rcases hloc with h1 | h1
      · exact h1
      · exact absurd h1 hnj
    obtain ⟨v, hv, hval, hctx, hctx'⟩ := entView_ok f s h.entry (fun hf => hpo hf hk)
    simp only [hv]
    have hvv : ∃ val, entVal ext f v = some val := by
      by_cases hd : f = .dtd
      · subst hd; exact ⟨_, rfl⟩
      · obtain ⟨val, hv2⟩ := hval hd
        refine ⟨val, ?_⟩
        cases f <;> first | exact hv2 | exact absurd rfl hd
    obtain ⟨val, hvv⟩ := hvv
    rw [hvv]
    refine ⟨_, rfl, Or.inr ⟨rfl, hk⟩, ?_, ?_⟩
    · intro hf
      simp only [hctx hf]
      exact ⟨_, rfl⟩
    · intro hf _
      cases hc : v.ctxt with
      | none => exact absurd hc (hctx' hf)
      | some c => exact ⟨_, _, rfl⟩

theorem parseFile_ok (ext : Ext) (f : P.Fmt) (s : Array Nat) (junkid : Nat)
    (hwalk : ∃ es, P.walk f s = .done es) :
    ∃ ents n, parseFile ext f s junkid = .ok (ents, n) ∧ ∀ e ∈ ents, PWf f e := by
  obtain ⟨es, hes⟩ := hwalk
  unfold parseFile
  rw [hes]
  simp only
  obtain ⟨ents, hents, hmem⟩ := mapE_ok (f := mkEnt ext f s)
    (l := (Hist.assign f s 0 junkid 0 es).2.filter (fun h => h.entry.localizable)) (by
      intro h hh
      simp only [List.mem_filter] at hh
      obtain ⟨e, he, _⟩ := mkEnt_ok ext f s h (Hist.assign_wf f s 0 es junkid 0 h hh.1) hh.2 (by
        intro hf hk
        subst hf
        apply po_entity_parts s es hes _ _ hk
        exact assign_entry_mem _ s 0 es junkid 0 h hh.1)
      exact ⟨e, he⟩)
  refine ⟨ents, _, by rw [hents], ?_⟩
  intro e he
  obtain ⟨h, hh, hmk⟩ := hmem e he
  simp only [List.mem_filter] at hh
  obtain ⟨e', he', hwf⟩ := mkEnt_ok ext f s h (Hist.assign_wf f s 0 es junkid 0 h hh.1) hh.2 (by
    intro hf hk
    subst hf
    apply po_entity_parts s es hes _ _ hk
    exact assign_entry_mem _ s 0 es junkid 0 h hh.1)
  rw [hmk] at he'
  cases he'
  exact hwf

/-! ### the base checker answers for every pair -/

theorem checkerOK_base (env : Env) (h : env.ck.kind = .base) (hc : env.cls = .plain) (ref l10n : List PEnt) :
    CheckerOK env ref l10n := by
  intro r _ l _ _ _
  refine ⟨⟨_, by rw [hc]; rfl⟩, runBase l, by simp [runChecker, h], ?_⟩
  intro c hc
  simp only [runBase, List.mem_map] at hc
  obtain ⟨x, _, rfl⟩ := hc
  exact Or.inl ⟨_, rfl⟩

/-! ### the whole comparison -/

/-- the hypothesis of the totality theorems on the two texts: `NoJunkClash` for what they parse to -/
def NoJunkClashT (ext : Ext) (fmt : P.Fmt) (refText l10nText : Array Nat) : Prop :=
  ∀ ref n1 l10n n2, parseFile ext fmt refText 0 = .ok (ref, n1) → parseFile ext fmt l10nText n1 = .ok (l10n, n2) →
    NoJunkClash (checkerOf fmt) ref l10n

theorem clsOf_ne_node (fmt : P.Fmt) : clsOf fmt ≠ .node := by cases fmt <;> simp [clsOf]

/-- everything the property theorems need about one run of `compareFiles` -/
theorem compareFiles_spec (ext : Ext) (fmt : P.Fmt)
    (file : ObsM.File) (hm : ObsM.Modelled file) {obs0 : ObsList} (hf : Fresh obs0)
    (refText l10nText : Array Nat) (mergeOn : Bool)
    (hwalk : ∀ s, ∃ es, P.walk fmt s = .done es)
    (hmerge : ∀ (mf : Bool) (caps : Nat) (contents : List Nat) (skips : List Merge.Skip) (ms : List (List Nat)),
      (∀ s ∈ skips, s.span.isSome) → Merge.merge mf caps contents skips ms ≠ .typeError)
    (hchk : ∀ ref n1 l10n n2, parseFile ext fmt refText 0 = .ok (ref, n1) → parseFile ext fmt l10nText n1 = .ok (l10n, n2) →
      (∀ e ∈ ref, PWf fmt e) → (∀ e ∈ l10n, PWf fmt e) →
      CheckerOK (envOf ext fmt file mergeOn ref l10nText) ref l10n)
    (hnc : NoJunkClashT ext fmt refText l10nText) :
    ∃ ref n1 l10n n2 obs' outcome evs stats,
      parseFile ext fmt refText 0 = .ok (ref, n1) ∧ parseFile ext fmt l10nText n1 = .ok (l10n, n2) ∧
      (∀ e ∈ ref, PWf fmt e) ∧ (∀ e ∈ l10n, PWf fmt e) ∧
      compareFiles ext fmt file obs0 refText l10nText mergeOn = .ok (reportOf obs' outcome) ∧
      Reach obs0 file (evs ++ [.stats file stats]) obs' ∧ (∀ ev ∈ evs, EvWF ev) ∧
      ∀ p ∈ AR.addRemove (ref.map (·.key)) (l10n.map (·.key)),
        ∃ evp, StepEvs (envOf ext fmt file mergeOn ref l10nText) ref l10n p evp ∧ ∀ ev ∈ evp, ev ∈ evs := by
  obtain ⟨ref, n1, hp1, hw1⟩ := parseFile_ok ext fmt refText 0 (hwalk refText)
  obtain ⟨l10n, n2, hp2, hw2⟩ := parseFile_ok ext fmt l10nText n1 (hwalk l10nText)
  obtain ⟨obs', outcome, evs, stats, hcmp, hreach, hwf, hall⟩ :=
    compareParsed_spec (envOf ext fmt file mergeOn ref l10nText) hf hm ref l10n (hchk ref n1 l10n n2 hp1 hp2 hw1 hw2)
      (hnc ref n1 l10n n2 hp1 hp2) (fun _ => clsOf_ne_node fmt) hmerge
  refine ⟨ref, n1, l10n, n2, obs', outcome, evs, stats, hp1, hp2, hw1, hw2, ?_, hreach, hwf, hall⟩
  simp only [compareFiles, hp1, hp2, hcmp]

/-! ### a decidable sufficient condition for `NoJunkClashT` -/

/-- no Junk key of one file is a key of the other file -/
def noClashB (ref l10n : List PEnt) : Bool :=
  ref.all (fun r => !r.junk || !(l10n.map (·.key)).contains r.key) &&
  l10n.all (fun l => !l.junk || !(ref.map (·.key)).contains l.key)

def noClashTB (ext : Ext) (fmt : P.Fmt) (refText l10nText : Array Nat) : Bool :=
  match parseFile ext fmt refText 0 with
  | .error _ => true
  | .ok (ref, n1) =>
    match parseFile ext fmt l10nText n1 with
    | .error _ => true
    | .ok (l10n, _) => noClashB ref l10n

theorem noClashB_sound (ck : CheckerKind) (ref l10n : List PEnt) (h : noClashB ref l10n = true) : NoJunkClash ck ref l10n := by
  simp only [noClashB, Bool.and_eq_true, List.all_eq_true] at h
  obtain ⟨h1, h2⟩ := h
  intro k hkr hkl
  refine ⟨?_, fun _ => ?_⟩
  · intro r hr
    obtain ⟨hm, hk, _⟩ := lookup_ok hr
    have := h1 r hm
    cases hj : r.junk with
    | false => rfl
    | true =>
      rw [hj, hk] at this
      have hc : (l10n.map (·.key)).contains k = true := by simpa using hkl
      rw [hc] at this
      cases this
  · intro l hl
    obtain ⟨hm, hk, _⟩ := lookup_ok hl
    have := h2 l hm
    cases hj : l.junk with
    | false => rfl
    | true =>
      rw [hj, hk] at this
      have hc : (ref.map (·.key)).contains k = true := by simpa using hkr
      rw [hc] at this
      cases this

theorem noClashTB_sound (ext : Ext) (fmt : P.Fmt) (refText l10nText : Array Nat)
    (h : noClashTB ext fmt refText l10nText = true) : NoJunkClashT ext fmt refText l10nText := by
  intro ref n1 l10n n2 hp1 hp2
  simp only [noClashTB, hp1, hp2] at h
  exact noClashB_sound _ ref l10n h

end Pipe

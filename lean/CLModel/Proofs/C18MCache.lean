/-
C18 (round 4) helper lemmas about the memo components of `HistM.S`: every cache holds what a fresh computation would
return (coherence), coherence is preserved by the operations, and under coherence an operation returns what the
cache-free pure model returns (`PM.mozMatch`, `PM.Matcher.match`, `FiltM.filterS`, …).
-/
import CLModel.History.Machine
import CLModel.Proofs.C18State
namespace C18M
open Hist HistM P Rx

/-! ### insertion-ordered dicts -/

section dict
variable {κ : Type} [BEq κ] [LawfulBEq κ] {β : Type}

theorem dget_dset (d : List (κ × β)) (k : κ) (v : β) (i : κ) :
    AR.dget (AR.dset d k v) i = if i == k then some v else AR.dget d i := by
  unfold AR.dset
  by_cases hany : d.any (·.1 == k) = true
  · simp only [hany, if_true]
    unfold AR.dget
    induction d with
    | nil => simp at hany
    | cons p t ih =>
      simp only [List.map_cons, List.find?_cons]
      by_cases hp : (p.1 == k) = true
      · have hpk : p.1 = k := by simpa using hp
        simp only [hp, if_true]
        by_cases hi : (i == k) = true
        · have hik : i = k := by simpa using hi
          subst hik
          simp
        · have : (k == i) = false := by
            cases h : (k == i)
            · rfl
            · have : k = i := by simpa using h
              subst this; simp at hi
          simp only [this, hi, Bool.false_eq_true, if_false]
          have hpi : (p.1 == i) = false := by rw [hpk]; exact this
          simp only [hpi]
          by_cases hany' : t.any (·.1 == k) = true
          · have := ih hany'
            simpa [hi] using this
          · -- no further entry with key k: the map is the identity on t
            have hid : t.map (fun q => if (q.1 == k) = true then (k, v) else q) = t := by
              have : ∀ q ∈ t, (q.1 == k) = false := by
                intro q hq
                cases h : (q.1 == k)
                · rfl
                · exact absurd (List.any_eq_true.mpr ⟨q, hq, h⟩) hany'
              conv => rhs; rw [← List.map_id t]
              apply List.map_congr_left
              intro q hq
              simp [this q hq]
            rw [hid]
      · simp only [hp, Bool.false_eq_true, if_false]
        have hany' : t.any (·.1 == k) = true := by
          simp only [List.any_cons, hp, Bool.false_or] at hany
          exact hany
        have := ih hany'
        by_cases hpi : (p.1 == i) = true
        · have hpi' : p.1 = i := by simpa using hpi
          have hik : (i == k) = false := by
            cases h : (i == k)
            · rfl
            · have : i = k := by simpa using h
              subst this; subst hpi'; simp at hp
          simp [hpi, hik]
        · simp only [hpi]
          exact this
  · simp only [hany, Bool.false_eq_true, if_false]
    unfold AR.dget
    rw [List.find?_append]
    have hnone : ∀ q ∈ d, (q.1 == k) = false := by
      intro q hq
      cases h : (q.1 == k)
      · rfl
      · exact absurd (List.any_eq_true.mpr ⟨q, hq, h⟩) hany
    by_cases hi : (i == k) = true
    · have hik : i = k := by simpa using hi
      subst hik
      have : d.find? (·.1 == i) = none := by
        rw [List.find?_eq_none]
        intro q hq
        simp [hnone q hq]
      simp [this]
    · have hki : (k == i) = false := by
        cases h : (k == i)
        · rfl
        · have : k = i := by simpa using h
          subst this; simp at hi
      simp only [hi, Bool.false_eq_true, if_false]
      cases hf : d.find? (·.1 == i) with
      | some q => simp
      | none => simp [hki]

end dict

/-! ### the inc walk -/

theorem walkFromSt_fst {σ : Type} (next : σ → Nat → Entry × σ) (size : Nat) :
    ∀ (fuel : Nat) (ctx : σ) (off : Nat), (walkFromSt next size fuel ctx off).1 = walkFrom next size fuel ctx off := by
  intro fuel
  induction fuel with
  | zero => intro ctx off; rfl
  | succ n ih =>
    intro ctx off
    simp only [walkFromSt, walkFrom]
    split
    · rfl
    · simp only [ih]

/-- the first walk of a fresh Context is `P.walk .inc` -/
theorem incWalk_fresh (s : Array Nat) : (incWalk s false).1 = walk .inc s := by
  unfold incWalk walk
  exact walkFromSt_fst _ _ _ _ _

/-! ### `mozpath.re_cache` -/

theorem mozMatchS_spec (c : List (Text × Re)) (h : ReCoh c) (path pattern : Text) :
    (mozMatchS c path pattern).2 = PM.mozMatch path pattern ∧ ReCoh (mozMatchS c path pattern).1 := by
  unfold mozMatchS PM.mozMatch
  by_cases he : pattern.isEmpty = true
  · simp only [he, if_true]
    exact ⟨rfl, h⟩
  · simp only [he, Bool.false_eq_true, if_false]
    cases hg : AR.dget c pattern with
    | some re =>
      have := h (pattern, re) (dget_some_mem c pattern re hg)
      simp only at this
      refine ⟨?_, h⟩
      simp only [this, bind, Except.bind, pure, Except.pure]
    | none =>
      cases hr : PM.mozRegex pattern with
      | error e => exact ⟨rfl, h⟩
      | ok re =>
        refine ⟨?_, ?_⟩
        · simp only [bind, Except.bind, pure, Except.pure]
        intro p hp
        rcases mem_dset c pattern re p hp with hp | hp
        · subst hp; exact hr
        · exact h p hp

/-! ### `Matcher._cached_re` -/

theorem match_eq (m : PM.Matcher) (path : Text) :
    m.match path = (match m.regexOf with | .error e => .error e | .ok r => matchWith r path) := by
  unfold PM.Matcher.match
  cases m.regexOf with
  | error e => rfl
  | ok r => cases r; rfl

theorem MObj.match_spec (o : MObj) (h : o.Coh) (path : Text) :
    (o.match path).2 = o.m.match path ∧ (o.match path).1.m = o.m ∧ (o.match path).1.Coh := by
  unfold MObj.match
  rw [match_eq]
  cases hc : o.cached with
  | some r =>
    have := h r hc
    simp only [this]
    exact ⟨by trivial, by trivial, h⟩
  | none =>
    cases hr : o.m.regexOf with
    | error e => exact ⟨rfl, rfl, h⟩
    | ok r =>
      refine ⟨rfl, rfl, ?_⟩
      intro r' hr'
      simp only at hr'
      injection hr' with hr'
      subst hr'
      exact hr

theorem MObj.fresh_coh (m : PM.Matcher) : MObj.Coh { m := m } := by
  intro r hr; simp at hr

theorem sub_eq (self other : PM.Matcher) (path : Text) :
    self.sub other path = (match self.match path with
      | .error e => .error e
      | .ok none => .ok none
      | .ok (some d) =>
        match PM.expandTop other.pattern (PM.subEnv d other.env) with
        | .error e => .error e
        | .ok r => .ok (some r)) := by
  unfold PM.Matcher.sub
  cases self.match path with
  | error e => rfl
  | ok r =>
    cases r with
    | none => rfl
    | some d =>
      simp only [bind, Except.bind, pure, Except.pure]
      cases PM.expandTop other.pattern (PM.subEnv d other.env) <;> rfl

theorem MObj.sub_spec (o : MObj) (h : o.Coh) (other : PM.Matcher) (path : Text) :
    (o.sub other path).2 = o.m.sub other path ∧ (o.sub other path).1.m = o.m ∧ (o.sub other path).1.Coh := by
  obtain ⟨h1, h2, h3⟩ := MObj.match_spec o h path
  unfold MObj.sub
  rw [sub_eq, ← h1]
  cases hm : (o.match path).2 with
  | error e => exact ⟨rfl, h2, h3⟩
  | ok r =>
    cases r with
    | none => exact ⟨rfl, h2, h3⟩
    | some d =>
      simp only
      cases PM.expandTop other.pattern (PM.subEnv d other.env) <;> exact ⟨rfl, h2, h3⟩

/-! ### `ProjectConfig.cache` and `_filter` on the cache objects -/

theorem matchesS_eq (m : PM.Matcher) (fp : Text) :
    FiltM.matchesS m fp = (match m.match fp with | .error e => .error e | .ok r => .ok r.isSome) := by
  unfold FiltM.matchesS
  cases m.match fp <;> rfl

theorem anyMatchO_spec (fp : Text) : ∀ (os : List MObj), (∀ o ∈ os, o.Coh) →
    (anyMatchO fp os).2 = FiltM.anyMatchS fp (os.map (·.m)) ∧
    (anyMatchO fp os).1.map (·.m) = os.map (·.m) ∧ (∀ o ∈ (anyMatchO fp os).1, o.Coh) := by
  intro os
  induction os with
  | nil => intro _; exact ⟨rfl, rfl, by simp [anyMatchO]⟩
  | cons p ps ih =>
    intro h
    obtain ⟨h1, h2, h3⟩ := MObj.match_spec p (h p List.mem_cons_self) fp
    obtain ⟨i1, i2, i3⟩ := ih (fun o ho => h o (List.mem_cons_of_mem _ ho))
    simp only [anyMatchO, List.map_cons, FiltM.anyMatchS, matchesS_eq, ← h1]
    cases hm : (p.match fp).2 with
    | error e =>
      refine ⟨rfl, by simp [h2], ?_⟩
      intro o ho
      simp only [List.mem_cons] at ho
      rcases ho with ho | ho
      · subst ho; exact h3
      · exact h o (List.mem_cons_of_mem _ ho)
    | ok r =>
      cases r with
      | some d =>
        refine ⟨rfl, by simp [h2], ?_⟩
        intro o ho
        simp only [List.mem_cons] at ho
        rcases ho with ho | ho
        · subst ho; exact h3
        · exact h o (List.mem_cons_of_mem _ ho)
      | none =>
        refine ⟨?_, by simp [h2, i2], ?_⟩
        · simp only [bind, Except.bind, pure, Except.pure, Option.isSome_none, Bool.false_eq_true, if_false]
          exact i1
        · intro o ho
          simp only [List.mem_cons] at ho
          rcases ho with ho | ho
          · subst ho; exact h3
          · exact i3 o ho

theorem scanRulesO_spec (fp : Text) (entity : Option Text) : ∀ (rs : List FCRule), (∀ r ∈ rs, r.path.Coh) →
    (scanRulesO fp entity rs).2 = FiltM.scanRulesS fp entity (rs.map FCRule.toS) ∧
    (scanRulesO fp entity rs).1.map FCRule.toS = rs.map FCRule.toS ∧
    (∀ r ∈ (scanRulesO fp entity rs).1, r.path.Coh) := by
  intro rs
  induction rs with
  | nil => intro _; exact ⟨rfl, rfl, by simp [scanRulesO]⟩
  | cons rule rest ih =>
    intro h
    obtain ⟨h1, h2, h3⟩ := MObj.match_spec rule.path (h rule List.mem_cons_self) fp
    obtain ⟨i1, i2, i3⟩ := ih (fun o ho => h o (List.mem_cons_of_mem _ ho))
    have htoS : FCRule.toS { rule with path := (rule.path.match fp).1 } = FCRule.toS rule := by
      simp only [FCRule.toS, h2]
    have hcoh : ∀ (tl : List FCRule), (∀ r ∈ tl, r.path.Coh) →
        ∀ r ∈ ({ rule with path := (rule.path.match fp).1 } : FCRule) :: tl, r.path.Coh := by
      intro tl htl r hr
      simp only [List.mem_cons] at hr
      rcases hr with hr | hr
      · subst hr; exact h3
      · exact htl r hr
    have hrest : ∀ r ∈ rest, r.path.Coh := fun o ho => h o (List.mem_cons_of_mem _ ho)
    have hcoh' : ∀ (x : FCRule) (tl : List FCRule), x.path = (rule.path.match fp).1 → (∀ r ∈ tl, r.path.Coh) →
        ∀ r ∈ x :: tl, r.path.Coh := by
      intro x tl hx htl r hr
      simp only [List.mem_cons] at hr
      rcases hr with hr | hr
      · subst hr; rw [hx]; exact h3
      · exact htl r hr
    simp only [scanRulesO, List.map_cons, FiltM.scanRulesS, matchesS_eq]
    have hm' : (FCRule.toS rule).path.match fp = (rule.path.match fp).2 := by rw [h1]; rfl
    rw [hm']
    cases hm : (rule.path.match fp).2 with
    | error e => exact ⟨rfl, by simp [htoS], hcoh rest hrest⟩
    | ok r =>
      cases r with
      | none =>
        refine ⟨?_, by simp [htoS, i2], hcoh _ i3⟩
        simp only [bind, Except.bind, pure, Except.pure, Option.isSome_none, Bool.not_false, if_true]
        exact i1
      | some d =>
        simp only [bind, Except.bind, pure, Except.pure, Option.isSome_some, Bool.not_true, Bool.false_eq_true,
          if_false]
        have hk : (FCRule.toS rule).key = rule.key := rfl
        have ha : (FCRule.toS rule).action = rule.action := rfl
        rw [hk, ha]
        by_cases hke : (rule.key.isSome != entity.isSome) = true
        · simp only [hke, if_true]
          exact ⟨i1, by simp [htoS, i2], hcoh _ i3⟩
        · simp only [hke, Bool.false_eq_true, if_false]
          cases hkey : rule.key with
          | none => exact ⟨rfl, by simp [FCRule.toS, h2, hkey], hcoh' _ rest rfl hrest⟩
          | some k =>
            cases hent : entity with
            | none => exact ⟨rfl, by simp [FCRule.toS, h2, hkey], hcoh' _ rest rfl hrest⟩
            | some e =>
              simp only
              by_cases hmk : (!k.matches e) = true
              · simp only [hmk, if_true]
                rw [hent] at i1 i2 i3
                exact ⟨i1, by simp [FCRule.toS, h2, hkey, i2], hcoh' _ _ rfl i3⟩
              · simp only [hmk, Bool.false_eq_true, if_false]
                exact ⟨by trivial, by simp [FCRule.toS, h2, hkey], hcoh' _ rest rfl hrest⟩

/-- the rest of `_filter` once `cache(locale)` has returned `k` -/
def ownRest (k : FiltM.FilterCacheS) (file : Filt.File) (entity : Option Text) : Except PM.PyErr (Option Filt.Action) :=
  match FiltM.anyMatchS file.fullpath k.l10nPaths with
  | .error e => .error e
  | .ok false => .ok (Filt.pick [])
  | .ok true =>
    match FiltM.scanRulesS file.fullpath entity k.rules.reverse with
    | .error e => .error e
    | .ok a => .ok (Filt.pick [some a])

theorem ownStepS_eq (paths : List FiltM.PathEntryS) (rules : List FiltM.RuleS) (file : Filt.File)
    (entity : Option Text) :
    FiltM.ownStepS paths rules file entity [] =
      (match FiltM.cacheS paths rules file.locale with
       | .error e => .error e
       | .ok k => ownRest k file entity) := by
  unfold FiltM.ownStepS ownRest
  cases FiltM.cacheS paths rules file.locale with
  | error e => rfl
  | ok k =>
    simp only [bind, Except.bind, pure, Except.pure]
    cases FiltM.anyMatchS file.fullpath k.l10nPaths with
    | error e => rfl
    | ok b =>
      cases b with
      | false => rfl
      | true =>
        simp only [if_true]
        cases FiltM.scanRulesS file.fullpath entity k.rules.reverse <;> rfl

theorem FCObj.own_spec (paths : List FiltM.PathEntryS) (rules : List FiltM.RuleS) (fc : FCObj)
    (h : FCObj.Coh paths rules fc) (file : Filt.File) (entity : Option Text) :
    (fc.own file entity).2 = ownRest fc.toS file entity ∧ (fc.own file entity).1.toS = fc.toS ∧
      (fc.own file entity).1.locale = fc.locale ∧ FCObj.Coh paths rules (fc.own file entity).1 := by
  obtain ⟨hc, hp, hr⟩ := h
  obtain ⟨a1, a2, a3⟩ := anyMatchO_spec file.fullpath fc.l10nPaths hp
  have hrev : ∀ r ∈ fc.rules.reverse, r.path.Coh := fun r hr' => hr r (List.mem_reverse.mp hr')
  obtain ⟨s1, s2, s3⟩ := scanRulesO_spec file.fullpath entity fc.rules.reverse hrev
  have hrules : ((scanRulesO file.fullpath entity fc.rules.reverse).1.reverse).map FCRule.toS
      = fc.rules.map FCRule.toS := by
    rw [List.map_reverse, s2, List.map_reverse, List.reverse_reverse]
  have hrcoh : ∀ r ∈ (scanRulesO file.fullpath entity fc.rules.reverse).1.reverse, r.path.Coh :=
    fun r hr' => s3 r (List.mem_reverse.mp hr')
  unfold FCObj.own ownRest
  have e1 : fc.toS.l10nPaths = fc.l10nPaths.map (·.m) := rfl
  have e2 : fc.toS.rules.reverse = (fc.rules.reverse).map FCRule.toS := by
    simp only [FCObj.toS, List.map_reverse]
  rw [e1, e2, ← a1, ← s1]
  cases hm : (anyMatchO file.fullpath fc.l10nPaths).2 with
  | error e =>
    refine ⟨rfl, ?_, rfl, ?_⟩
    · simp only [FCObj.toS, a2]
    · refine ⟨?_, a3, hr⟩
      simp only [FCObj.toS, a2]
      exact hc
  | ok b =>
    cases b with
    | false =>
      refine ⟨rfl, ?_, rfl, ?_⟩
      · simp only [FCObj.toS, a2]
      · refine ⟨?_, a3, hr⟩
        simp only [FCObj.toS, a2]
        exact hc
    | true =>
      simp only
      cases hs : (scanRulesO file.fullpath entity fc.rules.reverse).2 with
      | error e =>
        refine ⟨rfl, ?_, rfl, ?_⟩
        · simp only [FCObj.toS, a2, hrules]
        · refine ⟨?_, a3, hrcoh⟩
          simp only [FCObj.toS, a2, hrules]
          exact hc
      | ok a =>
        refine ⟨rfl, ?_, rfl, ?_⟩
        · simp only [FCObj.toS, a2, hrules]
        · refine ⟨?_, a3, hrcoh⟩
          simp only [FCObj.toS, a2, hrules]
          exact hc

/-! ### `ProjectConfig` objects -/

theorem CObj.Same.refl (c : CObj) : CObj.Same c c := ⟨rfl, rfl, rfl, rfl, rfl⟩

theorem cacheS_locale (paths : List FiltM.PathEntryS) (rules : List FiltM.RuleS) (locale : Text)
    (k : FiltM.FilterCacheS) (h : FiltM.cacheS paths rules locale = .ok k) : k.locale = locale := by
  unfold FiltM.cacheS at h
  cases h1 : FiltM.cachePaths locale paths with
  | error e => rw [h1] at h; simp [bind, Except.bind] at h
  | ok ps =>
    cases h2 : FiltM.cacheRules locale rules with
    | error e => rw [h1, h2] at h; simp [bind, Except.bind] at h
    | ok rs =>
      rw [h1, h2] at h
      simp only [bind, Except.bind, pure, Except.pure] at h
      injection h with h
      subst h
      rfl

/-- a freshly built cache object is coherent -/
theorem fresh_fc_coh (paths : List FiltM.PathEntryS) (rules : List FiltM.RuleS) (locale : Text)
    (k : FiltM.FilterCacheS) (h : FiltM.cacheS paths rules locale = .ok k) :
    FCObj.Coh paths rules
      { locale := locale, rules := k.rules.map (fun r => ⟨{ m := r.path }, r.key, r.action⟩),
        l10nPaths := k.l10nPaths.map (fun m => { m := m }) } := by
  have hl := cacheS_locale paths rules locale k h
  refine ⟨?_, ?_, ?_⟩
  · simp only [FCObj.toS]
    rw [h]
    congr 1
    cases k with
    | mk loc rs ps =>
      simp only at hl
      subst hl
      simp only [List.map_map]
      congr 1
      · conv => lhs; rw [← List.map_id rs]
        apply List.map_congr_left
        intro r _
        cases r; rfl
      · conv => lhs; rw [← List.map_id ps]
        apply List.map_congr_left
        intro m _
        rfl
  · intro o ho
    rw [List.mem_map] at ho
    obtain ⟨m, _, rfl⟩ := ho
    exact MObj.fresh_coh m
  · intro r hr
    rw [List.mem_map] at hr
    obtain ⟨x, _, rfl⟩ := hr
    exact MObj.fresh_coh x.path

theorem CObj.cacheFor_spec (c : CObj) (h : c.Coh) (locale : Text) :
    CObj.Same c (c.cacheFor locale).1 ∧ (c.cacheFor locale).1.allLoc = c.allLoc ∧
    (match (c.cacheFor locale).2 with
     | .error e => FiltM.cacheS c.paths c.rules locale = .error e ∧ (c.cacheFor locale).1.Coh
     | .ok fc => FCObj.Coh c.paths c.rules fc ∧ fc.locale = locale) := by
  obtain ⟨ha, hcache⟩ := h
  unfold CObj.cacheFor
  cases hc : c.cache with
  | some fc =>
    simp only
    by_cases hl : (fc.locale == locale) = true
    · simp only [hl, if_true]
      exact ⟨CObj.Same.refl c, by trivial, hcache fc hc, by simpa using hl⟩
    · simp only [hl, Bool.false_eq_true, if_false]
      cases hk : FiltM.cacheS c.paths c.rules locale with
      | error e =>
        refine ⟨⟨rfl, rfl, rfl, rfl, rfl⟩, rfl, rfl, ?_, ?_⟩
        · exact ha
        · intro fc' hfc'; simp at hfc'
      | ok k => exact ⟨⟨rfl, rfl, rfl, rfl, rfl⟩, rfl, fresh_fc_coh _ _ _ k hk, rfl⟩
  | none =>
    simp only
    cases hk : FiltM.cacheS c.paths c.rules locale with
    | error e =>
      refine ⟨CObj.Same.refl c, rfl, rfl, ha, ?_⟩
      intro fc' hfc'; rw [hc] at hfc'; simp at hfc'
    | ok k => exact ⟨⟨rfl, rfl, rfl, rfl, rfl⟩, rfl, fresh_fc_coh _ _ _ k hk, rfl⟩

theorem CObj.allLocales_spec (c : CObj) (h : c.Coh) :
    c.allLocales.2 = FiltM.ownLocalesS c.locales c.paths ∧ CObj.Same c c.allLocales.1 ∧ c.allLocales.1.Coh ∧
      c.allLocales.1.cache = c.cache := by
  obtain ⟨ha, hcache⟩ := h
  unfold CObj.allLocales
  cases hl : c.allLoc with
  | some l => exact ⟨ha l hl, CObj.Same.refl c, ⟨ha, hcache⟩, rfl⟩
  | none =>
    refine ⟨rfl, ⟨rfl, rfl, rfl, rfl, rfl⟩, ⟨?_, hcache⟩, rfl⟩
    intro l hl'
    simp only at hl'
    injection hl' with hl'
    exact hl'.symm

theorem filterS_flat (locales : Option (List Text)) (paths : List FiltM.PathEntryS) (rules : List FiltM.RuleS)
    (file : Filt.File) (entity : Option Text) :
    FiltM.filterS (.mk locales paths rules [] []) file entity =
      (if !(FiltM.ownLocalesS locales paths).contains file.locale then .ok .ignore else
       match FiltM.ownStepS paths rules file entity [] with
       | .error e => .error e
       | .ok none => .ok .ignore
       | .ok (some a) => .ok a) := by
  unfold FiltM.filterS
  simp only [FiltM.allLocalesS, FiltM.allLocalesListS, List.append_nil]
  split
  · rfl
  · simp only [FiltM.filterInnerS, FiltM.anyExcludeErrorS, FiltM.childActionsS, bind, Except.bind, pure, Except.pure,
      Bool.false_eq_true, if_false, List.contains_nil]
    cases FiltM.ownStepS paths rules file entity [] with
    | error e => rfl
    | ok r => cases r <;> rfl

/-- `config.filter(file, entity)` on an object whose memos are coherent returns the verdict of the cache-free model,
    leaves the configuration as it is and the memos coherent -/
theorem CObj.filter_spec (c : CObj) (h : c.Coh) (file : Filt.File) (entity : Option Text) :
    (c.filter file entity).2 = FiltM.filterS c.spec file entity ∧ CObj.Same c (c.filter file entity).1 ∧
      (c.filter file entity).1.Coh := by
  obtain ⟨l1, l2, l3, l4⟩ := CObj.allLocales_spec c h
  obtain ⟨sl, se, sr, sp, sru⟩ := l2
  unfold CObj.spec
  rw [filterS_flat, ownStepS_eq]
  unfold CObj.filter
  simp only [l1]
  by_cases hloc : (!(FiltM.ownLocalesS c.locales c.paths).contains file.locale) = true
  · simp only [hloc, if_true]
    exact ⟨by trivial, ⟨sl, se, sr, sp, sru⟩, l3⟩
  · simp only [hloc, Bool.false_eq_true, if_false]
    obtain ⟨k1, k2, k3⟩ := CObj.cacheFor_spec c.allLocales.1 l3 file.locale
    obtain ⟨tl, te, tr, tp, tru⟩ := k1
    rw [sp, sru] at k3
    cases hcf : (c.allLocales.1.cacheFor file.locale).2 with
    | error e =>
      rw [hcf] at k3
      obtain ⟨k3a, k3b⟩ := k3
      simp only [k3a]
      exact ⟨by trivial, ⟨tl.trans sl, te.trans se, tr.trans sr, tp.trans sp, tru.trans sru⟩, k3b⟩
    | ok fc =>
      rw [hcf] at k3
      obtain ⟨k3a, k3b⟩ := k3
      obtain ⟨o1, o2, o3, o4⟩ := FCObj.own_spec c.paths c.rules fc k3a file entity
      have hk : FiltM.cacheS c.paths c.rules file.locale = .ok fc.toS := by rw [← k3b]; exact k3a.1
      simp only [hk, ← o1]
      have hcoh : ∀ (c2 : CObj), CObj.Same c c2 → (∀ l, c2.allLoc = some l → l = FiltM.ownLocalesS c2.locales c2.paths) →
          CObj.Coh { c2 with cache := some (fc.own file entity).1 } := by
        intro c2 hs ha
        obtain ⟨q1, q2, q3, q4, q5⟩ := hs
        refine ⟨ha, ?_⟩
        intro fc' hfc'
        simp only at hfc'
        injection hfc' with hfc'
        subst hfc'
        simp only [q4, q5]
        exact o4
      have hsame : CObj.Same c (c.allLocales.1.cacheFor file.locale).1 :=
        ⟨tl.trans sl, te.trans se, tr.trans sr, tp.trans sp, tru.trans sru⟩
      have hall : ∀ l, (c.allLocales.1.cacheFor file.locale).1.allLoc = some l →
          l = FiltM.ownLocalesS (c.allLocales.1.cacheFor file.locale).1.locales
                (c.allLocales.1.cacheFor file.locale).1.paths := by
        intro l hl
        rw [k2] at hl
        rw [tl, tp]
        exact l3.1 l hl
      cases ho : (fc.own file entity).2 with
      | error e => exact ⟨rfl, hsame, hcoh _ hsame hall⟩
      | ok r =>
        cases r with
        | none => exact ⟨rfl, hsame, hcoh _ hsame hall⟩
        | some a => exact ⟨rfl, hsame, hcoh _ hsame hall⟩

/-! ### `DTDChecker.__known_entities` and the text handler -/

theorem DObj.known_spec (d : DObj) (h : d.Coh) (refValue : Text) :
    (d.knownEntities refValue).2 = knownPure d.reference refValue ∧
    (d.knownEntities refValue).1.android = d.android ∧ (d.knownEntities refValue).1.reference = d.reference ∧
    (d.knownEntities refValue).1.Coh := by
  unfold DObj.knownEntities knownPure
  cases hk : d.known with
  | some k =>
    obtain ⟨vals, hv, hkv⟩ := h k hk
    simp only [hv]
    exact ⟨hkv, by trivial, by trivial, h⟩
  | none =>
    cases hr : d.reference with
    | some vals =>
      refine ⟨rfl, rfl, rfl, ?_⟩
      intro k' hk'
      simp only at hk'
      injection hk' with hk'
      exact ⟨vals, rfl, hk'.symm⟩
    | none =>
      refine ⟨rfl, rfl, hr, ?_⟩
      intro k' hk'
      rw [hk] at hk'
      simp at hk'

/-- what `processAndroidContent` is called with does not depend on what the class-level handler held before -/
theorem DObj.checkText_indep (d : DObj) (t t' : Text) (chars : List Text) :
    (d.checkText t chars).2 = (d.checkText t' chars).2 := by
  unfold DObj.checkText
  split <;> rfl

/-- … and it is the character data of THIS value, exactly when the check is an Android check -/
theorem DObj.checkText_spec (d : DObj) (t : Text) (chars : List Text) :
    (d.checkText t chars).2 = if d.android then some (chars.foldl (· ++ ·) []) else none := by
  unfold DObj.checkText
  split <;> rfl

end C18M

/- Laws of the pure mozpath helpers (model: Paths/MozPath.lean): split/join round trips, associativity of join,
   dirname/basename/splitext decompositions, commonprefix = longest common prefix (through min and max),
   basedir = the deepest containing base. -/
import CLModel.Paths.MozPath
namespace C12MP
open MP


theorem split_ne_nil : ∀ p : Text, split p ≠ []
  | [] => by simp [split]
  | c :: cs => by
    simp only [split]
    split
    · simp
    · split <;> simp

/-- `split` of a text without separator is the text itself -/
theorem split_noslash : ∀ {p : Text}, 47 ∉ p → split p = [p]
  | [], _ => rfl
  | c :: cs, h => by
    have hc : c ≠ 47 := fun e => h (by simp [e])
    have := split_noslash (p := cs) (fun e => h (by simp [e]))
    simp [split, hc, this]

theorem split_append_slash : ∀ (a b : Text), 47 ∉ a → split (a ++ 47 :: b) = a :: split b
  | [], b, _ => by simp [split]
  | c :: cs, b, h => by
    have hc : c ≠ 47 := fun e => h (by simp [e])
    have ih := split_append_slash cs b (fun e => h (by simp [e]))
    simp [split, hc, ih]

theorem split_joinSlash : ∀ (cs : List Text), cs ≠ [] → (∀ c ∈ cs, 47 ∉ c) → split (joinSlash cs) = cs
  | [], h, _ => absurd rfl h
  | [a], _, h => by simpa [joinSlash] using split_noslash (h a (by simp))
  | a :: b :: r, _, h => by
    have ih := split_joinSlash (b :: r) (by simp) (fun c hc => h c (by simp [hc]))
    show split (a ++ 47 :: joinSlash (b :: r)) = _
    rw [split_append_slash a _ (h a (by simp)), ih]

/-- `split (a ++ "/" ++ b) = split a ++ split b` -/
theorem split_append : ∀ (a b : Text), split (a ++ 47 :: b) = split a ++ split b
  | [], b => by simp [split]
  | c :: cs, b => by
    have ih := split_append cs b
    by_cases hc : c = 47
    · subst hc; simp [split, ih]
    · simp only [List.cons_append, split, hc, if_false, ih]
      cases hs : split cs with
      | nil => exact absurd hs (split_ne_nil cs)
      | cons x t => simp

theorem split_no_slash : ∀ (p : Text), ∀ c ∈ split p, 47 ∉ c
  | [], c, h => by simp [split] at h; subst h; simp
  | x :: xs, c, h => by
    have ih := split_no_slash xs
    simp only [split] at h
    by_cases hx : x = 47
    · subst hx
      simp only [if_true, List.mem_cons] at h
      rcases h with rfl | h
      · simp
      · exact ih c h
    · simp only [hx, if_false] at h
      cases hs : split xs with
      | nil => exact absurd hs (split_ne_nil xs)
      | cons y t =>
        rw [hs] at h ih
        simp only [List.mem_cons] at h
        rcases h with rfl | h
        · have := ih y (by simp)
          simp [hx, this]
          exact fun e => hx e.symm
        · exact ih c (by simp [h])

theorem joinSlash_cons_cons (a b : Text) (r : List Text) : joinSlash (a :: b :: r) = a ++ 47 :: joinSlash (b :: r) := rfl

theorem joinSlash_split : ∀ p : Text, joinSlash (split p) = p
  | [] => rfl
  | c :: cs => by
    have ih := joinSlash_split cs
    simp only [split]
    by_cases h : c = 47
    · subst h
      simp only [if_true]
      cases hs : split cs with
      | nil => exact absurd hs (split_ne_nil cs)
      | cons h t => rw [joinSlash_cons_cons, ← hs, ih]; rfl
    · simp only [h, if_false]
      cases hs : split cs with
      | nil => exact absurd hs (split_ne_nil cs)
      | cons x t =>
        rw [hs] at ih
        cases t with
        | nil => simp only [joinSlash] at ih ⊢; rw [ih]
        | cons y t' =>
          rw [joinSlash_cons_cons] at ih ⊢
          rw [← ih]; rfl

/-! ### join -/


def sep (a : Text) : Text := if a.isEmpty || endsSlash a then [] else [47]

theorem join2_abs {a b : Text} (h : startsSlash b = true) : join2 a b = b := by simp [join2, h]

theorem join2_rel {a b : Text} (h : startsSlash b = false) : join2 a b = a ++ sep a ++ b := by
  simp only [join2, h, Bool.false_eq_true, if_false, sep]
  split <;> simp

theorem startsSlash_append {a b : Text} (h : a ≠ []) : startsSlash (a ++ b) = startsSlash a := by
  cases a with
  | nil => exact absurd rfl h
  | cons x xs => rfl

theorem endsSlash_append {a b : Text} (h : b ≠ []) : endsSlash (a ++ b) = endsSlash b := by
  unfold endsSlash
  rw [List.getLast?_append, List.getLast?_eq_some_getLast h]
  rfl

theorem sep_append {a b : Text} (h : b ≠ []) : sep (a ++ b) = sep b := by
  have h1 : (a ++ b).isEmpty = false := by cases a <;> cases b <;> simp_all
  have h2 : b.isEmpty = false := by cases b <;> simp_all
  simp [sep, h1, h2, endsSlash_append h]

theorem sep_self (a : Text) : sep (a ++ sep a) = [] := by
  by_cases h : (a.isEmpty || endsSlash a) = true
  · have : sep a = [] := by simp only [sep, h, if_true]
    rw [this, List.append_nil]; exact this
  · have hs : sep a = [47] := by simp only [sep, h]; rfl
    rw [hs]
    have : endsSlash (a ++ [47]) = true := by rw [endsSlash_append (by simp)]; rfl
    simp [sep, this]

theorem join2_assoc (a b c : Text) : join2 (join2 a b) c = join2 a (join2 b c) := by
  cases hc : startsSlash c with
  | true => rw [join2_abs hc, join2_abs hc, join2_abs hc]
  | false =>
    cases hb : startsSlash b with
    | true =>
      have hbne : b ≠ [] := by intro e; subst e; simp [startsSlash] at hb
      rw [join2_abs hb, join2_rel hc]
      rw [join2_abs]
      rw [List.append_assoc, startsSlash_append hbne]; exact hb
    | false =>
      rw [join2_rel hb, join2_rel hc, join2_rel hc]
      by_cases hbe : b = []
      · subst hbe
        simp only [List.append_nil]
        rw [sep_self]
        have : sep ([] : Text) = [] := rfl
        rw [this]
        simp only [List.append_nil, List.nil_append]
        rw [join2_rel hc]
      · rw [sep_append hbe]
        have hrel : startsSlash (b ++ sep b ++ c) = false := by
          rw [List.append_assoc, startsSlash_append hbe]; exact hb
        rw [join2_rel hrel]
        simp [List.append_assoc]

/-- `mozpath.join` of three parts can be bracketed either way (and `join` of one part is the part) -/
theorem join_assoc3 (a b c : Text) : join [a, b, c] = .ok (join2 a (join2 b c)) := by
  simp [join, pure, Except.pure, join2_assoc]

/-! ### dirname, basename, splitext -/


/-! afterLast -/
theorem afterLast_le (c : Nat) : ∀ p : Text, afterLast c p ≤ p.length
  | [] => by simp [afterLast]
  | x :: xs => by
    have := afterLast_le c xs
    simp only [afterLast, List.length_cons]
    split
    · omega
    · split <;> omega

/-- nothing after the last `c` is a `c` -/
theorem not_mem_drop_afterLast (c : Nat) : ∀ p : Text, c ∉ p.drop (afterLast c p)
  | [] => by simp [afterLast]
  | x :: xs => by
    have ih := not_mem_drop_afterLast c xs
    simp only [afterLast]
    split
    · simpa using ih
    · rename_i h0
      have h0' : afterLast c xs = 0 := by omega
      rw [h0'] at ih
      simp only [List.drop_zero] at ih
      split
      · simpa using ih
      · rename_i hx
        simp only [List.drop_zero, List.mem_cons, not_or]
        exact ⟨fun e => hx e.symm, ih⟩

/-- the character before position `afterLast c p` is `c` -/
theorem getElem_afterLast (c : Nat) : ∀ p : Text, 0 < afterLast c p → p[afterLast c p - 1]? = some c
  | [], h => by simp [afterLast] at h
  | x :: xs, h => by
    have ih := getElem_afterLast c xs
    simp only [afterLast] at h ⊢
    split
    · rename_i hpos
      have := ih hpos
      have e : afterLast c xs + 1 - 1 = (afterLast c xs - 1) + 1 := by omega
      rw [e, List.getElem?_cons_succ]; exact this
    · split
      · rename_i hx; simp [hx]
      · rename_i h1 h2; simp [h1, h2] at h

theorem basename_no_slash (p : Text) : 47 ∉ basename p := not_mem_drop_afterLast 47 p

/-- `p` is its head (everything up to and including the last "/") followed by its base name -/
theorem head_basename (p : Text) : p.take (afterLast 47 p) ++ basename p = p := List.take_append_drop _ _

theorem head_ends_slash (p : Text) (h : 0 < afterLast 47 p) : (p.take (afterLast 47 p)).getLast? = some 47 := by
  have hle := afterLast_le 47 p
  rw [List.getLast?_eq_getElem?, List.length_take, Nat.min_eq_left hle, List.getElem?_take]
  simp only [show afterLast 47 p - 1 < afterLast 47 p by omega, if_true]
  exact getElem_afterLast 47 p h

theorem rstripSlash_prefix (s : Text) : rstripSlash s <+: s := by
  unfold rstripSlash
  have h : s.reverse.dropWhile (· == 47) <:+ s.reverse := List.dropWhile_suffix _
  have := List.reverse_prefix.mpr h
  simpa using this

/-- `dirname p` is a prefix of the head of `p`, differing only by trailing separators -/
theorem dirname_prefix (p : Text) : dirname p <+: p := by
  unfold dirname
  simp only
  split
  · exact (rstripSlash_prefix _).trans (List.take_prefix _ _)
  · exact List.take_prefix _ _

theorem splitext_concat (p : Text) : (splitext p).1 ++ (splitext p).2 = p := by
  unfold splitext
  simp only
  split
  · split
    · exact List.take_append_drop _ _
    · simp
  · simp

/-- the extension is empty or starts with "." and contains neither a further "." nor a "/" -/
theorem splitext_ext (p : Text) : (splitext p).2 = [] ∨
    ∃ e, (splitext p).2 = 46 :: e ∧ 46 ∉ e ∧ 47 ∉ e := by
  unfold splitext
  simp only
  split
  · rename_i hji
    split
    · right
      have hj : 0 < afterLast 46 p := by omega
      have hc := getElem_afterLast 46 p hj
      have hlt : afterLast 46 p - 1 < p.length := by have := afterLast_le 46 p; omega
      refine ⟨p.drop (afterLast 46 p), ?_, not_mem_drop_afterLast 46 p, ?_⟩
      · rw [List.getElem?_eq_getElem hlt] at hc
        simp only [Option.some.injEq] at hc
        have := List.drop_eq_getElem_cons hlt
        have e : afterLast 46 p - 1 + 1 = afterLast 46 p := by omega
        rw [this, hc, e]
      · intro hm
        have h1 := not_mem_drop_afterLast 47 p
        apply h1
        have : p.drop (afterLast 46 p) <:+ p.drop (afterLast 47 p) := by
          have e : afterLast 46 p = afterLast 47 p + (afterLast 46 p - afterLast 47 p) := by omega
          rw [e, ← List.drop_drop]
          exact List.drop_suffix _ _
        exact this.subset hm
    · left; rfl
  · left; rfl

/-! ### commonprefix -/


/-! lexicographic order -/
def lexLe (a b : Text) : Prop := lexLt b a = false

theorem lexLt_irrefl : ∀ a : Text, lexLt a a = false
  | [] => rfl
  | x :: xs => by simp [lexLt, lexLt_irrefl xs]

theorem lexLe_refl (a : Text) : lexLe a a := lexLt_irrefl a

theorem lexLt_asymm : ∀ {a b : Text}, lexLt a b = true → lexLt b a = false
  | [], [], h => by simp [lexLt] at h
  | [], _ :: _, _ => rfl
  | _ :: _, [], h => by simp [lexLt] at h
  | x :: xs, y :: ys, h => by
    simp only [lexLt] at h ⊢
    by_cases h1 : x < y
    · have : ¬ y < x := by omega
      simp [this, h1]
    · simp only [h1, if_false] at h
      by_cases h2 : y < x
      · simp [h2] at h
      · simp only [h2, if_false] at h
        simp only [h1, h2, if_false]
        exact lexLt_asymm h

theorem lexLt_trans : ∀ {a b c : Text}, lexLt a b = true → lexLt b c = true → lexLt a c = true
  | [], [], _, h, _ => by simp [lexLt] at h
  | [], _ :: _, [], _, h => by simp [lexLt] at h
  | [], _ :: _, _ :: _, _, _ => rfl
  | _ :: _, [], _, h, _ => by simp [lexLt] at h
  | _ :: _, _ :: _, [], _, h => by simp [lexLt] at h
  | x :: xs, y :: ys, z :: zs, h1, h2 => by
    simp only [lexLt] at h1 h2 ⊢
    by_cases a1 : x < y
    · by_cases a2 : y < z
      · have : x < z := by omega
        simp [this]
      · simp only [a2, if_false] at h2
        by_cases a3 : z < y
        · simp [a3] at h2
        · have : x < z := by omega
          simp [this]
    · simp only [a1, if_false] at h1
      by_cases a4 : y < x
      · simp [a4] at h1
      · simp only [a4, if_false] at h1
        have hxy : x = y := by omega
        subst hxy
        by_cases a2 : x < z
        · simp [a2]
        · simp only [a2, if_false] at h2 ⊢
          by_cases a3 : z < x
          · simp [a3] at h2
          · simp only [a3, if_false] at h2 ⊢
            exact lexLt_trans h1 h2

theorem lexLt_total : ∀ (a b : Text), lexLt a b = false → lexLt b a = false → a = b
  | [], [], _, _ => rfl
  | [], _ :: _, h, _ => by simp [lexLt] at h
  | _ :: _, [], _, h => by simp [lexLt] at h
  | x :: xs, y :: ys, h1, h2 => by
    simp only [lexLt] at h1 h2
    by_cases a1 : x < y
    · simp [a1] at h1
    · by_cases a2 : y < x
      · simp [a2] at h2
      · simp only [a1, a2, if_false] at h1 h2
        have : x = y := by omega
        subst this
        rw [lexLt_total xs ys h1 h2]

theorem lexLe_trans {a b c : Text} (h1 : lexLe a b) (h2 : lexLe b c) : lexLe a c := by
  unfold lexLe at *
  cases h : lexLt c a with
  | false => rfl
  | true =>
    -- c < a; a ≤ b so c < b or ...; derive contradiction with b ≤ c
    cases hab : lexLt a b with
    | true => have := lexLt_trans h hab; rw [h2] at this; cases this
    | false =>
      have : a = b := lexLt_total a b hab h1
      subst this; rw [h2] at h; cases h

/-! minText / maxText folds -/
theorem minText_le_left (a b : Text) : lexLe (minText a b) a := by
  unfold minText lexLe
  split
  · rename_i h; exact lexLt_asymm h
  · exact lexLt_irrefl a

theorem minText_le_right (a b : Text) : lexLe (minText a b) b := by
  unfold minText lexLe
  split
  · exact lexLt_irrefl b
  · rename_i h; simpa using h

theorem le_maxText_left (a b : Text) : lexLe a (maxText a b) := by
  unfold maxText lexLe
  split
  · rename_i h; exact lexLt_asymm h
  · exact lexLt_irrefl a

theorem le_maxText_right (a b : Text) : lexLe b (maxText a b) := by
  unfold maxText lexLe
  split
  · exact lexLt_irrefl b
  · rename_i h; simpa using h

theorem minText_mem (a b : Text) : minText a b = a ∨ minText a b = b := by
  unfold minText; split <;> simp

theorem maxText_mem (a b : Text) : maxText a b = a ∨ maxText a b = b := by
  unfold maxText; split <;> simp

theorem foldl_min_spec : ∀ (ps : List Text) (p : Text),
    (ps.foldl minText p ∈ p :: ps) ∧ lexLe (ps.foldl minText p) p ∧ ∀ x ∈ ps, lexLe (ps.foldl minText p) x
  | [], p => ⟨by simp, lexLe_refl p, by simp⟩
  | q :: qs, p => by
    obtain ⟨h1, h2, h3⟩ := foldl_min_spec qs (minText p q)
    simp only [List.foldl_cons]
    refine ⟨?_, lexLe_trans h2 (minText_le_left p q), ?_⟩
    · simp only [List.mem_cons] at h1 ⊢
      rcases h1 with h1 | h1
      · rcases minText_mem p q with e | e
        · left; rw [h1, e]
        · right; left; rw [h1, e]
      · right; right; exact h1
    · intro x hx
      simp only [List.mem_cons] at hx
      rcases hx with rfl | hx
      · exact lexLe_trans h2 (minText_le_right p x)
      · exact h3 x hx

theorem foldl_max_spec : ∀ (ps : List Text) (p : Text),
    (ps.foldl maxText p ∈ p :: ps) ∧ lexLe p (ps.foldl maxText p) ∧ ∀ x ∈ ps, lexLe x (ps.foldl maxText p)
  | [], p => ⟨by simp, lexLe_refl p, by simp⟩
  | q :: qs, p => by
    obtain ⟨h1, h2, h3⟩ := foldl_max_spec qs (maxText p q)
    simp only [List.foldl_cons]
    refine ⟨?_, lexLe_trans (le_maxText_left p q) h2, ?_⟩
    · simp only [List.mem_cons] at h1 ⊢
      rcases h1 with h1 | h1
      · rcases maxText_mem p q with e | e
        · left; rw [h1, e]
        · right; left; rw [h1, e]
      · right; right; exact h1
    · intro x hx
      simp only [List.mem_cons] at hx
      rcases hx with rfl | hx
      · exact lexLe_trans (le_maxText_right p x) h2
      · exact h3 x hx

/-! the common prefix of the smallest and the largest element is a prefix of everything in between -/
theorem prefixUpTo_prefix_left : ∀ (a b : Text), prefixUpTo a b <+: a
  | [], _ => by simp [prefixUpTo]
  | _ :: _, [] => by simp [prefixUpTo]
  | x :: xs, y :: ys => by
    simp only [prefixUpTo]
    split
    · exact List.cons_prefix_cons.mpr ⟨rfl, prefixUpTo_prefix_left xs ys⟩
    · exact List.nil_prefix

theorem prefixUpTo_between : ∀ (a x b : Text), lexLe a x → lexLe x b → prefixUpTo a b <+: x
  | [], _, _, _, _ => by simp [prefixUpTo]
  | _ :: _, _, [], _, _ => by simp [prefixUpTo]
  | a0 :: a', x, b0 :: b', h1, h2 => by
    simp only [prefixUpTo]
    split
    · rename_i hab
      subst hab
      cases x with
      | nil => simp [lexLe, lexLt] at h1
      | cons x0 x' =>
        simp only [lexLe, lexLt] at h1 h2
        by_cases c1 : x0 < a0
        · simp [c1] at h1
        · by_cases c2 : a0 < x0
          · simp [c2] at h2
          · simp only [c1, c2, if_false] at h1 h2
            have : x0 = a0 := by omega
            subst this
            exact List.cons_prefix_cons.mpr ⟨rfl, prefixUpTo_between a' x' b' h1 h2⟩
    · exact List.nil_prefix

theorem prefix_prefixUpTo : ∀ (q a b : Text), q <+: a → q <+: b → q <+: prefixUpTo a b
  | [], _, _, _, _ => List.nil_prefix
  | q0 :: q', [], _, h, _ => by simp at h
  | q0 :: q', _ :: _, [], _, h => by simp at h
  | q0 :: q', a0 :: a', b0 :: b', h1, h2 => by
    obtain ⟨e1, h1'⟩ := List.cons_prefix_cons.mp h1
    obtain ⟨e2, h2'⟩ := List.cons_prefix_cons.mp h2
    subst e1; subst e2
    simp only [prefixUpTo, if_true]
    exact List.cons_prefix_cons.mpr ⟨rfl, prefix_prefixUpTo q' a' b' h1' h2'⟩

/-- **commonprefix**: the result is a prefix of every path ... -/
theorem commonprefix_prefix (ps : List Text) : ∀ p ∈ ps, commonprefix ps <+: p := by
  intro p hp
  cases ps with
  | nil => cases hp
  | cons p0 rest =>
    obtain ⟨_, m2, m3⟩ := foldl_min_spec rest p0
    obtain ⟨_, x2, x3⟩ := foldl_max_spec rest p0
    simp only [commonprefix]
    apply prefixUpTo_between
    · rcases List.mem_cons.mp hp with rfl | h
      · exact m2
      · exact m3 p h
    · rcases List.mem_cons.mp hp with rfl | h
      · exact x2
      · exact x3 p h

/-- ... and the longest one: every common prefix of all paths is a prefix of it -/
theorem commonprefix_greatest (ps : List Text) (q : Text) (hne : ps ≠ []) (h : ∀ p ∈ ps, q <+: p) :
    q <+: commonprefix ps := by
  cases ps with
  | nil => exact absurd rfl hne
  | cons p0 rest =>
    obtain ⟨m1, _, _⟩ := foldl_min_spec rest p0
    obtain ⟨x1, _, _⟩ := foldl_max_spec rest p0
    simp only [commonprefix]
    exact prefix_prefixUpTo _ _ _ (h _ m1) (h _ x1)

/-! ### basedir -/
theorem mem_insertDesc {x y : Text} : ∀ {l : List Text}, y ∈ insertDesc x l ↔ y = x ∨ y ∈ l
  | [] => by simp [insertDesc]
  | z :: zs => by
    simp only [insertDesc]
    split
    · simp only [List.mem_cons, mem_insertDesc (l := zs)]
      constructor
      · rintro (h | h | h) <;> simp [h]
      · rintro (h | h | h) <;> simp [h]
    · simp

theorem mem_sortDesc {y : Text} : ∀ {l : List Text}, y ∈ sortDesc l ↔ y ∈ l
  | [] => by simp [sortDesc]
  | x :: xs => by
    simp only [sortDesc, mem_insertDesc, mem_sortDesc (l := xs), List.mem_cons]

def Desc (l : List Text) : Prop := l.Pairwise (fun a b => lexLe b a)

theorem desc_insert (x : Text) : ∀ {l : List Text}, Desc l → Desc (insertDesc x l)
  | [], _ => by simp [insertDesc, Desc]
  | z :: zs, h => by
    have hz := List.pairwise_cons.mp h
    simp only [insertDesc]
    split
    · rename_i hlt
      refine List.pairwise_cons.mpr ⟨?_, desc_insert x hz.2⟩
      intro a ha
      rcases mem_insertDesc.mp ha with rfl | ha
      · show lexLt z a = false
        cases hh : lexLt z a with
        | false => rfl
        | true =>
          -- a < z and z < a impossible
          exfalso
          have : ∀ {a b : Text}, lexLt a b = true → lexLt b a = false := by
            intro a
            induction a with
            | nil => intro b h; cases b <;> simp_all [lexLt]
            | cons p ps ih =>
              intro b h
              cases b with
              | nil => simp [lexLt] at h
              | cons q qs =>
                simp only [lexLt] at h ⊢
                by_cases c1 : p < q
                · have : ¬ q < p := by omega
                  simp [this, c1]
                · by_cases c2 : q < p
                  · simp [c1, c2] at h
                  · simp only [c1, c2, if_false] at h ⊢
                    exact ih h
          rw [this hlt] at hh; cases hh
      · exact hz.1 a ha
    · rename_i hnlt
      refine List.pairwise_cons.mpr ⟨?_, h⟩
      intro a ha
      have hzx : lexLe z x := by simpa [lexLe] using hnlt
      rcases List.mem_cons.mp ha with rfl | ha
      · exact hzx
      · exact lexLe_trans (hz.1 a ha) hzx

theorem desc_sortDesc : ∀ (l : List Text), Desc (sortDesc l)
  | [] => by simp [sortDesc, Desc]
  | x :: xs => desc_insert x (desc_sortDesc xs)

/-- what "contains" means for a base directory -/
def Contains (b path : Text) : Prop := b = [] ∨ (b ++ [47]) <+: path

theorem pred_iff (b path : Text) : (b.isEmpty || (b ++ [47]).isPrefixOf path) = true ↔ Contains b path := by
  simp [Contains, List.isEmpty_iff]

theorem lexLt_of_proper_prefix : ∀ {a b : Text}, a <+: b → a.length < b.length → lexLt a b = true
  | [], [], _, h => by simp at h
  | [], _ :: _, _, _ => rfl
  | x :: xs, [], h, _ => by simp at h
  | x :: xs, y :: ys, h, hl => by
    obtain ⟨e, h'⟩ := List.cons_prefix_cons.mp h
    subst e
    simp only [lexLt, Nat.lt_irrefl, if_false]
    exact lexLt_of_proper_prefix h' (by simpa using hl)

/-- **basedir**: the result is one of the bases and it contains the path (or is the path itself) -/
theorem basedir_sound {path : Text} {bases : List Text} {b : Text} (h : basedir path bases = some b) :
    b ∈ bases ∧ (b = path ∨ Contains b path) := by
  unfold basedir at h
  split at h
  · rename_i hc
    simp only [Option.some.injEq] at h; subst h
    exact ⟨by simpa using hc, Or.inl rfl⟩
  · have hm := List.mem_of_find?_eq_some h
    have hp := List.find?_some h
    exact ⟨mem_sortDesc.mp hm, Or.inr ((pred_iff b path).mp hp)⟩

/-- ... it is `None` only if no base contains the path -/
theorem basedir_none {path : Text} {bases : List Text} (h : basedir path bases = none) :
    path ∉ bases ∧ ∀ b ∈ bases, ¬ Contains b path := by
  unfold basedir at h
  split at h
  · cases h
  · rename_i hc
    refine ⟨by simpa using hc, ?_⟩
    intro b hb hcon
    have := List.find?_eq_none.mp h b (mem_sortDesc.mpr hb)
    exact this ((pred_iff b path).mpr hcon)

/-- ... and the deepest one: no base that contains the path is longer -/
theorem basedir_deepest {path : Text} {bases : List Text} {b : Text} (h : basedir path bases = some b)
    (hnot : path ∉ bases) : ∀ b' ∈ bases, Contains b' path → b'.length ≤ b.length := by
  unfold basedir at h
  have hc : bases.contains path = false := by simpa using hnot
  simp only [hc, Bool.false_eq_true, if_false] at h
  intro b' hb' hcon'
  obtain ⟨hpb, l1, l2, hl, hbefore⟩ := List.find?_eq_some_iff_append.mp h
  have hcon : Contains b path := (pred_iff b path).mp hpb
  have hmem : b' ∈ l1 ++ b :: l2 := by rw [← hl]; exact mem_sortDesc.mpr hb'
  have hdesc : Desc (l1 ++ b :: l2) := by rw [← hl]; exact desc_sortDesc bases
  rcases List.mem_append.mp hmem with h1 | h2
  · have hb := hbefore b' h1
    rw [(pred_iff b' path).mpr hcon'] at hb
    simp at hb
  · rcases List.mem_cons.mp h2 with rfl | h3
    · exact Nat.le_refl _
    · have hle : lexLe b' b := by
        have := (List.pairwise_append.mp hdesc).2.1
        exact (List.pairwise_cons.mp this).1 b' h3
      rcases hcon' with rfl | hp'
      · simp
      · rcases hcon with rfl | hp
        · -- b = []: b' ≤ [] forces b' = []
          cases b' with
          | nil => simp
          | cons x xs => simp [lexLe, lexLt] at hle
        · by_cases hlen : b'.length ≤ b.length
          · exact hlen
          · exfalso
            have hpre : (b ++ [47]) <+: (b' ++ [47]) :=
              List.prefix_of_prefix_length_le hp hp' (by simp; omega)
            have hpre2 : (b ++ [47]) <+: b' :=
              List.prefix_of_prefix_length_le hpre (List.prefix_append b' [47]) (by simp; omega)
            have hbb : b <+: b' := (List.prefix_append b [47]).trans hpre2
            have := lexLt_of_proper_prefix hbb (by omega)
            rw [hle] at this; cases this

end C12MP

/-
C15S, part 2: versions printed one record per line in ANY line format (`body r ⏎` per record, e.g. `<!ENTITY k "v">`,
`#define k v`): the merged text is itself the printed file of a record list `recs` with every key once, a key iff some
version has it, the newest version's record.  Format-independent; the formats supply `walkAll … = mvers` (C02 round trip)
and the re-parse of a printed file.  Core Lean only.
-/
import CLModel.Proofs.C15RStrict
import CLModel.Proofs.C15RProps
namespace C15S
open AR Merge C16R C15R
open P (PRec)

/-- a line format: the text of the entity of a record (without the newline), and how to read the value back from the
    key and that text -/
structure LineFmt where
  body : PRec → List Nat
  val : List Nat → List Nat → List Nat

variable (L : LineFmt)

/-- the printed file -/
def printL (rs : List PRec) : List Nat := (rs.map (fun r => L.body r ++ [10])).flatten

/-- what the merge sees of the entity parsed from the line of record `r` -/
def gE (ver n : Nat) (r : PRec) : Ent :=
  { kind := .entity, ekey := .str r.1, val := [], all := L.body r, oid := (ver, n) }

/-- the entries of a printed version -/
def gents (ver : Nat) : Nat → List PRec → List Ent
  | _, [] => []
  | n, r :: rs => gE L ver n r :: mW ver (n + 1) :: gents ver (n + 2) rs

/-- the entry lists of all versions -/
def gvers (j : Nat) (vers : List (List PRec)) : List (List Ent) := (vers.zipIdx j).map (fun p => gents L p.2 0 p.1)

theorem gvers_getElem? (vers : List (List PRec)) (i : Nat) :
    (gvers L 0 vers)[i]? = (vers[i]?).map (fun rs => gents L i 0 rs) := by
  unfold gvers
  rw [List.getElem?_map, List.getElem?_zipIdx]
  cases vers[i]? <;> simp

/-! ### facts about one printed version -/

theorem keys_gents (ver : Nat) : ∀ (rs : List PRec) (n : Nat),
    ((gents L ver n rs).filter (·.keyed)).map (·.ekey) = rs.map (fun r => EKey.str r.1) := by
  intro rs
  induction rs with
  | nil => intro _; rfl
  | cons r rs ih =>
    intro n
    have h1 : (gE L ver n r).keyed = true := rfl
    have h2 : (mW ver (n + 1)).keyed = false := rfl
    simp only [gents, List.filter_cons, h1, h2, if_true, Bool.false_eq_true, if_false, List.map_cons, ih]
    rfl

theorem nodupKeys_gents (ver n : Nat) (rs : List PRec) (h : (rs.map (·.1)).Nodup) : NodupKeys (gents L ver n rs) := by
  unfold NodupKeys
  rw [keys_gents]
  have := nodup_map_str _ h
  rwa [List.map_map] at this

theorem noAdjWs_gents (ver : Nat) : ∀ (rs : List PRec) (n : Nat), NoAdjWs (gents L ver n rs) := by
  intro rs
  induction rs with
  | nil => intro _; trivial
  | cons r rs ih =>
    intro n
    cases rs with
    | nil => exact ⟨fun h => (by cases h.1), trivial⟩
    | cons r' rs' =>
      refine ⟨fun h => (by cases h.1), fun h => (by cases h.2), ?_⟩
      exact ih (n + 2)

theorem mem_gents (ver : Nat) : ∀ (rs : List PRec) (n : Nat) (e : Ent), e ∈ gents L ver n rs →
    (∃ i, e = mW ver i) ∨ ∃ r ∈ rs, ∃ i, e = gE L ver i r := by
  intro rs
  induction rs with
  | nil => intro _ e he; simp [gents] at he
  | cons r rs ih =>
    intro n e he
    simp only [gents, List.mem_cons] at he
    rcases he with rfl | rfl | he
    · exact .inr ⟨r, by simp, n, rfl⟩
    · exact .inl ⟨n + 1, rfl⟩
    · rcases ih (n + 2) e he with h | ⟨r', hr', h⟩
      · exact .inl h
      · exact .inr ⟨r', by simp [hr'], h⟩

theorem gE_mem_gents (ver : Nat) : ∀ (rs : List PRec) (n : Nat) (r : PRec), r ∈ rs → ∃ i, gE L ver i r ∈ gents L ver n rs := by
  intro rs
  induction rs with
  | nil => intro _ r hr; simp at hr
  | cons r' rs ih =>
    intro n r hr
    rcases List.mem_cons.1 hr with rfl | hr'
    · exact ⟨n, by simp [gents]⟩
    · obtain ⟨i, hi⟩ := ih (n + 2) r hr'
      exact ⟨i, by simp [gents, hi]⟩

/-! ### the entries of the merged dict, one by one -/

/-- the record stored under a dict entry -/
def recG (p : Key × Ent) : PRec :=
  match p.1 with
  | .ent (.str k) => (k, L.val k p.2.all)
  | _ => ([], [])

/-- a one-newline Whitespace object, or an entity stored under its key whose text is the line of a good record -/
def GoodG (Sf : PRec → Prop) (p : Key × Ent) : Prop :=
  (p.2.isWs = true ∧ p.2.all = [10]) ∨
  (p.2.isWs = false ∧ Sf (recG L p) ∧ p.1 = Key.ent (.str (recG L p).1) ∧ p.2.all = L.body (recG L p))

theorem recG_of (hval : ∀ r, L.val r.1 (L.body r) = r.2) (p : Key × Ent) (r : PRec)
    (h1 : p.1 = Key.ent (.str r.1)) (h2 : p.2.all = L.body r) : recG L p = r := by
  unfold recG
  rw [h1, h2]
  simp only
  rw [hval r]

theorem good_versionDict (hval : ∀ r, L.val r.1 (L.body r) = r.2) (Sf : PRec → Prop) (i n : Nat) (rs : List PRec)
    (hs : ∀ r ∈ rs, Sf r) : ∀ p ∈ versionDict i (gents L i n rs), GoodG L Sf p := by
  intro p hp
  obtain ⟨e, he, hsb, hkey⟩ := versionDict_mem_inv i _ p hp
  rcases mem_gents L i rs n e he with ⟨j, rfl⟩ | ⟨r, hr, j, rfl⟩
  · left
    exact ⟨by rw [sameBut_isWs _ _ hsb]; rfl, by rw [hsb.2.2.2]; rfl⟩
  · have hrec := recG_of L hval p r (hkey rfl) (by rw [hsb.2.2.2]; rfl)
    right
    exact ⟨by rw [sameBut_isWs _ _ hsb]; rfl, by rw [hrec]; exact hs r hr, by rw [hrec]; exact hkey rfl,
      by rw [hrec, hsb.2.2.2]; rfl⟩

theorem mem_versionDicts_gvers (vers : List (List PRec)) (dv : Dict) (h : dv ∈ versionDicts (gvers L 0 vers)) :
    ∃ i rs, vers[i]? = some rs ∧ dv = versionDict i (gents L i 0 rs) := by
  obtain ⟨i, es, hi, rfl⟩ := (mem_versionDicts _ dv).1 h
  rw [gvers_getElem?] at hi
  cases hv : vers[i]? with
  | none => rw [hv] at hi; simp at hi
  | some rs =>
    rw [hv] at hi
    simp only [Option.map_some, Option.some.injEq] at hi
    exact ⟨i, rs, hv, by rw [← hi]⟩

/-- the dict of a printed version alternates strictly -/
theorem strict_versionDict (i n : Nat) (rs : List PRec) (hnd : (rs.map (·.1)).Nodup) :
    Strict (versionDict i (gents L i n rs)) := by
  have hk := nodupKeys_gents L i n rs hnd
  apply strict_of
  · apply alt_versionDict i _ hk
    clear hk hnd
    induction rs generalizing n with
    | nil => trivial
    | cons r rs ih => exact ⟨.inr rfl, .inl rfl, ih (n + 2)⟩
  · exact noAdjD_versionDict i _ hk (noAdjWs_gents L i rs n)
  · rw [versionDict_eq i _ hk]
    intro p hp
    cases rs with
    | nil => simp [gents, stamp, pairs] at hp
    | cons r rs' =>
      have : p.2 = { gE L i n r with oid := (i, 0) } := by
        simp only [gents, stamp, List.zipIdx_cons, List.map_cons, pairs, List.head?_cons, Option.some.injEq] at hp
        rw [← hp, getKeyValue_snd]
      rw [this]; rfl

/-! ### from the dict to text -/

/-- a strictly alternating dict of good entries is, serialised, the printed file of its records -/
theorem printed_of_strict (Sf : PRec → Prop) : ∀ d : List (Key × Ent), Strict d → (∀ p ∈ d, GoodG L Sf p) →
    serialize d = printL L ((nws d).map (recG L))
  | [], _, _ => rfl
  | [_], h, _ => by simp [Strict] at h
  | p :: q :: r, h, hg => by
    obtain ⟨hp, hq, hr⟩ := h
    have ih := printed_of_strict Sf r hr (fun x hx => hg x (by simp [hx]))
    have hpa : p.2.all = L.body (recG L p) := by
      rcases hg p (by simp) with ⟨hw1, _⟩ | ⟨_, _, _, ha⟩
      · rw [hp] at hw1; cases hw1
      · exact ha
    have hqa : q.2.all = [10] := by
      rcases hg q (by simp) with ⟨_, ha⟩ | ⟨hw1, _⟩
      · exact ha
      · rw [hq] at hw1; cases hw1
    have hs : serialize (p :: q :: r) = p.2.all ++ (q.2.all ++ serialize r) := by simp [serialize]
    rw [hs, ih, hpa, hqa]
    have hn : nws (p :: q :: r) = p :: nws r := by
      simp [nws, hp, hq]
    rw [hn]
    simp [printL]

theorem safe_recordsG (Sf : PRec → Prop) (d : List (Key × Ent)) (hg : ∀ p ∈ d, GoodG L Sf p) :
    ∀ r ∈ (nws d).map (recG L), Sf r := by
  intro r hr
  rw [List.mem_map] at hr
  obtain ⟨p, hp, rfl⟩ := hr
  rw [nws, List.mem_filter] at hp
  rcases hg p hp.1 with ⟨hw1, _⟩ | ⟨_, hs, _, _⟩
  · rw [hw1] at hp; exact absurd hp.2 (by simp)
  · exact hs

/-! ### which records -/

theorem nws_keysG {Sf : PRec → Prop} (d : List (Key × Ent)) (hgood : ∀ p ∈ d, GoodG L Sf p) :
    (nws d).map (·.1) = ((nws d).map (recG L)).map (fun r => Key.ent (.str r.1)) := by
  rw [List.map_map]
  apply List.map_congr_left
  intro p hp
  rw [nws, List.mem_filter] at hp
  rcases hgood p hp.1 with ⟨hw1, _⟩ | ⟨_, _, hk, _⟩
  · rw [hw1] at hp; exact absurd hp.2 (by simp)
  · exact hk

theorem mem_recs_iffG {Sf : PRec → Prop} (d : Dict) (hwf : WF d) (hgood : ∀ p ∈ d, GoodG L Sf p) (k : List Nat) :
    k ∈ ((nws d).map (recG L)).map (·.1) ↔ Key.ent (.str k) ∈ keysOf d := by
  constructor
  · intro h
    rw [List.map_map, List.mem_map] at h
    obtain ⟨p, hp, rfl⟩ := h
    rw [nws, List.mem_filter] at hp
    rcases hgood p hp.1 with ⟨hw1, _⟩ | ⟨_, _, hk, _⟩
    · rw [hw1] at hp; exact absurd hp.2 (by simp)
    · unfold keysOf
      rw [List.mem_map]
      exact ⟨p, hp.1, hk⟩
  · intro h
    unfold keysOf at h
    rw [List.mem_map] at h
    obtain ⟨p, hp, hk⟩ := h
    rcases hgood p hp with ⟨hw1, _⟩ | ⟨hw1, _, hk', _⟩
    · exfalso
      have := (hwf.ok p hp).1 hw1
      rw [this] at hk
      cases hk
    · rw [List.map_map, List.mem_map]
      refine ⟨p, by rw [nws, List.mem_filter]; exact ⟨hp, by simp [hw1]⟩, ?_⟩
      rw [hk'] at hk
      injection hk with hk
      injection hk with hk

/-- MAIN (format-independent): printed versions with distinct keys per version merge to a dict `d` whose serialisation is
    the PRINTED FILE of the records `recs` of its entries; every key once, a key iff some version has it, the newest
    version's record.  `hkeys` / `hnew` are `C15.merged_entity_keys` / `C15.newest_text` for this merge. -/
theorem merged_printed (hval : ∀ r, L.val r.1 (L.body r) = r.2) (Sf : PRec → Prop)
    (vers : List (List PRec)) (d : Dict) (hd : mergeResources (gvers L 0 vers) = some d)
    (hsafe : ∀ rs ∈ vers, ∀ r ∈ rs, Sf r) (hnd : ∀ rs ∈ vers, (rs.map (·.1)).Nodup)
    (hkeys : ∀ ek, Key.ent ek ∈ keysOf d ↔ ∃ es ∈ gvers L 0 vers, ∃ e ∈ es, e.keyed = true ∧ e.ekey = ek)
    (hnew : ∀ (i : Nat) (es : List Ent), (gvers L 0 vers)[i]? = some es → NodupKeys es → ∀ e ∈ es, e.keyed = true →
      (∀ j < i, ∀ es', (gvers L 0 vers)[j]? = some es' → ∀ e' ∈ es', e'.keyed = true → e'.ekey ≠ e.ekey) →
      (dget d (Key.ent e.ekey)).map (·.all) = some e.all) :
    ∃ recs : List PRec, serialize d = printL L recs ∧ (∀ r ∈ recs, Sf r) ∧
      (recs.map (·.1)).Nodup ∧
      (∀ k, k ∈ recs.map (·.1) ↔ ∃ rs ∈ vers, k ∈ rs.map (·.1)) ∧
      (∀ (i : Nat) (rs : List PRec) (r : PRec), vers[i]? = some rs → r ∈ rs →
        (∀ j < i, ∀ rs' : List PRec, vers[j]? = some rs' → r.1 ∉ rs'.map (·.1)) → r ∈ recs) := by
  obtain ⟨hwf, hmem, _⟩ := merged_alt _ d hd
  have hgood : ∀ p ∈ d, GoodG L Sf p := by
    intro p hp
    obtain ⟨dv, hdv, hpd⟩ := hmem p hp
    obtain ⟨i, rs, hi, rfl⟩ := mem_versionDicts_gvers L _ dv hdv
    exact good_versionDict L hval Sf i 0 rs (hsafe rs (List.mem_of_getElem? hi)) p hpd
  have hstrict : Strict d := by
    apply merged_strict _ d hd
    intro dv hdv
    obtain ⟨i, rs, hi, rfl⟩ := mem_versionDicts_gvers L _ dv hdv
    exact strict_versionDict L i 0 rs (hnd rs (List.mem_of_getElem? hi))
  refine ⟨(nws d).map (recG L), printed_of_strict L Sf d hstrict hgood, safe_recordsG L Sf d hgood, ?_, ?_, ?_⟩
  · have h1 : ((nws d).map (·.1)).Nodup := by
      have : ((nws d).map (·.1)).Sublist (d.map (·.1)) := (List.filter_sublist (l := d)).map _
      exact hwf.nodup.sublist this
    rw [nws_keysG L d hgood] at h1
    have e : ((nws d).map (recG L)).map (fun r => Key.ent (.str r.1))
        = (((nws d).map (recG L)).map (·.1)).map (fun k => Key.ent (.str k)) := by
      simp [List.map_map]
    rw [e] at h1
    exact nodup_of_map _ _ h1
  · intro k
    rw [mem_recs_iffG L d hwf hgood, hkeys]
    constructor
    · rintro ⟨es, hes, e, he, hkeyed, hek⟩
      obtain ⟨i, hi, hget⟩ := List.mem_iff_getElem.1 hes
      have hi' : (gvers L 0 vers)[i]? = some es := by rw [List.getElem?_eq_getElem hi, hget]
      rw [gvers_getElem?] at hi'
      cases hv : vers[i]? with
      | none => rw [hv] at hi'; simp at hi'
      | some rs =>
        rw [hv] at hi'
        simp only [Option.map_some, Option.some.injEq] at hi'
        subst hi'
        refine ⟨rs, List.mem_of_getElem? hv, ?_⟩
        rcases mem_gents L i rs 0 e he with ⟨j, rfl⟩ | ⟨r, hr, j, rfl⟩
        · exact absurd hkeyed (by simp [mW, Ent.keyed])
        · simp only [gE, EKey.str.injEq] at hek
          rw [← hek]
          exact List.mem_map.2 ⟨r, hr, rfl⟩
    · rintro ⟨rs, hrs, hk⟩
      rw [List.mem_map] at hk
      obtain ⟨r, hr, rfl⟩ := hk
      obtain ⟨i, hi, hget⟩ := List.mem_iff_getElem.1 hrs
      have hv : vers[i]? = some rs := by rw [List.getElem?_eq_getElem hi, hget]
      obtain ⟨j, hj⟩ := gE_mem_gents L i rs 0 r hr
      refine ⟨gents L i 0 rs, ?_, gE L i j r, hj, rfl, rfl⟩
      apply List.mem_of_getElem? (i := i)
      rw [gvers_getElem?, hv]
      rfl
  · intro i rs r hv hr hfirst
    obtain ⟨j, hj⟩ := gE_mem_gents L i rs 0 r hr
    have hi : (gvers L 0 vers)[i]? = some (gents L i 0 rs) := by rw [gvers_getElem?, hv]; rfl
    have hn := hnew i _ hi (nodupKeys_gents L i 0 rs (hnd rs (List.mem_of_getElem? hv))) (gE L i j r) hj rfl (by
      intro j' hj' es' hes' e' he' hkeyed' hek
      rw [gvers_getElem?] at hes'
      cases hv' : vers[j']? with
      | none => rw [hv'] at hes'; simp at hes'
      | some rs' =>
        rw [hv'] at hes'
        simp only [Option.map_some, Option.some.injEq] at hes'
        subst hes'
        rcases mem_gents L j' rs' 0 e' he' with ⟨_, rfl⟩ | ⟨r', hr', _, rfl⟩
        · exact absurd hkeyed' (by simp [mW, Ent.keyed])
        · simp only [gE, EKey.str.injEq] at hek
          exact hfirst j' hj' rs' hv' (List.mem_map.2 ⟨r', hr', hek⟩))
    cases hg : dget d (Key.ent (gE L i j r).ekey) with
    | none => rw [hg] at hn; simp at hn
    | some e =>
      rw [hg] at hn
      simp only [Option.map_some, Option.some.injEq] at hn
      have hm := dget_mem d _ _ hg
      have hw1 : e.isWs = false := by
        cases h : e.isWs
        · rfl
        · have := (hwf.ok _ hm).1 h
          cases this
      rw [List.mem_map]
      refine ⟨(Key.ent (.str r.1), e), by rw [nws, List.mem_filter]; exact ⟨hm, by simp [hw1]⟩, ?_⟩
      exact recG_of L hval _ r rfl hn

/-- all versions walk to their printed entries when each one does -/
theorem walkAll_gen (f : P.Fmt) (pr : List PRec → List Nat) (Sf : PRec → Prop)
    (hw : ∀ (ver : Nat) (rs : List PRec), (∀ r ∈ rs, Sf r) → walkEnts f ver (pr rs).toArray = .ok (gents L ver 0 rs)) :
    ∀ (vers : List (List PRec)) (j : Nat), (∀ rs ∈ vers, ∀ r ∈ rs, Sf r) →
      walkAll f ((vers.map (fun rs => (pr rs).toArray)).zipIdx j) = .ok (gvers L j vers) := by
  intro vers
  induction vers with
  | nil => intro _ _; rfl
  | cons rs vers ih =>
    intro j h
    simp only [List.map_cons, List.zipIdx_cons, walkAll, gvers]
    rw [hw j rs (h rs (by simp)), ih (j + 1) (fun rs' hrs' => h rs' (by simp [hrs']))]
    rfl

/-- … and `merge_resources` does succeed on a non-empty list of versions -/
theorem merge_some (v : List PRec) (vs : List (List PRec)) : ∃ d, mergeResources (gvers L 0 (v :: vs)) = some d := by
  rw [mergeResources_eq]
  cases hvd : versionDicts (gvers L 0 (v :: vs)) with
  | nil => simp [versionDicts, gvers] at hvd
  | cons d0 ds => exact ⟨_, rfl⟩

end C15S

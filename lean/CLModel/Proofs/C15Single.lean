/-
Helper lemmas for C15, part 6: a version without duplicate keys is stored entry by entry;
merging a single version and merging identical versions.  Core Lean only.
-/
import CLModel.Proofs.C15Ident
namespace Merge
open AR

/-! ### `get_key_value` by cases -/

theorem getKeyValue_comment (e : Ent) (c : List (List Nat × Nat)) (h : e.kind = .comment) :
    getKeyValue e c = ((Key.comment e.val (cnt c e.val + 1), e), dset c e.val (cnt c e.val + 1)) := by
  simp [getKeyValue, h]

theorem getKeyValue_ws (e : Ent) (c : List (List Nat × Nat)) (h : e.kind = .whitespace) :
    getKeyValue e c = ((Key.obj e.oid.1 e.oid.2, e), c) := by
  simp [getKeyValue, h]

theorem getKeyValue_ent (e : Ent) (c : List (List Nat × Nat)) (h1 : e.kind ≠ .comment)
    (h2 : e.kind ≠ .whitespace) : getKeyValue e c = ((Key.ent e.ekey, e), c) := by
  simp [getKeyValue, h1, h2]

theorem cnt_dset (c : List (List Nat × Nat)) (v v' : List Nat) (n : Nat) :
    cnt (dset c v n) v' = if v == v' then n else cnt c v' := by
  unfold cnt
  rw [dget_dset]
  by_cases h : v == v' <;> simp [h]

theorem pairs_comment_gt (es : List Ent) (c : List (List Nat × Nat)) (v : List Nat) (m : Nat)
    (h : Key.comment v m ∈ (pairs es c).map (·.1)) : cnt c v < m := by
  induction es generalizing c with
  | nil => simp [pairs] at h
  | cons e es ih =>
    by_cases h1 : e.kind = .comment
    · simp only [pairs, getKeyValue_comment e c h1, List.map_cons, List.mem_cons] at h
      rcases h with h | h
      · injection h with hv hm
        subst hv; omega
      · have := ih _ h
        rw [cnt_dset] at this
        split at this
        · rename_i hv
          have := eq_of_beq hv
          subst this; omega
        · exact this
    · by_cases h2 : e.kind = .whitespace
      · simp only [pairs, getKeyValue_ws e c h2, List.map_cons, List.mem_cons] at h
        rcases h with h | h
        · cases h
        · exact ih _ h
      · simp only [pairs, getKeyValue_ent e c h1 h2, List.map_cons, List.mem_cons] at h
        rcases h with h | h
        · cases h
        · exact ih _ h

theorem pairs_obj_mem (es : List Ent) (c : List (List Nat × Nat)) (a b : Nat)
    (h : Key.obj a b ∈ (pairs es c).map (·.1)) : ∃ e ∈ es, e.isWs = true ∧ e.oid = (a, b) := by
  induction es generalizing c with
  | nil => simp [pairs] at h
  | cons e es ih =>
    by_cases h1 : e.kind = .comment
    · simp only [pairs, getKeyValue_comment e c h1, List.map_cons, List.mem_cons] at h
      rcases h with h | h
      · cases h
      · obtain ⟨e', he', hw⟩ := ih _ h
        exact ⟨e', List.mem_cons_of_mem _ he', hw⟩
    · by_cases h2 : e.kind = .whitespace
      · simp only [pairs, getKeyValue_ws e c h2, List.map_cons, List.mem_cons] at h
        rcases h with h | h
        · injection h with ha hb
          exact ⟨e, by simp, by simp [Ent.isWs, h2], by rw [ha, hb]⟩
        · obtain ⟨e', he', hw⟩ := ih _ h
          exact ⟨e', List.mem_cons_of_mem _ he', hw⟩
      · simp only [pairs, getKeyValue_ent e c h1 h2, List.map_cons, List.mem_cons] at h
        rcases h with h | h
        · cases h
        · obtain ⟨e', he', hw⟩ := ih _ h
          exact ⟨e', List.mem_cons_of_mem _ he', hw⟩

/-- without duplicate `entity.key`s (and with distinct Whitespace objects) all dict keys differ -/
theorem pairs_keys_nodup (es : List Ent) (c : List (List Nat × Nat)) (h1 : NodupKeys es)
    (h2 : ((es.filter (·.isWs)).map (·.oid)).Nodup) : ((pairs es c).map (·.1)).Nodup := by
  induction es generalizing c with
  | nil => simp [pairs]
  | cons e es ih =>
    have hk : NodupKeys es := by
      unfold NodupKeys at h1 ⊢
      rw [List.filter_cons] at h1
      split at h1
      · rw [List.map_cons, List.nodup_cons] at h1; exact h1.2
      · exact h1
    have ho : ((es.filter (·.isWs)).map (·.oid)).Nodup := by
      rw [List.filter_cons] at h2
      split at h2
      · rw [List.map_cons, List.nodup_cons] at h2; exact h2.2
      · exact h2
    by_cases hc : e.kind = .comment
    · simp only [pairs, getKeyValue_comment e c hc, List.map_cons, List.nodup_cons]
      refine ⟨?_, ih _ hk ho⟩
      intro hm
      have := pairs_comment_gt _ _ _ _ hm
      rw [cnt_dset] at this
      simp at this
    · by_cases hw : e.kind = .whitespace
      · simp only [pairs, getKeyValue_ws e c hw, List.map_cons, List.nodup_cons]
        refine ⟨?_, ih _ hk ho⟩
        intro hm
        obtain ⟨e', he', hw', ho'⟩ := pairs_obj_mem _ _ _ _ hm
        have hews : e.isWs = true := by simp [Ent.isWs, hw]
        rw [List.filter_cons, if_pos hews, List.map_cons, List.nodup_cons] at h2
        apply h2.1
        rw [List.mem_map]
        exact ⟨e', List.mem_filter.2 ⟨he', hw'⟩, ho'⟩
      · simp only [pairs, getKeyValue_ent e c hc hw, List.map_cons, List.nodup_cons]
        refine ⟨?_, ih _ hk ho⟩
        intro hm
        obtain ⟨e', he', hk', hek⟩ := (pairs_ent_mem _ _ _).1 hm
        have hkeyed : e.keyed = true := by simp [Ent.keyed, hc, hw]
        unfold NodupKeys at h1
        rw [List.filter_cons, if_pos hkeyed, List.map_cons, List.nodup_cons] at h1
        apply h1.1
        rw [List.mem_map]
        exact ⟨e', List.mem_filter.2 ⟨he', hk'⟩, hek⟩

/-! ### `stamp` -/

/-- two lists related position by position -/
inductive All2 {α β : Type} (R : α → β → Prop) : List α → List β → Prop
  | nil : All2 R [] []
  | cons {a : α} {b : β} {as : List α} {bs : List β} : R a b → All2 R as bs → All2 R (a :: as) (b :: bs)

/-- same entry up to the identity of the object -/
def SameBut (e1 e2 : Ent) : Prop := e1.kind = e2.kind ∧ e1.ekey = e2.ekey ∧ e1.val = e2.val ∧ e1.all = e2.all

def stampFrom (v n : Nat) (es : List Ent) : List Ent := (es.zipIdx n).map (fun p => { p.1 with oid := (v, p.2) })

theorem stamp_eq (v : Nat) (es : List Ent) : stamp v es = stampFrom v 0 es := rfl

theorem stampFrom_cons (v n : Nat) (e : Ent) (es : List Ent) :
    stampFrom v n (e :: es) = { e with oid := (v, n) } :: stampFrom v (n + 1) es := by
  simp [stampFrom, List.zipIdx_cons]

theorem stampFrom_same (v n : Nat) (es : List Ent) : All2 SameBut (stampFrom v n es) es := by
  induction es generalizing n with
  | nil => exact .nil
  | cons e es ih =>
    rw [stampFrom_cons]
    exact .cons ⟨rfl, rfl, rfl, rfl⟩ (ih _)

theorem stampFrom_oid (v n : Nat) (es : List Ent) : ∀ e ∈ stampFrom v n es, e.oid.1 = v ∧ n ≤ e.oid.2 := by
  induction es generalizing n with
  | nil => simp [stampFrom]
  | cons e es ih =>
    rw [stampFrom_cons]
    intro e' he'
    rw [List.mem_cons] at he'
    rcases he' with rfl | he'
    · exact ⟨rfl, Nat.le_refl _⟩
    · have := ih (n + 1) e' he'
      exact ⟨this.1, by omega⟩

theorem stampFrom_oids_nodup (v n : Nat) (es : List Ent) : ((stampFrom v n es).map (·.oid)).Nodup := by
  induction es generalizing n with
  | nil => simp [stampFrom]
  | cons e es ih =>
    rw [stampFrom_cons, List.map_cons, List.nodup_cons]
    refine ⟨?_, ih _⟩
    intro hm
    rw [List.mem_map] at hm
    obtain ⟨e', he', ho⟩ := hm
    have h2 := (stampFrom_oid v (n + 1) es e' he').2
    have ho' : e'.oid = (v, n) := ho
    rw [ho'] at h2
    simp only at h2
    omega

theorem stamp_ws_oids_nodup (v : Nat) (es : List Ent) :
    (((stamp v es).filter (·.isWs)).map (·.oid)).Nodup :=
  (stampFrom_oids_nodup v 0 es).sublist ((List.filter_sublist).map _)

theorem sameBut_keyed (e1 e2 : Ent) (h : SameBut e1 e2) : e1.keyed = e2.keyed := by
  simp [Ent.keyed, h.1]

theorem sameBut_isWs (e1 e2 : Ent) (h : SameBut e1 e2) : e1.isWs = e2.isWs := by
  simp [Ent.isWs, h.1]

theorem sameBut_ekeys (es1 es2 : List Ent) (h : All2 SameBut es1 es2) :
    (es1.filter (·.keyed)).map (·.ekey) = (es2.filter (·.keyed)).map (·.ekey) := by
  induction h with
  | nil => rfl
  | cons hab _ ih =>
    rw [List.filter_cons, List.filter_cons, sameBut_keyed _ _ hab]
    split
    · rw [List.map_cons, List.map_cons, ih, hab.2.1]
    · exact ih

theorem sameBut_alls (es1 es2 : List Ent) (h : All2 SameBut es1 es2) :
    es1.map (·.all) = es2.map (·.all) := by
  induction h with
  | nil => rfl
  | cons hab _ ih => rw [List.map_cons, List.map_cons, ih, hab.2.2.2]

theorem nodupKeys_stamp (v : Nat) (es : List Ent) (h : NodupKeys es) : NodupKeys (stamp v es) := by
  unfold NodupKeys
  rw [stamp_eq, sameBut_ekeys _ _ (stampFrom_same v 0 es)]
  exact h

/-- a version without duplicate keys is stored entry by entry -/
theorem versionDict_eq (v : Nat) (es : List Ent) (h : NodupKeys es) :
    versionDict v es = pairs (stamp v es) [] := by
  unfold versionDict parseResource
  rw [orderedDict_eq, odFrom_of_nodup]
  · rfl
  · simpa using pairs_keys_nodup (stamp v es) [] (nodupKeys_stamp v es h) (stamp_ws_oids_nodup v es)

theorem serialize_versionDict (v : Nat) (es : List Ent) (h : NodupKeys es) :
    serialize (versionDict v es) = (es.map (·.all)).flatten := by
  rw [versionDict_eq v es h, serialize]
  have : (pairs (stamp v es) []).map (fun p => p.2.all) = ((pairs (stamp v es) []).map (·.2)).map (·.all) := by
    rw [List.map_map]; rfl
  rw [this, pairs_map_snd, stamp_eq, sameBut_alls _ _ (stampFrom_same v 0 es)]

theorem mergeResources_single (es : List Ent) : mergeResources [es] = some (versionDict 0 es) := rfl

/-! ### position-wise relations -/

section all2
variable {α β γ : Type}

theorem all2_length {R : α → β → Prop} {a : List α} {b : List β} (h : All2 R a b) : a.length = b.length := by
  induction h with
  | nil => rfl
  | cons _ _ ih => simp [ih]

theorem all2_zip_mem {R : α → β → Prop} {a : List α} {b : List β} (h : All2 R a b) :
    ∀ p ∈ a.zip b, R p.1 p.2 := by
  induction h with
  | nil => simp
  | cons hab _ ih =>
    intro p hp
    rw [List.zip_cons_cons, List.mem_cons] at hp
    rcases hp with rfl | hp
    · exact hab
    · exact ih p hp

theorem all2_trans {R : α → β → Prop} {S : β → γ → Prop} {T : α → γ → Prop}
    (hT : ∀ x y z, R x y → S y z → T x z) {a : List α} {b : List β} {c : List γ}
    (h1 : All2 R a b) (h2 : All2 S b c) : All2 T a c := by
  induction h1 generalizing c with
  | nil => cases h2; exact .nil
  | cons hab _ ih =>
    cases h2 with
    | cons hbc h2' => exact .cons (hT _ _ _ hab hbc) (ih h2')

end all2

theorem align_trans (x y z : Key × Ent) (h1 : Align x y) (h2 : Align y z) : Align x z := by
  refine ⟨h1.1.trans h2.1, ?_, h1.2.2.trans h2.2.2⟩
  intro hx
  rw [h1.2.1 hx]
  exact h2.2.1 (by rw [← h1.1]; exact hx)

theorem serialize_align (a b : Dict) (h : All2 Align a b) : serialize a = serialize b := by
  unfold serialize
  congr 1
  induction h with
  | nil => rfl
  | cons hab _ ih => rw [List.map_cons, List.map_cons, ih, hab.2.2]

def NoAdjD : Dict → Prop
  | x :: y :: rest => ¬ (x.2.isWs = true ∧ y.2.isWs = true) ∧ NoAdjD (y :: rest)
  | _ => True

theorem noAdjD_all2 : (a b : Dict) → All2 Align a b → NoAdjD b → NoAdjD a
  | [], _, _, _ => trivial
  | [_], _, _, _ => trivial
  | x :: y :: rest, b, h, hb => by
    cases h with
    | cons hx h' =>
      cases h' with
      | cons hy h'' =>
        refine ⟨?_, noAdjD_all2 (y :: rest) _ (.cons hy h'') hb.2⟩
        rw [hx.1, hy.1]
        exact hb.1

theorem noAdjZ_zip : (a b : Dict) → All2 Align a b → NoAdjD a → NoAdjZ (a.zip b)
  | [], _, _, _ => by simp [NoAdjZ]
  | [x], b, h, _ => by
    cases h with
    | cons _ h' => cases h'; simp [NoAdjZ]
  | x :: y :: rest, b, h, ha => by
    cases h with
    | cons hx h' =>
      cases h' with
      | cons hy h'' =>
        rw [List.zip_cons_cons, List.zip_cons_cons]
        refine ⟨ha.1, ?_⟩
        have := noAdjZ_zip (y :: rest) _ (.cons hy h'') ha.2
        rwa [List.zip_cons_cons] at this

theorem mix_align (a b : Dict) (h : All2 Align a b) : All2 Align (mix (a.zip b)) a := by
  induction h with
  | nil => exact .nil
  | @cons x y _ _ hab _ ih =>
    rw [List.zip_cons_cons, mix_cons]
    refine .cons ?_ ih
    by_cases hw : x.2.isWs = true
    · rw [if_pos hw]
      exact ⟨hab.1.symm, fun h => by rw [← hab.1, hw] at h; exact absurd h (by simp), hab.2.2.symm⟩
    · rw [if_neg hw]
      exact ⟨rfl, fun _ => rfl, rfl⟩

/-- merging with a dict of the same shape whose Whitespace objects are new: Whitespace is taken from
    the older dict (it sorts first and has the same length), everything else from the newer -/
theorem mergeTwo_aligned (a b : Dict) (ha : WF a) (hb : WF b) (hF : All2 Align a b)
    (hdisj : ∀ q ∈ b, q.2.isWs = true → ¬ q.1 ∈ keysOf a) (hadj : NoAdjD a) :
    mergeTwo a b = mix (a.zip b) := by
  have hlen := all2_length hF
  have hz1 : (a.zip b).map (·.1) = a := List.map_fst_zip (by omega)
  have hz2 : (a.zip b).map (·.2) = b := List.map_snd_zip (by omega)
  have hk1 : (a.zip b).map (·.1.1) = keysOf a := by
    have : (a.zip b).map (·.1.1) = ((a.zip b).map (·.1)).map (·.1) := by rw [List.map_map]; rfl
    rw [this, hz1]; rfl
  have hk2 : (a.zip b).map (·.2.1) = keysOf b := by
    have : (a.zip b).map (·.2.1) = ((a.zip b).map (·.2)).map (·.1) := by rw [List.map_map]; rfl
    rw [this, hz2]; rfl
  have hal := all2_zip_mem hF
  have hm1 : ∀ p ∈ a.zip b, p.1 ∈ a := fun p hp => by
    rw [← hz1]; exact List.mem_map.2 ⟨p, hp, rfl⟩
  have hm2 : ∀ p ∈ a.zip b, p.2 ∈ b := fun p hp => by
    rw [← hz2]; exact List.mem_map.2 ⟨p, hp, rfl⟩
  have hws : ∀ p ∈ a.zip b, p.1.2.isWs = true → ¬ p.2.1 ∈ (a.zip b).map (·.1.1) := by
    intro p hp hw
    rw [hk1]
    exact hdisj p.2 (hm2 p hp) (by rw [← (hal p hp).1]; exact hw)
  have hspec := specKeys_aligned (a.zip b) (by rw [hk1]; exact ha.nodup) hal hws (noAdjZ_zip a b hF hadj)
  rw [hk1, hk2] at hspec
  rw [mergeTwo_eq a b ha hb, contentsOf, hspec,
    fold_aligned (getNewerEntity a b) (a.zip b) [] ?_ ?_ hal (noAdjZ_zip a b hF hadj) ?_]
  · simp
  · intro p hp
    rw [getNewer_left a b p.1.1 (List.mem_map.2 ⟨p.1, hm1 p hp, rfl⟩), dget_eq_some_iff a ha.nodup]
    exact hm1 p hp
  · intro p hp hw
    have hn : ¬ p.2.1 ∈ keysOf a := by
      have := hws p hp hw
      rwa [hk1] at this
    rw [getNewer_right a b p.2.1 hn, dget_eq_some_iff b hb.nodup]
    exact hm2 p hp
  · cases a.zip b <;> simp [StartOK, HeadNonWs]

/-! ### identical versions -/

theorem stampFrom_same2 (v v' n : Nat) (es : List Ent) :
    All2 SameBut (stampFrom v n es) (stampFrom v' n es) := by
  induction es generalizing n with
  | nil => exact .nil
  | cons e es ih =>
    rw [stampFrom_cons, stampFrom_cons]
    exact .cons ⟨rfl, rfl, rfl, rfl⟩ (ih _)

theorem pairs_align (es1 es2 : List Ent) (h : All2 SameBut es1 es2) (c : List (List Nat × Nat)) :
    All2 Align (pairs es1 c) (pairs es2 c) := by
  induction h generalizing c with
  | nil => exact .nil
  | @cons e1 e2 _ _ hab _ ih =>
    by_cases hc : e1.kind = .comment
    · have hc2 : e2.kind = .comment := by rw [← hab.1]; exact hc
      simp only [pairs, getKeyValue_comment e1 c hc, getKeyValue_comment e2 c hc2, hab.2.2.1]
      refine .cons ⟨?_, fun _ => rfl, hab.2.2.2⟩ (ih _)
      simp [Ent.isWs, hab.1]
    · have hc2 : e2.kind ≠ .comment := by rw [← hab.1]; exact hc
      by_cases hw : e1.kind = .whitespace
      · have hw2 : e2.kind = .whitespace := by rw [← hab.1]; exact hw
        simp only [pairs, getKeyValue_ws e1 c hw, getKeyValue_ws e2 c hw2]
        refine .cons ⟨?_, ?_, hab.2.2.2⟩ (ih _)
        · simp [Ent.isWs, hab.1]
        · intro h; simp [Ent.isWs, hw] at h
      · have hw2 : e2.kind ≠ .whitespace := by rw [← hab.1]; exact hw
        simp only [pairs, getKeyValue_ent e1 c hc hw, getKeyValue_ent e2 c hc2 hw2, hab.2.1]
        refine .cons ⟨?_, fun _ => rfl, hab.2.2.2⟩ (ih _)
        simp [Ent.isWs, hab.1]

theorem versionDict_align (i j : Nat) (es : List Ent) (h : NodupKeys es) :
    All2 Align (versionDict i es) (versionDict j es) := by
  rw [versionDict_eq i es h, versionDict_eq j es h, stamp_eq, stamp_eq]
  exact pairs_align _ _ (stampFrom_same2 i j 0 es) []

theorem noAdjD_pairs : (es : List Ent) → (c : List (List Nat × Nat)) → NoAdjWs es → NoAdjD (pairs es c)
  | [], _, _ => trivial
  | [e], c, _ => by simp [pairs, NoAdjD]
  | e1 :: e2 :: rest, c, h => by
    have ih := noAdjD_pairs (e2 :: rest) (getKeyValue e1 c).2 h.2
    simp only [pairs] at ih ⊢
    refine ⟨?_, ih⟩
    rw [getKeyValue_snd, getKeyValue_snd]
    exact h.1

theorem noAdjWs_same : (a b : List Ent) → All2 SameBut a b → NoAdjWs b → NoAdjWs a
  | [], _, _, _ => trivial
  | [_], _, _, _ => trivial
  | x :: y :: rest, b, h, hb => by
    cases h with
    | cons hx h' =>
      cases h' with
      | cons hy h'' =>
        refine ⟨?_, noAdjWs_same (y :: rest) _ (.cons hy h'') hb.2⟩
        rw [sameBut_isWs _ _ hx, sameBut_isWs _ _ hy]
        exact hb.1

theorem noAdjD_versionDict (i : Nat) (es : List Ent) (hk : NodupKeys es) (h : NoAdjWs es) :
    NoAdjD (versionDict i es) := by
  rw [versionDict_eq i es hk]
  exact noAdjD_pairs _ _ (noAdjWs_same _ _ (stampFrom_same i 0 es) h)

/-- folding further copies of the same version into a dict of that version's shape keeps the shape -/
theorem fold_identical (es : List Ent) (hk : NodupKeys es) (hadj : NoAdjWs es) :
    ∀ (m j : Nat) (acc : Dict), WF acc → VerLt j acc → All2 Align acc (versionDict 0 es) →
      All2 Align ((((List.replicate m es).zipIdx j).map (fun p => versionDict p.2 p.1)).foldl mergeTwo acc)
        (versionDict 0 es) := by
  intro m
  induction m with
  | zero => intro j acc _ _ h; exact h
  | succ m ih =>
    intro j acc hwf hlt hal
    rw [List.replicate_succ, List.zipIdx_cons, List.map_cons, List.foldl_cons]
    have hb : WF (versionDict j es) := parseResource_wf _
    have hv : VerEq j (versionDict j es) := parseResource_verEq j es
    have hal2 : All2 Align acc (versionDict j es) :=
      all2_trans align_trans hal (versionDict_align 0 j es hk)
    have hdisj : ∀ q ∈ versionDict j es, q.2.isWs = true → ¬ q.1 ∈ keysOf acc := by
      intro q hq hw hm
      have hobj : q.1.isObj = true := by rw [(hb.ok q hq).1 hw]; rfl
      exact verDisj j acc _ hwf hb hlt hv q.1 hobj hm (List.mem_map.2 ⟨q, hq, rfl⟩)
    have hnoadj : NoAdjD acc := noAdjD_all2 _ _ hal (noAdjD_versionDict 0 es hk hadj)
    have hmix := mergeTwo_aligned acc (versionDict j es) hwf hb hal2 hdisj hnoadj
    apply ih (j + 1) _ (mergeTwo_wf acc _ hwf hb) (mergeTwo_verLt j acc _ hwf hb hlt hv)
    rw [hmix]
    exact all2_trans align_trans (mix_align _ _ hal2) hal

theorem all2_refl_align (d : Dict) : All2 Align d d := by
  induction d with
  | nil => exact .nil
  | cons p d ih => exact .cons ⟨rfl, fun _ => rfl, rfl⟩ ih

theorem mergeResources_identical (es : List Ent) (n : Nat) (hk : NodupKeys es) (hadj : NoAdjWs es) :
    ∃ d, mergeResources (List.replicate (n + 1) es) = some d ∧ serialize d = (es.map (·.all)).flatten := by
  rw [mergeResources_eq, versionDicts, List.replicate_succ, List.zipIdx_cons, List.map_cons]
  refine ⟨_, rfl, ?_⟩
  have := fold_identical es hk hadj n 1 (versionDict 0 es) (parseResource_wf _)
    (verEq_lt 0 _ (parseResource_verEq 0 es)) (all2_refl_align _)
  rw [serialize_align _ _ this, serialize_versionDict 0 es hk]

end Merge

/-
C13 helper lemmas: what `ProjectFiles.__init__` (model: `build`) puts into `self.matchers`.
-/
import CLModel.Paths.ProjectFiles
import CLModel.Proofs.C13Dedup
namespace PF

/-! ### config lists -/

theorem mem_maybeExtend {c : Config} : ∀ {other self : List Config}, c ∈ maybeExtend self other → c ∈ self ∨ c ∈ other
  | [], self, h => by simp [maybeExtend] at h; exact Or.inl h
  | o :: os, self, h => by
    have ih := fun s => mem_maybeExtend (c := c) (other := os) (self := s)
    simp only [maybeExtend, List.foldl_cons] at h ih
    split at h
    · rcases ih _ h with h | h
      · exact Or.inl h
      · exact Or.inr (List.mem_cons_of_mem _ h)
    · rcases ih _ h with h | h
      · rcases List.mem_append.1 h with h | h
        · exact Or.inl h
        · simp only [List.mem_singleton] at h
          exact Or.inr (h ▸ List.mem_cons_self)
      · exact Or.inr (List.mem_cons_of_mem _ h)

theorem maybeExtend_keeps {c : Config} : ∀ {other self : List Config}, c ∈ self → c ∈ maybeExtend self other
  | [], _, h => by simpa [maybeExtend] using h
  | o :: os, self, h => by
    have ih := fun s => maybeExtend_keeps (c := c) (other := os) (self := s)
    simp only [maybeExtend, List.foldl_cons] at ih ⊢
    split
    · exact ih _ h
    · exact ih _ (List.mem_append_left _ h)

/-- `maybe_extend` keeps a config with the same path for everything offered -/
theorem maybeExtend_path {c : Config} : ∀ {other self : List Config}, c ∈ other →
    ∃ c' ∈ maybeExtend self other, c'.path = c.path
  | [], _, h => by simp at h
  | o :: os, self, h => by
    have ih := fun s => maybeExtend_path (c := c) (other := os) (self := s)
    have keep := fun (c' : Config) s (h : c' ∈ s) => maybeExtend_keeps (c := c') (other := os) (self := s) h
    simp only [maybeExtend, List.foldl_cons] at ih keep ⊢
    rcases List.mem_cons.1 h with rfl | h
    · split
      · rename_i hany
        simp only [List.any_eq_true, beq_iff_eq] at hany
        obtain ⟨mine, hm, hp⟩ := hany
        exact ⟨mine, keep mine _ hm, hp⟩
      · exact ⟨c, keep c _ (by simp), rfl⟩
    · split
      · exact ih _ h
      · exact ih _ h

def enabledProject (locale : Option Loc) (project : Config) : Prop :=
  ∀ l, locale = some l → inAllLocales project l = true

theorem skipProject_false {locale : Option Loc} {project : Config} :
    skipProject locale project = false ↔ enabledProject locale project := by
  unfold skipProject enabledProject
  cases locale with
  | none => simp
  | some l => simp

def collectStep (locale : Option Loc) (acc : List Config × List Config) (project : Config) : List Config × List Config :=
  if skipProject locale project then acc
  else (maybeExtend acc.1 project.configs, maybeExtend acc.2 project.excludes)

theorem collect_eq {locale : Option Loc} {projects : List Config} :
    collect locale projects = projects.foldl (collectStep locale) ([], []) := rfl

theorem collect_sound {locale : Option Loc} {c : Config} : ∀ {projects : List Config} {acc : List Config × List Config},
    c ∈ (projects.foldl (collectStep locale) acc).1 →
    c ∈ acc.1 ∨ ∃ project ∈ projects, enabledProject locale project ∧ c ∈ project.configs
  | [], _, h => Or.inl h
  | p :: ps, acc, h => by
    rw [List.foldl_cons] at h
    rcases collect_sound (projects := ps) h with h | ⟨q, hq, he, hc⟩
    · unfold collectStep at h
      cases hs : skipProject locale p with
      | true => simp only [hs, if_true] at h; exact Or.inl h
      | false =>
        simp only [hs, Bool.false_eq_true, if_false] at h
        rcases mem_maybeExtend h with h | h
        · exact Or.inl h
        · exact Or.inr ⟨p, List.mem_cons_self, skipProject_false.1 hs, h⟩
    · exact Or.inr ⟨q, List.mem_cons_of_mem _ hq, he, hc⟩

/-- every config in the list comes from an enabled project -/
theorem mem_collect {locale : Option Loc} {projects : List Config} {c : Config}
    (h : c ∈ (collect locale projects).1) : ∃ project ∈ projects, enabledProject locale project ∧ c ∈ project.configs := by
  rw [collect_eq] at h
  rcases collect_sound h with h | h
  · simp at h
  · exact h

theorem collect_keeps {locale : Option Loc} {c : Config} : ∀ {projects : List Config} {acc : List Config × List Config},
    c ∈ acc.1 → c ∈ (projects.foldl (collectStep locale) acc).1
  | [], _, h => h
  | p :: ps, acc, h => by
    rw [List.foldl_cons]
    apply collect_keeps (projects := ps)
    unfold collectStep
    split
    · exact h
    · exact maybeExtend_keeps h

theorem collect_complete_aux {locale : Option Loc} {c : Config} {project : Config}
    (he : enabledProject locale project) (hc : c ∈ project.configs) :
    ∀ {projects : List Config} {acc : List Config × List Config}, project ∈ projects →
    ∃ c' ∈ (projects.foldl (collectStep locale) acc).1, c'.path = c.path
  | [], _, h => by simp at h
  | p :: ps, acc, h => by
    rw [List.foldl_cons]
    rcases List.mem_cons.1 h with rfl | h
    · have hen := skipProject_false.2 he
      unfold collectStep
      simp only [hen, Bool.false_eq_true, if_false]
      obtain ⟨c', hc', hp⟩ := maybeExtend_path (self := acc.1) hc
      exact ⟨c', collect_keeps hc', hp⟩
    · exact collect_complete_aux he hc h

/-- every config of an enabled project is in the list, up to `ConfigList`'s identification by path -/
theorem collect_complete {locale : Option Loc} {projects : List Config} {project c : Config}
    (hp : project ∈ projects) (he : enabledProject locale project) (hc : c ∈ project.configs) :
    ∃ c' ∈ (collect locale projects).1, c'.path = c.path := by
  rw [collect_eq]
  exact collect_complete_aux he hc hp

theorem mem_gated {locale : Option Loc} {configs : List Config} {pr : PathRule} :
    pr ∈ gated locale configs ↔
      ∃ pc ∈ configs, localeOk locale pc.locales = true ∧ pr ∈ pc.paths ∧ localeOk locale pr.locales = true := by
  simp only [gated, List.mem_flatMap]
  constructor
  · rintro ⟨pc, hpc, h⟩
    split at h
    · rename_i hok
      simp only [List.mem_filter] at h
      exact ⟨pc, hpc, hok, h.1, h.2⟩
    · simp at h
  · rintro ⟨pc, hpc, hok, h1, h2⟩
    exact ⟨pc, hpc, by simp [hok, List.mem_filter, h1, h2]⟩

/-! ### rules -/

theorem mkRule_ok {locale : Option Loc} {mb : Bool} {p : PathRule} {r : Rule} (h : mkRule locale mb p = .ok r) :
    r.l10n = p.l10n ∧ r.reference = p.reference ∧ r.merge = (if mb then some p.merge else none) ∧
    r.test = setOfList (optList p.test) := by
  unfold mkRule at h
  split at h
  · rename_i hmb
    split at h
    · simp at h
    · simp only [Except.ok.injEq] at h
      subst h
      simp [hmb]
  · rename_i hmb
    simp only [Except.ok.injEq] at h
    subst h
    simp [hmb]

theorem mkRules_mem_right {locale : Option Loc} {mb : Bool} : ∀ {ps : List PathRule} {rs : List Rule},
    mkRules locale mb ps = .ok rs → ∀ r ∈ rs, ∃ p ∈ ps, mkRule locale mb p = .ok r
  | [], rs, h, r, hr => by
    simp only [mkRules, Except.ok.injEq] at h
    subst h
    simp at hr
  | p :: ps, rs, h, r, hr => by
    unfold mkRules at h
    cases hr0 : mkRule locale mb p with
    | error e => simp [hr0] at h
    | ok r0 =>
      simp only [hr0] at h
      cases hrs : mkRules locale mb ps with
      | error e => simp [hrs, Except.map] at h
      | ok rs' =>
        simp only [hrs, Except.map, Except.ok.injEq] at h
        subst h
        rcases List.mem_cons.1 hr with rfl | hr
        · exact ⟨p, List.mem_cons_self, hr0⟩
        · obtain ⟨q, hq, h⟩ := mkRules_mem_right hrs r hr
          exact ⟨q, List.mem_cons_of_mem _ hq, h⟩

theorem mkRules_mem_left {locale : Option Loc} {mb : Bool} : ∀ {ps : List PathRule} {rs : List Rule},
    mkRules locale mb ps = .ok rs → ∀ p ∈ ps, ∃ r ∈ rs, mkRule locale mb p = .ok r
  | [], rs, h, p, hp => by simp at hp
  | p0 :: ps, rs, h, p, hp => by
    unfold mkRules at h
    cases hr0 : mkRule locale mb p0 with
    | error e => simp [hr0] at h
    | ok r0 =>
      simp only [hr0] at h
      cases hrs : mkRules locale mb ps with
      | error e => simp [hrs, Except.map] at h
      | ok rs' =>
        simp only [hrs, Except.map, Except.ok.injEq] at h
        subst h
        rcases List.mem_cons.1 hp with rfl | hp
        · exact ⟨r0, List.mem_cons_self, hr0⟩
        · obtain ⟨r, hr, h⟩ := mkRules_mem_left hrs p hp
          exact ⟨r, List.mem_cons_of_mem _ hr, h⟩

/-! ### `__init__` -/

theorem build_ok {env : MEnv} {fuel : Nat} {locale : Option Loc} {projects : List Config} {mb : Bool} {pf : PF}
    (h : build env (fuel + 1) locale projects mb = .ok pf) :
    ∃ rs, mkRules locale mb (gated locale (collect locale projects).1) = .ok rs ∧
      pf.matchers = dedupSpec env rs.reverse ∧ pf.locale = locale ∧
      (pf.exclude = none ∨ ∃ ex, pf.exclude = some ex ∧ build env fuel locale (excludesOf locale projects) false = .ok ex) := by
  unfold build at h
  split at h
  · simp at h
  · rename_i exclude hex
    split at h
    · simp at h
    · rename_i ms hms
      split at h
      · simp at h
      · rename_i ms' hd
        simp only [Except.ok.injEq] at h
        subst h
        refine ⟨ms, hms, dedup_eq_spec hd, rfl, ?_⟩
        split at hex
        · simp only [Except.ok.injEq] at hex
          exact Or.inl hex.symm
        · cases hb : build env fuel locale (excludesOf locale projects) false with
          | error e => simp [hb, Except.map] at hex
          | ok ex =>
            simp only [hb, Except.map, Except.ok.injEq] at hex
            exact Or.inr ⟨ex, hex.symm, rfl⟩

theorem build_fuel_pos {env : MEnv} {fuel : Nat} {locale : Option Loc} {projects : List Config} {mb : Bool} {pf : PF}
    (h : build env fuel locale projects mb = .ok pf) : ∃ f, fuel = f + 1 := by
  cases fuel with
  | zero => simp [build] at h
  | succ f => exact ⟨f, rfl⟩

theorem mem_setOfList {x : Nat} {l : List Nat} : x ∈ setOfList l ↔ x ∈ l := by
  simp [setOfList, mem_setUnion]

/-- every matcher of the object stems from a gated rule of a config of an enabled project -/
theorem build_matcher_origin {env : MEnv} {fuel : Nat} {locale : Option Loc} {projects : List Config} {mb : Bool}
    {pf : PF} (h : build env fuel locale projects mb = .ok pf) {r : Rule} (hr : r ∈ pf.matchers) :
    ∃ project ∈ projects, enabledProject locale project ∧ ∃ pc ∈ project.configs, localeOk locale pc.locales = true ∧
      ∃ pr ∈ pc.paths, localeOk locale pr.locales = true ∧ r.l10n = pr.l10n ∧ r.reference = pr.reference ∧
        r.merge = (if mb then some pr.merge else none) ∧ (∀ t, pr.test = some t → ∀ x ∈ t, x ∈ r.test) := by
  obtain ⟨f, rfl⟩ := build_fuel_pos h
  obtain ⟨rs, hrs, hm, _, _⟩ := build_ok h
  rw [hm] at hr
  obtain ⟨r0, hr0, rest, _, rfl⟩ := specGo_sound hr
  obtain ⟨pr, hpr, hmk⟩ := mkRules_mem_right hrs r0 (List.mem_reverse.1 hr0)
  obtain ⟨pc, hpc, hok, hin, hok2⟩ := mem_gated.1 hpr
  obtain ⟨project, hproj, hen, hcfg⟩ := mem_collect hpc
  obtain ⟨h1, h2, h3, h4⟩ := mkRule_ok hmk
  refine ⟨project, hproj, hen, pc, hcfg, hok, pr, hin, hok2, h1, h2, h3, ?_⟩
  intro t ht x hx
  show x ∈ mergedTests env r0 rest
  unfold mergedTests
  rw [mem_mergedFrom]
  left
  rw [h4, mem_setOfList, ht]
  exact hx

end PF

/-
C16R, part 3: `.properties` files printed from safe records (`P.printProps`, the class of C02): what the parser
yields for them at the entry level of the serializer model, and the dicts `merge.py` builds from these entries.
-/
import CLModel.Proofs.C16RSer
import CLModel.Proofs.C16Wrap
import CLModel.Proofs.C02Roundtrip
import CLModel.Proofs.C04Reparse
namespace C16R
open AR Ser C16L
open P (PRec printRec printProps SafeRec)

/-- the entry-level view of the entity parsed from `key=value` -/
def entE (r : PRec) : Ent :=
  { kind := .entity, key := r.1, val := r.2, all := r.1 ++ 61 :: r.2, pre := r.1 ++ [61], post := [] }

/-- the entry-level view of the one-newline white-space entry -/
def entW : Ent := { kind := .whitespace, key := [], val := [10], all := [10] }

/-- entries of a printed file: per record the entity and the white-space entry of its newline -/
def entsOf (rs : List PRec) : List Ent := rs.flatMap (fun r => [entE r, entW])

theorem entsOf_cons (r : PRec) (rs : List PRec) : entsOf (r :: rs) = entE r :: entW :: entsOf rs := by
  simp [entsOf]

/-! ### the walk, at the entry level -/

theorem take_drop_mid (l A B C : List Nat) (a n : Nat) (hl : l = A ++ B ++ C) (ha : a = A.length) (hn : n = B.length) :
    (l.drop a).take n = B := by
  subst hl ha hn
  rw [List.append_assoc, List.drop_left, List.take_left]

theorem slice_of_drop (s : Array Nat) (off a b : Nat) (l : List Nat) (h : s.toList.drop off = l) (hoff : off ≤ s.size)
    (hb : b ≤ l.length) :
    P.slice s (off + a) (off + b) = (l.drop a).take (b - a) := by
  have hsz : off + b ≤ s.size := by
    have := congrArg List.length h
    simp at this
    omega
  rw [P.slice_eq s _ _ hsz, ← h, List.drop_drop]
  congr 1
  omega

/-- the slices of a record printed at `off` -/
theorem rec_slices (s : Array Nat) (off : Nat) (r : PRec) (rest : List Nat)
    (h : s.toList.drop off = printRec r ++ rest) :
    off + r.1.length + 1 + r.2.length + 1 ≤ s.size ∧
    P.slice s off (off + r.1.length) = r.1 ∧
    P.slice s (off + r.1.length + 1) (off + r.1.length + 1 + r.2.length) = r.2 ∧
    P.slice s off (off + r.1.length + 1 + r.2.length) = r.1 ++ 61 :: r.2 ∧
    P.slice s off (off + r.1.length + 1) = r.1 ++ [61] := by
  have hlen : (printRec r ++ rest).length = s.size - off := by rw [← h]; simp
  have hlen' := hlen
  rw [List.length_append, P.printRec_length] at hlen'
  have hsl := fun a b hb => slice_of_drop s off a b _ h (by omega) hb
  have hpr : printRec r ++ rest = r.1 ++ 61 :: (r.2 ++ 10 :: rest) := by simp [printRec]
  have ekey : P.slice s off (off + r.1.length) = r.1 := by
    have := hsl 0 r.1.length (by rw [List.length_append, P.printRec_length]; omega)
    rw [Nat.add_zero] at this
    rw [this]
    exact take_drop_mid _ [] r.1 (61 :: (r.2 ++ 10 :: rest)) _ _ (by simp [hpr]) rfl (by simp)
  have eval : P.slice s (off + r.1.length + 1) (off + r.1.length + 1 + r.2.length) = r.2 := by
    have := hsl (r.1.length + 1) (r.1.length + 1 + r.2.length) (by rw [List.length_append, P.printRec_length]; omega)
    rw [show off + (r.1.length + 1) = off + r.1.length + 1 by omega,
      show off + (r.1.length + 1 + r.2.length) = off + r.1.length + 1 + r.2.length by omega] at this
    rw [this]
    exact take_drop_mid _ (r.1 ++ [61]) r.2 (10 :: rest) _ _ (by simp [hpr]) (by simp) (by omega)
  have eall : P.slice s off (off + r.1.length + 1 + r.2.length) = r.1 ++ 61 :: r.2 := by
    have := hsl 0 (r.1.length + 1 + r.2.length) (by rw [List.length_append, P.printRec_length]; omega)
    rw [Nat.add_zero, show off + (r.1.length + 1 + r.2.length) = off + r.1.length + 1 + r.2.length by omega] at this
    rw [this]
    exact take_drop_mid _ [] (r.1 ++ 61 :: r.2) (10 :: rest) _ _ (by simp [hpr]) rfl (by simp; omega)
  have epre : P.slice s off (off + r.1.length + 1) = r.1 ++ [61] := by
    have := hsl 0 (r.1.length + 1) (by rw [List.length_append, P.printRec_length]; omega)
    rw [Nat.add_zero, show off + (r.1.length + 1) = off + r.1.length + 1 by omega] at this
    rw [this]
    exact take_drop_mid _ [] (r.1 ++ [61]) (r.2 ++ 10 :: rest) _ _ (by simp [hpr]) rfl (by simp)
  exact ⟨by omega, ekey, eval, eall, epre⟩

theorem ofEntry_entity (f : P.Fmt) (s : Array Nat) (off : Nat) (r : PRec) (rest : List Nat)
    (h : s.toList.drop off = printRec r ++ rest) :
    ofEntry f s (P.propsEntity_c02 off r.1.length r.2.length) = entE r := by
  obtain ⟨hsz, ekey, eval, eall, epre⟩ := rec_slices s off r rest h
  have epost : P.slice s (off + r.1.length + 1 + r.2.length) (off + r.1.length + 1 + r.2.length) = [] := by
    rw [P.slice_eq s _ _ (by omega)]
    simp
  unfold ofEntry P.propsEntity_c02 entE
  simp only [P.Entry.all]
  rw [C16L.pySlice_nat s off (off + r.1.length) (by omega) (by omega),
    C16L.pySlice_nat s (off + r.1.length + 1) (off + r.1.length + 1 + r.2.length) (by omega) (by omega),
    C16L.pySlice_nat s off (off + r.1.length + 1) (by omega) (by omega),
    C16L.pySlice_nat s (off + r.1.length + 1 + r.2.length) (off + r.1.length + 1 + r.2.length) (by omega) (by omega),
    ekey, eval, eall, epre, epost]

/-- the slice of the newline after a record -/
theorem nl_slice (s : Array Nat) (nl : Nat) (h : s[nl]? = some 10) : P.slice s nl (nl + 1) = [10] := by
  have hlt := Rx.getElem?_some_lt h
  rw [P.slice_eq s _ _ (by omega)]
  have hd : s.toList.drop nl = 10 :: s.toList.drop (nl + 1) := by
    rw [List.drop_eq_getElem_cons (by simpa using hlt)]
    congr 1
    have := h
    rw [Array.getElem?_eq_getElem hlt] at this
    simpa using this
  rw [hd]
  simp

theorem ofEntry_ws (f : P.Fmt) (s : Array Nat) (nl : Nat) (h : s[nl]? = some 10) :
    ofEntry f s (P.wsEntry nl) = entW := by
  have := nl_slice s nl h
  unfold ofEntry P.wsEntry entW
  simp only [P.Entry.all, this]

/-- what follows a printed record: its newline at the expected offset, then the other records -/
theorem after_rec (s : Array Nat) (off : Nat) (r : PRec) (rs : List PRec)
    (h : s.toList.drop off = printRec r ++ printProps rs) :
    s.toList.drop (off + r.1.length + 1 + r.2.length + 1) = printProps rs ∧
    s[off + r.1.length + 1 + r.2.length]? = some 10 := by
  constructor
  · have := congrArg (List.drop (printRec r).length) h
    rw [List.drop_drop, List.drop_left, P.printRec_length] at this
    rw [← this]; congr 1; omega
  · have := P.get_of_drop s off (r.1.length + 1 + r.2.length) _ h
    rw [show off + (r.1.length + 1 + r.2.length) = off + r.1.length + 1 + r.2.length by omega] at this
    rw [this, show printRec r ++ printProps rs = (r.1 ++ 61 :: r.2) ++ 10 :: printProps rs by simp [printRec],
      List.getElem?_append_right (by rw [List.length_append, List.length_cons]; omega)]
    rw [List.length_append, List.length_cons,
      show r.1.length + 1 + r.2.length - (r.1.length + (r.2.length + 1)) = 0 by omega]
    rfl

theorem map_ofEntry_expEntries (f : P.Fmt) (s : Array Nat) :
    ∀ (rs : List PRec) (off : Nat), s.toList.drop off = printProps rs →
      (P.expEntries off rs).map (ofEntry f s) = entsOf rs := by
  intro rs
  induction rs with
  | nil => intro off _; rfl
  | cons r rs ih =>
    intro off h
    have hpp : printProps (r :: rs) = printRec r ++ printProps rs := by simp [printProps]
    rw [hpp] at h
    obtain ⟨hdrop, hnl⟩ := after_rec s off r rs h
    simp only [P.expEntries, List.map_cons, entsOf_cons]
    rw [ofEntry_entity f s off r _ h, ofEntry_ws f s _ hnl, ih _ hdrop]

/-- what the serializer model sees of a printed file -/
theorem walkEnts_printed (rs : List PRec) (h : ∀ r ∈ rs, SafeRec r) :
    walkEnts .properties (printProps rs).toArray = some (entsOf rs) := by
  unfold walkEnts
  rw [P.walk_props_printed rs h]
  simp only
  rw [map_ofEntry_expEntries _ _ rs 0 (by simp)]

/-! ### membership -/

theorem mem_entsOf {rs : List PRec} {e : Ent} (h : e ∈ entsOf rs) : e = entW ∨ ∃ r ∈ rs, e = entE r := by
  unfold entsOf at h
  rw [List.mem_flatMap] at h
  obtain ⟨r, hr, he⟩ := h
  simp only [List.mem_cons, List.not_mem_nil, or_false] at he
  rcases he with rfl | rfl
  · exact .inr ⟨r, hr, rfl⟩
  · exact .inl rfl

theorem eq_of_key {rs : List PRec} (hn : (rs.map (·.1)).Nodup) {a b : PRec} (ha : a ∈ rs) (hb : b ∈ rs)
    (h : a.1 = b.1) : a = b := by
  induction rs with
  | nil => simp at ha
  | cons r rs ih =>
    rw [List.map_cons, List.nodup_cons] at hn
    rcases List.mem_cons.1 ha with rfl | ha' <;> rcases List.mem_cons.1 hb with rfl | hb'
    · rfl
    · exact absurd (List.mem_map.2 ⟨b, hb', h.symm⟩) hn.1
    · exact absurd (List.mem_map.2 ⟨a, ha', h⟩) hn.1
    · exact ih hn.2 ha' hb'

/-! ### the dicts `parse_resource` builds -/

/-- entries `X r`, each followed by the one-newline white-space entry -/
def mkList (X : PRec → Ent) (rs : List PRec) : List Ent := rs.flatMap (fun r => [X r, entW])

theorem mkList_cons (X : PRec → Ent) (r : PRec) (rs : List PRec) : mkList X (r :: rs) = X r :: entW :: mkList X rs := by
  simp [mkList]

/-- the pairs `get_key_value` yields for such a list -/
def pk (src : Nat) (X : PRec → Ent) : Nat → List PRec → List (MKey × Ent)
  | _, [] => []
  | i, r :: rs => (MKey.str r.1, X r) :: (MKey.ws src (i + 1), entW) :: pk src X (i + 2) rs

theorem pairsOf_mkList (src : Nat) (X : PRec → Ent)
    (hX : ∀ r, (X r).isComment = false ∧ (X r).isWs = false ∧ (X r).key = r.1) :
    ∀ (rs : List PRec) (cnt : List (List Nat × Nat)) (i : Nat), pairsOf src cnt i (mkList X rs) = pk src X i rs := by
  intro rs
  induction rs with
  | nil => intro _ _; rfl
  | cons r rs ih =>
    intro cnt i
    obtain ⟨h1, h2, h3⟩ := hX r
    rw [mkList_cons, pairsOf]
    simp only [h1, h2, Bool.false_eq_true, if_false]
    rw [pairsOf]
    have : entW.isComment = false := rfl
    have hw : entW.isWs = true := rfl
    simp only [this, hw, Bool.false_eq_true, if_false, if_true]
    rw [ih, h3, pk]

theorem mem_pk (src : Nat) (X : PRec → Ent) : ∀ (rs : List PRec) (i : Nat), ∀ p ∈ pk src X i rs,
    (∃ r ∈ rs, p.1 = MKey.str r.1) ∨ (∃ j, i < j ∧ p.1 = MKey.ws src j) := by
  intro rs
  induction rs with
  | nil => intro _ p hp; simp [pk] at hp
  | cons r rs ih =>
    intro i p hp
    simp only [pk, List.mem_cons] at hp
    rcases hp with rfl | rfl | hp
    · exact .inl ⟨r, by simp, rfl⟩
    · exact .inr ⟨i + 1, by omega, rfl⟩
    · rcases ih (i + 2) p hp with ⟨r', hr', h⟩ | ⟨j, hj, h⟩
      · exact .inl ⟨r', by simp [hr'], h⟩
      · exact .inr ⟨j, by omega, h⟩

theorem pk_keys_nodup (src : Nat) (X : PRec → Ent) :
    ∀ (rs : List PRec) (i : Nat), (rs.map (·.1)).Nodup → ((pk src X i rs).map (·.1)).Nodup := by
  intro rs
  induction rs with
  | nil => intro _ _; simp [pk]
  | cons r rs ih =>
    intro i hn
    rw [List.map_cons, List.nodup_cons] at hn
    simp only [pk, List.map_cons, List.nodup_cons, List.mem_cons, List.mem_map, not_or]
    refine ⟨⟨by simp, ?_⟩, ?_, ih (i + 2) hn.2⟩
    · rintro ⟨p, hp, hk⟩
      rcases mem_pk src X rs (i + 2) p hp with ⟨r', hr', h⟩ | ⟨j, _, h⟩
      · rw [h] at hk
        simp only [MKey.str.injEq] at hk
        exact hn.1 (List.mem_map.2 ⟨r', hr', hk⟩)
      · rw [h] at hk; simp at hk
    · rintro ⟨p, hp, hk⟩
      rcases mem_pk src X rs (i + 2) p hp with ⟨r', _, h⟩ | ⟨j, hj, h⟩
      · rw [h] at hk; simp at hk
      · rw [h] at hk
        simp only [MKey.ws.injEq] at hk
        omega

theorem parseResource_mkList (src : Nat) (X : PRec → Ent)
    (hX : ∀ r, (X r).isComment = false ∧ (X r).isWs = false ∧ (X r).key = r.1)
    (rs : List PRec) (hn : (rs.map (·.1)).Nodup) : parseResource src (mkList X rs) = pk src X 0 rs := by
  unfold parseResource mkDict
  rw [pairsOf_mkList src X hX]
  exact mkDict_of_nodup _ (pk_keys_nodup src X rs 0 hn)

theorem alt_pk (src : Nat) (X : PRec → Ent) : ∀ (rs : List PRec) (i : Nat), Alt wsKey (dkeys (pk src X i rs)) := by
  intro rs
  induction rs with
  | nil => intro _; trivial
  | cons r rs ih =>
    intro i
    exact ⟨.inr rfl, .inl rfl, ih (i + 2)⟩

theorem alt_parseResource_mkList (src : Nat) (X : PRec → Ent)
    (hX : ∀ r, (X r).isComment = false ∧ (X r).isWs = false ∧ (X r).key = r.1)
    (rs : List PRec) (hn : (rs.map (·.1)).Nodup) : Alt wsKey (dkeys (parseResource src (mkList X rs))) := by
  rw [parseResource_mkList src X hX rs hn]
  exact alt_pk src X rs 0

/-- filtering out junk and mapping the entries of a printed file with a function that leaves the white-space entry alone -/
theorem map_entsOf (g : Ent → Ent) (hg : g entW = entW) (rs : List PRec) :
    ((entsOf rs).filter (fun e => !e.isJunk)).map g = mkList (fun r => g (entE r)) rs := by
  induction rs with
  | nil => rfl
  | cons r rs ih =>
    rw [entsOf_cons, mkList_cons]
    have h1 : (fun e : Ent => !e.isJunk) (entE r) = true := rfl
    have h2 : (fun e : Ent => !e.isJunk) entW = true := rfl
    simp only [List.filter_cons, h1, h2, if_true, List.map_cons, hg]
    rw [ih]

theorem alt_d0 (rs : List PRec) (hn : (rs.map (·.1)).Nodup) : Alt wsKey (dkeys (d0Of (entsOf rs))) := by
  unfold d0Of plOf
  rw [map_entsOf placeholder rfl]
  apply alt_parseResource_mkList _ _ _ rs hn
  intro r
  exact ⟨rfl, rfl, rfl⟩

theorem sanOf_entE (ref : List Ent) (nd : NewData) (r : PRec) :
    sanOf ref nd (entE r) = entE r ∨ sanOf ref nd (entE r) = mkPlaceholder r.1 := by
  unfold sanOf
  split
  · exact .inr rfl
  · exact .inl rfl

theorem alt_d1 (ref : List Ent) (rs : List PRec) (nd : NewData) (hn : (rs.map (·.1)).Nodup) :
    Alt wsKey (dkeys (d1Of ref (entsOf rs) nd)) := by
  unfold d1Of
  rw [osOf_eq, map_entsOf (sanOf ref nd) (by unfold sanOf shouldPlaceholder; rfl)]
  apply alt_parseResource_mkList _ _ _ rs hn
  intro r
  rcases sanOf_entE ref nd r with h | h <;> rw [h] <;> exact ⟨rfl, rfl, rfl⟩

/-- the serialized entry list of two printed files: every entry that is not whitespace is followed by a whitespace entry -/
theorem alt_out (refRecs oldRecs : List PRec) (nd : NewData)
    (hrk : (refRecs.map (·.1)).Nodup) (hok : (oldRecs.map (·.1)).Nodup) :
    Alt Ent.isWs (serializeEnts (entsOf refRecs) (entsOf oldRecs) nd) :=
  serializeEnts_alt _ _ _ (alt_d0 refRecs hrk) (alt_d1 _ oldRecs nd hok)

end C16R

/- Laws of `mozpath.match` derived from the general theorem: literal patterns, a single star, a directory wildcard. -/
import CLModel.Proofs.C12MozSem
import CLModel.Proofs.C11Witness
namespace C12M
open Rx PM C11R

/-- no token starts at a character that is neither `*` nor a `/` followed by `**` -/
theorem local_none (b : Bool) (c : Nat) (r : Text) (h1 : c ≠ 42) (h2 : c ≠ 47 ∨ [42, 42].isPrefixOf r = false) :
    mozLocal b (c :: r) = none := by
  have h1' : ¬ 42 = c := fun e => h1 e.symm
  unfold mozLocal
  rcases h2 with h2 | h2
  · have h2' : ¬ 47 = c := fun e => h2 e.symm
    simp [List.isPrefixOf, h1', h2']
  · match r, h2 with
    | [], _ => simp [List.isPrefixOf, h1']
    | [d], h2 => simp [List.isPrefixOf, h1']
    | d :: e :: r', h2 =>
      simp [List.isPrefixOf] at h2
      simp only [List.isPrefixOf, h1', Bool.and_eq_true, beq_iff_eq, decide_eq_true_eq, false_and, and_false,
        Bool.false_eq_true, if_false, Bool.and_false, Bool.false_and]
      have hde : ¬ (42 = d ∧ 42 = e) := fun ⟨a, b⟩ => h2 a b
      by_cases hd : 42 = d
      · have he : ¬ 42 = e := h2 hd
        simp [he]
      · simp [hd]

/-- lexing runs through a star-free text `A` character by character, provided the text does not end with a "/"
    that is followed by `**` -/
theorem lex_chars : ∀ (A R : Text) (f : Nat) (b : Bool), (A ++ R).length ≤ f → 42 ∉ A →
    (A.getLast? ≠ some 47 ∨ [42, 42].isPrefixOf R = false) →
    mozLexF f b (A ++ R) = A.map MTok.chr ++ mozLexF (f - A.length) (b && A.isEmpty) R
  | [], R, f, b, _, _, _ => by simp
  | c :: A, R, 0, b, hf, _, _ => by simp at hf
  | c :: A, R, f + 1, b, hf, hA, hend => by
    have hc : c ≠ 42 := fun e => hA (by simp [e])
    have hnone : mozLocal b (c :: (A ++ R)) = none := by
      apply local_none b c _ hc
      by_cases h47 : c = 47
      · right
        cases A with
        | nil =>
          simp only [List.nil_append]
          rcases hend with h | h
          · simp [h47] at h
          · exact h
        | cons d A' =>
          have : ¬ 42 = d := fun e => hA (by simp [e])
          simp [List.isPrefixOf, this]
      · left; exact h47
    simp only [List.cons_append, mozLexF, hnone, List.map_cons]
    have ih := lex_chars A R f false (by simpa using hf) (fun e => hA (by simp [e])) (by
      rcases hend with h | h
      · cases A with
        | nil => left; simp
        | cons d A' => left; simpa [List.getLast?_cons_cons] using h
      · right; exact h)
    rw [ih]
    simp

theorem mozLexF_nil (f : Nat) (b : Bool) : mozLexF f b [] = [] := by cases f <;> rfl

/-- a pattern without `*` is lexed into its characters -/
theorem mozLex_plain {t : Text} (h : 42 ∉ t) : mozLex t = t.map MTok.chr := by
  have := lex_chars t [] t.length true (by simp) h (Or.inr (by simp [List.isPrefixOf]))
  simp only [List.append_nil] at this
  unfold mozLex
  rw [this, mozLexF_nil]; simp

theorem tokM_chars : ∀ (t pre : Text) (ts : List MTok) , TokM (t.map MTok.chr ++ ts) pre ↔ ∃ v, pre = t ++ v ∧ TokM ts v
  | [], pre, ts => by simp
  | c :: t, pre, ts => by
    simp only [List.map_cons, List.cons_append]
    constructor
    · intro h
      cases h with
      | chr h' =>
        obtain ⟨v, rfl, hv⟩ := (tokM_chars t _ ts).mp h'
        exact ⟨v, rfl, hv⟩
    · rintro ⟨v, rfl, hv⟩
      exact TokM.chr ((tokM_chars t _ ts).mpr ⟨v, rfl, hv⟩)

theorem tokM_nil (pre : Text) : TokM [] pre ↔ pre = [] := by
  constructor
  · intro h; cases h; rfl
  · rintro rfl; exact TokM.nil

/-- **a pattern without wildcards matches exactly itself and everything below it** (`foo` matches `foo/bar`) -/
theorem moz_literal (path lit : Text) (hnl : 10 ∉ path) (hstar : 42 ∉ lit) (hne : lit ≠ []) :
    mozMatch path lit = .ok (decide (path = lit ∨ (lit ++ [47]) <+: path)) := by
  obtain ⟨b, hb, hiff⟩ := mozMatch_iff path lit hnl
  rw [hb]
  congr 1
  rw [mozLex_plain hstar] at hiff
  have : (b = true) ↔ (path = lit ∨ (lit ++ [47]) <+: path) := by
    rw [hiff]
    simp only [hne, false_or]
    constructor
    · rintro ⟨pre, hm, hp⟩
      have := (tokM_chars lit pre []).mp (by simpa using hm)
      obtain ⟨v, rfl, hv⟩ := this
      rw [tokM_nil] at hv; subst hv
      simp only [List.append_nil] at hp
      rcases hp with rfl | ⟨rest, rfl⟩
      · left; rfl
      · right; exact ⟨rest, by simp⟩
    · intro h
      refine ⟨lit, by simpa using (tokM_chars lit lit []).mpr ⟨[], by simp, TokM.nil⟩, ?_⟩
      rcases h with rfl | ⟨rest, hr⟩
      · left; rfl
      · right; exact ⟨rest, by rw [← hr]; simp⟩
  cases b with
  | true => simpa using this.mp rfl
  | false =>
    have : ¬ (path = lit ∨ (lit ++ [47]) <+: path) := fun h => by simpa using this.mpr h
    simpa using this

/-- `A*B` (no further `*`) is lexed into the characters of `A`, a star, the characters of `B` -/
theorem mozLex_star {A B : Text} (hA : 42 ∉ A) (hB : 42 ∉ B) :
    mozLex (A ++ 42 :: B) = A.map MTok.chr ++ MTok.star :: B.map MTok.chr := by
  unfold mozLex
  have hB0 : [42, 42].isPrefixOf (42 :: B) = false := by
    cases B with
    | nil => simp [List.isPrefixOf]
    | cons d B' =>
      have : ¬ 42 = d := fun e => hB (by simp [e])
      simp [List.isPrefixOf, this]
  rw [lex_chars A (42 :: B) _ true (Nat.le_refl _) hA (Or.inr hB0)]
  congr 1
  have hlen : (A ++ 42 :: B).length - A.length = B.length + 1 := by simp
  rw [hlen]
  have hloc : ∀ b, mozLocal b (42 :: B) = some Kind.star := by
    intro b
    cases B with
    | nil => cases b <;> simp [mozLocal, List.isPrefixOf, endHere]
    | cons d B' =>
      have : ¬ 42 = d := fun e => hB (by simp [e])
      cases b <;> simp [mozLocal, List.isPrefixOf, endHere, this]
  simp only [mozLexF, hloc, Kind.toks, Kind.len, List.drop_succ_cons, List.drop_zero, List.singleton_append]
  congr 1
  have := lex_chars B [] B.length false (by simp) hB (Or.inr (by simp [List.isPrefixOf]))
  simp only [List.append_nil] at this
  rw [this, mozLexF_nil]; simp

/-- `A/**/B` (no further `*`) is lexed into the characters of `A`, "/", a directory wildcard, the characters of `B` -/
theorem mozLex_dirs {A B : Text} (hA : 42 ∉ A) (hB : 42 ∉ B) :
    mozLex (A ++ 47 :: 42 :: 42 :: 47 :: B) = A.map MTok.chr ++ MTok.chr 47 :: MTok.dirs :: B.map MTok.chr := by
  unfold mozLex
  rw [lex_chars A (47 :: 42 :: 42 :: 47 :: B) _ true (Nat.le_refl _) hA (Or.inr (by simp [List.isPrefixOf]))]
  congr 1
  have hlen : (A ++ 47 :: 42 :: 42 :: 47 :: B).length - A.length = B.length + 3 + 1 := by simp
  rw [hlen]
  have hloc : ∀ b, mozLocal b (47 :: 42 :: 42 :: 47 :: B) = some Kind.slashDirs := by
    intro b; simp [mozLocal, List.isPrefixOf]
  simp only [mozLexF, hloc, Kind.toks, Kind.len, List.drop_succ_cons, List.drop_zero, List.cons_append, List.nil_append]
  congr 2
  have := lex_chars B [] (B.length + 3) false (by simp) hB (Or.inr (by simp [List.isPrefixOf]))
  simp only [List.append_nil] at this
  rw [this, mozLexF_nil]; simp

theorem tokM_star (ts : List MTok) (pre : Text) : TokM (MTok.star :: ts) pre ↔ ∃ w v, 47 ∉ w ∧ pre = w ++ v ∧ TokM ts v := by
  constructor
  · intro h
    cases h with
    | star w hw h' => exact ⟨w, _, hw, rfl, h'⟩
  · rintro ⟨w, v, hw, rfl, hv⟩
    exact TokM.star w hw hv

theorem tokM_dirs (ts : List MTok) (pre : Text) : TokM (MTok.dirs :: ts) pre ↔
    TokM ts pre ∨ ∃ w v, w ≠ [] ∧ 10 ∉ w ∧ pre = w ++ 47 :: v ∧ TokM ts v := by
  constructor
  · intro h
    cases h with
    | dirs0 h' => exact Or.inl h'
    | dirsN w h1 h2 h' => exact Or.inr ⟨w, _, h1, h2, rfl, h'⟩
  · rintro (h | ⟨w, v, h1, h2, rfl, hv⟩)
    · exact TokM.dirs0 h
    · exact TokM.dirsN w h1 h2 hv

theorem tokM_chars_end (t pre : Text) : TokM (t.map MTok.chr) pre ↔ pre = t := by
  have := tokM_chars t pre []
  simp only [List.append_nil] at this
  rw [this]
  constructor
  · rintro ⟨v, rfl, hv⟩
    rw [tokM_nil] at hv; subst hv; simp
  · rintro rfl; exact ⟨[], by simp, TokM.nil⟩

/-- **a single `*` stays inside one path component**: `A*B` matches exactly the paths `A w B` with a `w` without "/"
    (and everything below such a path) -/
theorem moz_star (path A B : Text) (hnl : 10 ∉ path) (hA : 42 ∉ A) (hB : 42 ∉ B) :
    mozMatch path (A ++ 42 :: B) = .ok true ↔
      ∃ w, 47 ∉ w ∧ (path = A ++ w ++ B ∨ ∃ rest, path = A ++ w ++ B ++ 47 :: rest) := by
  obtain ⟨b, hb, hiff⟩ := mozMatch_iff path (A ++ 42 :: B) hnl
  rw [hb, mozLex_star hA hB] at *
  simp only [Except.ok.injEq]
  rw [hiff]
  have hne : A ++ 42 :: B ≠ [] := by simp
  simp only [hne, false_or]
  constructor
  · rintro ⟨pre, hm, hp⟩
    obtain ⟨v, rfl, hv⟩ := (tokM_chars A pre _).mp hm
    obtain ⟨w, v', hw, rfl, hv'⟩ := (tokM_star _ _).mp hv
    rw [tokM_chars_end] at hv'; subst hv'
    refine ⟨w, hw, ?_⟩
    simpa [List.append_assoc] using hp
  · rintro ⟨w, hw, hp⟩
    refine ⟨A ++ (w ++ B), (tokM_chars A _ _).mpr ⟨w ++ B, rfl, (tokM_star _ _).mpr ⟨w, B, hw, rfl, (tokM_chars_end B B).mpr rfl⟩⟩, ?_⟩
    simpa [List.append_assoc] using hp

/-- **`**` stands for any number of directories, including none**: `A/**/B` matches exactly `A/B` and `A/w/B` for every
    non-empty `w` (which may contain further "/": several directories), and everything below such a path -/
theorem moz_dirs (path A B : Text) (hnl : 10 ∉ path) (hA : 42 ∉ A) (hB : 42 ∉ B) :
    mozMatch path (A ++ 47 :: 42 :: 42 :: 47 :: B) = .ok true ↔
      ∃ d, (d = [] ∨ ∃ w, w ≠ [] ∧ d = w ++ [47]) ∧
        (path = A ++ 47 :: d ++ B ∨ ∃ rest, path = A ++ 47 :: d ++ B ++ 47 :: rest) := by
  obtain ⟨b, hb, hiff⟩ := mozMatch_iff path (A ++ 47 :: 42 :: 42 :: 47 :: B) hnl
  rw [hb, mozLex_dirs hA hB] at *
  simp only [Except.ok.injEq]
  rw [hiff]
  have hne : A ++ 47 :: 42 :: 42 :: 47 :: B ≠ [] := by simp
  simp only [hne, false_or]
  constructor
  · rintro ⟨pre, hm, hp⟩
    obtain ⟨v, rfl, hv⟩ := (tokM_chars A pre _).mp hm
    cases hv with
    | chr hv' =>
      rename_i v1
      rcases (tokM_dirs _ _).mp hv' with h0 | ⟨w, v2, hw, _, rfl, h2⟩
      · rw [tokM_chars_end] at h0; subst h0
        exact ⟨[], Or.inl rfl, by simpa using hp⟩
      · rw [tokM_chars_end] at h2; subst h2
        exact ⟨w ++ [47], Or.inr ⟨w, hw, rfl⟩, by simpa [List.append_assoc] using hp⟩
  · rintro ⟨d, hd, hp⟩
    rcases hd with rfl | ⟨w, hw, rfl⟩
    · refine ⟨A ++ 47 :: B, (tokM_chars A _ _).mpr ⟨47 :: B, rfl, TokM.chr (TokM.dirs0 ((tokM_chars_end B B).mpr rfl))⟩, ?_⟩
      simpa using hp
    · have hwnl : 10 ∉ w := by
        intro hm
        apply hnl
        rcases hp with rfl | ⟨rest, rfl⟩ <;> simp [hm]
      refine ⟨A ++ 47 :: (w ++ 47 :: B), (tokM_chars A _ _).mpr ⟨_, rfl, TokM.chr (TokM.dirsN w hw hwnl
        ((tokM_chars_end B B).mpr rfl))⟩, ?_⟩
      simpa [List.append_assoc] using hp

/-- `mozpath.match(path, pattern)` on string literals (proof files only): `none` = it raised -/
def mozOutcome (path pat : String) : Option Bool :=
  match mozMatch (T path) (T pat) with
  | .ok b => some b
  | .error _ => none
end C12M

/- C06 (rendered values), part 4: the claims of the property stated directly on token lists
   (for ALL well-formed, separated token lists): closed form of `getPrintfSpecs`, error
   classification, reordering of ordered arguments, `%%` / text invariance, the two good cases. -/
import CLModel.Proofs.C06RLex
import CLModel.Proofs.C06SpecsCor
namespace C06R
open Rx PropCk

/-! ### the expected token list, seen from the render tokens -/

/-- the abstract token of a render token (`none` for text) -/
def tokA : RTok → Option ATok
  | .text _ => none
  | .pct => some .pct
  | .lone => some .lone
  | .arg num _ c => some (.arg num [c])

/-- the arguments `(number, type)` of a render token list, in order -/
def rargs : List RTok → List (Option Nat × PropCk.Text)
  | [] => []
  | .arg num _ c :: ts => (num, [c]) :: rargs ts
  | .text _ :: ts => rargs ts
  | .pct :: ts => rargs ts
  | .lone :: ts => rargs ts

theorem exp_map (ts : List RTok) : ∀ p, (expectedFrom p ts).map (·.2) = ts.filterMap tokA := by
  induction ts with
  | nil => intro p; rfl
  | cons tok ts ih =>
    intro p
    cases tok <;> simp [expectedFrom, tokA, ih, List.filterMap_cons]

theorem argsOf_exp (ts : List RTok) : ∀ p, argsOf (expectedFrom p ts) = rargs ts := by
  induction ts with
  | nil => intro p; rfl
  | cons tok ts ih =>
    intro p
    cases tok <;> simp [expectedFrom, argsOf, rargs, ih]

theorem mem_rargs {ts : List RTok} {a : Option Nat × PropCk.Text} :
    a ∈ rargs ts ↔ ∃ fmt c, RTok.arg a.1 fmt c ∈ ts ∧ a.2 = [c] := by
  induction ts with
  | nil => simp [rargs]
  | cons tok ts ih =>
    cases tok with
    | arg num fmt c =>
      simp only [rargs, List.mem_cons, ih]
      constructor
      · rintro (h | ⟨fmt', c', h1, h2⟩)
        · subst h; exact ⟨fmt, c, Or.inl rfl, rfl⟩
        · exact ⟨fmt', c', Or.inr h1, h2⟩
      · rintro ⟨fmt', c', h1 | h1, h2⟩
        · left
          simp only [RTok.arg.injEq] at h1
          obtain ⟨h1a, _, h1c⟩ := h1
          exact Prod.ext h1a (by rw [h2, h1c])
        · exact Or.inr ⟨fmt', c', h1, h2⟩
    | text t => simp [rargs, ih]
    | pct => simp [rargs, ih]
    | lone => simp [rargs, ih]

theorem mem_exp {ts : List RTok} {p : Nat} {x : Nat × ATok} (h : x ∈ expectedFrom p ts) :
    ∃ tok ∈ ts, tokA tok = some x.2 := by
  have : x.2 ∈ (expectedFrom p ts).map (·.2) := List.mem_map_of_mem h
  rw [exp_map] at this
  exact List.mem_filterMap.mp this

theorem hasLone_exp (ts : List RTok) (p : Nat) : HasLone (expectedFrom p ts) ↔ RTok.lone ∈ ts := by
  unfold HasLone
  constructor
  · rintro ⟨q, hq⟩
    obtain ⟨tok, htok, ha⟩ := mem_exp hq
    cases tok <;> simp [tokA] at ha
    exact htok
  · intro h
    have : ATok.lone ∈ (expectedFrom p ts).map (·.2) := by
      rw [exp_map]; exact List.mem_filterMap.mpr ⟨.lone, h, rfl⟩
    obtain ⟨x, hx, hx2⟩ := List.mem_map.mp this
    exact ⟨x.1, by rw [← hx2]; exact hx⟩

/-! ### closed form -/

theorem wf_exp (ts : List RTok) (h : WfRender ts) : WFToks (expectedFrom 0 ts) :=
  atoks_wf _ _ (atoks_render ts h)

/-- `getPrintfSpecs` of an assembled value is the closed form on the intended tokens -/
theorem specs_of_rendered (ts : List RTok) (h : WfRender ts) :
    getPrintfSpecs (render ts) = specsSpec (expectedFrom 0 ts) :=
  getPrintfSpecs_eq_spec _ _ (atoks_render ts h)

/-! ### error classification on the render tokens -/

/-- ordered and unordered arguments both occur -/
def MixedR (ts : List RTok) : Prop :=
  (∃ n fmt c, RTok.arg (some n) fmt c ∈ ts) ∧ (∃ fmt c, RTok.arg none fmt c ∈ ts)

/-- all arguments are ordered and some number below the highest one is not used -/
def GapR (ts : List RTok) : Prop :=
  (∀ fmt c, RTok.arg none fmt c ∉ ts) ∧
  ∃ p, p < maxNum (rargs ts) ∧ ∀ fmt c, RTok.arg (some (p + 1)) fmt c ∉ ts

theorem mixed_exp (ts : List RTok) (p : Nat) : Mixed (expectedFrom p ts) ↔ MixedR ts := by
  unfold Mixed MixedR
  rw [argsOf_exp]
  constructor
  · rintro ⟨⟨a, ha, h1⟩, ⟨b, hb, h2⟩⟩
    obtain ⟨fmt, c, hm, _⟩ := mem_rargs.mp ha
    obtain ⟨fmt', c', hm', _⟩ := mem_rargs.mp hb
    obtain ⟨n, hn⟩ := Option.isSome_iff_exists.mp h1
    have hb' : b.1 = none := by cases hb1 : b.1 <;> simp_all
    rw [hn] at hm; rw [hb'] at hm'
    exact ⟨⟨n, fmt, c, hm⟩, ⟨fmt', c', hm'⟩⟩
  · rintro ⟨⟨n, fmt, c, hm⟩, ⟨fmt', c', hm'⟩⟩
    exact ⟨⟨(some n, [c]), mem_rargs.mpr ⟨fmt, c, hm, rfl⟩, rfl⟩,
      ⟨(none, [c']), mem_rargs.mpr ⟨fmt', c', hm', rfl⟩, rfl⟩⟩

theorem gap_exp (ts : List RTok) (p : Nat) : Gap (expectedFrom p ts) ↔ GapR ts := by
  unfold Gap GapR
  rw [argsOf_exp]
  constructor
  · rintro ⟨hall, q, hq, hno⟩
    refine ⟨?_, q, hq, ?_⟩
    · intro fmt c hm
      have := hall (none, [c]) (mem_rargs.mpr ⟨fmt, c, hm, rfl⟩)
      simp at this
    · intro fmt c hm
      exact hno (some (q + 1), [c]) (mem_rargs.mpr ⟨fmt, c, hm, rfl⟩) rfl
  · rintro ⟨hall, q, hq, hno⟩
    refine ⟨?_, q, hq, ?_⟩
    · intro a ha
      obtain ⟨fmt, c, hm, _⟩ := mem_rargs.mp ha
      cases h1 : a.1 with
      | some n => rfl
      | none => rw [h1] at hm; exact absurd hm (hall fmt c)
    · intro a ha h1
      obtain ⟨fmt, c, hm, _⟩ := mem_rargs.mp ha
      rw [h1] at hm
      exact hno fmt c hm

/-- **error classification in terms of the tokens the value was assembled from**: `getPrintfSpecs`
    raises iff there is a lone `%`, or both styles occur, or the ordered numbers have a gap;
    and it never raises anything but `PrintfException` -/
theorem specs_rendered_error_iff (ts : List RTok) (h : WfRender ts) :
    ((∃ e, getPrintfSpecs (render ts) = .error e) ↔ RTok.lone ∈ ts ∨ MixedR ts ∨ GapR ts) ∧
    (∀ e, getPrintfSpecs (render ts) = .error e → ∃ msg pos, e = .printf msg pos) := by
  constructor
  · rw [specs_of_rendered ts h, specsSpec_error_iff _ (wf_exp ts h), hasLone_exp, mixed_exp, gap_exp]
  · intro e he
    cases e with
    | printf msg pos => exact ⟨msg, pos, rfl⟩
    | other =>
      exfalso
      obtain ⟨E, hE, _, hspec⟩ : ∃ E, atoks (render ts) = some E ∧ True ∧ getPrintfSpecs (render ts) = specsSpec E :=
        ⟨_, atoks_render ts h, trivial, specs_of_rendered ts h⟩
      rw [hspec] at he
      unfold specsSpec at he
      split at he
      · rename_i e' hs
        simp only [Except.error.injEq] at he
        subst he
        -- `scanErr` only produces `PrintfException`
        have : ∀ (l : List (Nat × ATok)) (mode : Option Bool), scanErr l mode ≠ some PErr.other := by
          intro l
          induction l with
          | nil => intro mode; simp [scanErr]
          | cons t l ih =>
            intro mode
            obtain ⟨q, tok⟩ := t
            cases tok with
            | lone => simp [scanErr]
            | pct => simpa [scanErr] using ih mode
            | arg num spec =>
              simp only [scanErr]
              split
              · simp
              · exact ih _
        exact this _ _ hs
      · split at he
        · cases he
        · cases he
        · split at he <;> cases he

/-! ### the two good cases -/

theorem scan_none_of {E : List (Nat × ATok)} (h1 : ¬ HasLone E) (h2 : ¬ Mixed E) : scanErr E none = none := by
  cases hs : scanErr E none with
  | none => rfl
  | some e =>
    rcases (scanErr_some_iff E none).mp ⟨e, hs⟩ with h | ⟨a, _, h⟩ | h
    · exact absurd h h1
    · cases h
    · exact absurd h h2

/-- unordered arguments only (any text and `%%` between them): the list of their types -/
theorem specs_rendered_unordered (ts : List RTok) (h : WfRender ts)
    (hun : ∀ tok ∈ ts, (∃ t, tok = .text t) ∨ tok = .pct ∨ ∃ fmt c, tok = .arg none fmt c) :
    getPrintfSpecs (render ts) = .ok ((rargs ts).map (fun a => some a.2)) := by
  have hl : ¬ HasLone (expectedFrom 0 ts) := by
    rw [hasLone_exp]; intro hm
    rcases hun _ hm with ⟨t, ht⟩ | ht | ⟨_, _, ht⟩ <;> cases ht
  have hm : ¬ Mixed (expectedFrom 0 ts) := by
    rw [mixed_exp]; rintro ⟨⟨n, fmt, c, hm⟩, _⟩
    rcases hun _ hm with ⟨t, ht⟩ | ht | ⟨_, _, ht⟩ <;> cases ht
  rw [specs_of_rendered ts h]
  unfold specsSpec
  rw [scan_none_of hl hm, argsOf_exp]
  cases hr : rargs ts with
  | nil => rfl
  | cons a as =>
    obtain ⟨an, asp⟩ := a
    cases an with
    | none => rfl
    | some n =>
      exfalso
      obtain ⟨fmt, c, hmem, _⟩ := mem_rargs.mp (show (some n, asp) ∈ rargs ts by rw [hr]; simp)
      rcases hun _ hmem with ⟨t, ht⟩ | ht | ⟨_, _, ht⟩ <;> cases ht

/-- ordered arguments only, every number up to the highest one used: position `i` holds the type of
    the LAST token numbered `i + 1` -/
theorem specs_rendered_ordered (ts : List RTok) (h : WfRender ts)
    (hord : ∀ tok ∈ ts, (∃ t, tok = .text t) ∨ tok = .pct ∨ ∃ n fmt c, tok = .arg (some n) fmt c)
    (hgap : ¬ GapR ts) :
    getPrintfSpecs (render ts) = .ok (positional (rargs ts)) := by
  have hl : ¬ RTok.lone ∈ ts := by
    intro hm
    rcases hord _ hm with ⟨t, ht⟩ | ht | ⟨_, _, _, ht⟩ <;> cases ht
  have hm : ¬ MixedR ts := by
    rintro ⟨_, ⟨fmt, c, hm⟩⟩
    rcases hord _ hm with ⟨t, ht⟩ | ht | ⟨_, _, _, ht⟩ <;> cases ht
  have hne : ¬ ∃ e, getPrintfSpecs (render ts) = .error e := by
    rw [(specs_rendered_error_iff ts h).1]
    rintro (h1 | h1 | h1)
    · exact hl h1
    · exact hm h1
    · exact hgap h1
  rw [specs_of_rendered ts h] at hne ⊢
  unfold specsSpec at hne ⊢
  rw [scan_none_of (by rw [hasLone_exp]; exact hl) (by rw [mixed_exp]; exact hm), argsOf_exp] at hne ⊢
  cases hr : rargs ts with
  | nil => simp [positional, maxNum]
  | cons a as =>
    obtain ⟨an, asp⟩ := a
    cases an with
    | none =>
      exfalso
      obtain ⟨fmt, c, hmem, _⟩ := mem_rargs.mp (show (none, asp) ∈ rargs ts by rw [hr]; simp)
      rcases hord _ hmem with ⟨t, ht⟩ | ht | ⟨_, _, _, ht⟩ <;> cases ht
    | some n =>
      rw [hr] at hne
      simp only at hne ⊢
      split
      · rfl
      · rename_i hnall
        exact absurd ⟨PErr.printf sOrderedMissing 0, by simp only [hnall, Bool.false_eq_true, if_false]⟩ hne

/-! ### reordering ordered arguments -/

theorem separated_of_no_lone {ts : List RTok} (h : RTok.lone ∉ ts) : Separated ts := by
  induction ts with
  | nil => trivial
  | cons tok ts ih =>
    have ht : RTok.lone ∉ ts := fun hm => h (List.mem_cons_of_mem _ hm)
    cases tok with
    | lone => exact absurd (List.mem_cons_self) h
    | text t => exact ih ht
    | pct => exact ih ht
    | arg num fmt c => exact ih ht

/-- reordering (same multiset of non-text tokens; text may change freely) of ordered arguments whose
    numbers determine their types does not change the result of `getPrintfSpecs` -/
theorem specs_reorder_rendered (ts ts' : List RTok) (h : WfRender ts) (h' : WfRender ts')
    (hperm : (ts.filterMap tokA).Perm (ts'.filterMap tokA))
    (hord : ∀ tok ∈ ts, (∃ t, tok = .text t) ∨ tok = .pct ∨ ∃ n fmt c, tok = .arg (some n) fmt c)
    (hcons : Consistent (rargs ts)) :
    getPrintfSpecs (render ts) = getPrintfSpecs (render ts') := by
  rw [specs_of_rendered ts h, specs_of_rendered ts' h']
  apply specsSpec_reorder _ _ (wf_exp ts h)
  · rw [exp_map, exp_map]; exact hperm
  · intro x hx
    obtain ⟨tok, htok, ha⟩ := mem_exp hx
    rcases hord tok htok with ⟨t, rfl⟩ | rfl | ⟨n, fmt, c, rfl⟩
    · simp [tokA] at ha
    · left; simpa [tokA] using ha.symm
    · right; exact ⟨n, [c], by simpa [tokA] using ha.symm⟩
  · rw [argsOf_exp]; exact hcons

/-- … in particular for a permutation of the whole token list (no side condition on the result:
    without lone `%` every order is separated) -/
theorem specs_reorder_perm (ts ts' : List RTok) (hwf : ∀ t ∈ ts, WfTok t) (hperm : ts.Perm ts')
    (hord : ∀ tok ∈ ts, (∃ t, tok = .text t) ∨ tok = .pct ∨ ∃ n fmt c, tok = .arg (some n) fmt c)
    (hcons : Consistent (rargs ts)) :
    getPrintfSpecs (render ts) = getPrintfSpecs (render ts') := by
  have hl : RTok.lone ∉ ts := by
    intro hm
    rcases hord _ hm with ⟨t, ht⟩ | ht | ⟨_, _, _, ht⟩ <;> cases ht
  have hl' : RTok.lone ∉ ts' := fun hm => hl (hperm.symm.subset hm)
  exact specs_reorder_rendered ts ts' ⟨hwf, separated_of_no_lone hl⟩
    ⟨fun t ht => hwf t (hperm.symm.subset ht), separated_of_no_lone hl'⟩ (hperm.filterMap _) hord hcons

/-! ### `%%` and text do not matter -/

/-- the result of `getPrintfSpecs` without the offset of the error -/
def kindOf : Except PErr (List (Option PropCk.Text)) → Except (Option PropCk.Text) (List (Option PropCk.Text))
  | .ok l => .ok l
  | .error (.printf msg _) => .error (some msg)
  | .error .other => .error none

def errKind : PErr → Option PropCk.Text
  | .printf msg _ => some msg
  | .other => none

/-- the sequence of lone `%` and argument tokens (text and `%%` dropped) -/
def sig (ts : List RTok) : List ATok := (ts.filterMap tokA).filter (fun a => a != .pct)

theorem scanErr_kind_congr : ∀ (E E' : List (Nat × ATok)), E.map (·.2) = E'.map (·.2) → ∀ mode,
    (scanErr E mode).map errKind = (scanErr E' mode).map errKind := by
  intro E
  induction E with
  | nil =>
    intro E' h mode
    cases E' with
    | nil => rfl
    | cons _ _ => simp at h
  | cons x E ih =>
    intro E' h mode
    cases E' with
    | nil => simp at h
    | cons x' E' =>
      obtain ⟨p, a⟩ := x
      obtain ⟨p', a'⟩ := x'
      simp only [List.map_cons, List.cons.injEq] at h
      obtain ⟨ha, hrest⟩ := h
      subst ha
      cases a with
      | lone => simp [scanErr, errKind]
      | pct => simpa [scanErr] using ih E' hrest mode
      | arg num spec =>
        simp only [scanErr]
        split
        · simp [errKind]
        · exact ih E' hrest _

theorem specsSpec_kind_congr (E E' : List (Nat × ATok)) (h : E.map (·.2) = E'.map (·.2)) :
    kindOf (specsSpec E) = kindOf (specsSpec E') := by
  have hargs : argsOf E = argsOf E' := by rw [argsOf_eq_filterMap', argsOf_eq_filterMap', h]
  have hscan := scanErr_kind_congr E E' h none
  unfold specsSpec
  rw [hargs]
  cases hs : scanErr E none with
  | some e =>
    cases hs' : scanErr E' none with
    | none => rw [hs, hs'] at hscan; simp at hscan
    | some e' =>
      rw [hs, hs'] at hscan
      simp only [Option.map_some, Option.some.injEq] at hscan
      cases e <;> cases e' <;> simp_all [kindOf, errKind]
  | none =>
    cases hs' : scanErr E' none with
    | none => rfl
    | some e' => rw [hs, hs'] at hscan; simp at hscan

theorem filter_notPct_map (E : List (Nat × ATok)) :
    (E.filter notPct).map (·.2) = (E.map (·.2)).filter (fun a => a != .pct) := by
  induction E with
  | nil => rfl
  | cons x E ih =>
    obtain ⟨p, a⟩ := x
    cases a <;> simp [List.filter_cons, notPct, ih]

/-- **`%%` and text do not influence the result**: two assembled values with the same sequence of
    lone-`%` / argument tokens have the same specifier list, or the same kind of error (the offset
    of the error is the only thing text can change) -/
theorem specs_text_pct_invariant (ts ts' : List RTok) (h : WfRender ts) (h' : WfRender ts')
    (hsig : sig ts = sig ts') :
    kindOf (getPrintfSpecs (render ts)) = kindOf (getPrintfSpecs (render ts')) := by
  rw [specs_of_rendered ts h, specs_of_rendered ts' h', ← specsSpec_ignores_pct (expectedFrom 0 ts),
    ← specsSpec_ignores_pct (expectedFrom 0 ts')]
  apply specsSpec_kind_congr
  rw [filter_notPct_map, filter_notPct_map, exp_map, exp_map]
  exact hsig

end C06R

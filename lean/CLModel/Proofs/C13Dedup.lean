/-
C13 helper lemmas: the duplicate scan of `ProjectFiles.__init__` has a closed form.
-/
import CLModel.Paths.ProjectFiles
namespace PF

/-- what the duplicate scan compares -/
def keyOf (env : MEnv) (m : Rule) : Path × Nat := (env.realpfx m.l10n, env.pat m.l10n)

theorem sameKey_iff {env : MEnv} {a b : Rule} : sameKey env a b = true ↔ keyOf env a = keyOf env b := by
  simp [sameKey, keyOf, Prod.ext_iff]

/-- `m["test"] |= m_["test"]` for every later matcher with the same key -/
def mergedFrom (env : MEnv) (m : Rule) (rest : List Rule) (t : List Nat) : List Nat :=
  rest.foldl (fun t m_ => if sameKey env m m_ then setUnion t m_.test else t) t

def mergedTests (env : MEnv) (m : Rule) (rest : List Rule) : List Nat := mergedFrom env m rest m.test

/-- closed form: keep the first matcher of every key, with the tests of all its later duplicates -/
def specGo (env : MEnv) (seen : List (Path × Nat)) : List Rule → List Rule
  | [] => []
  | m :: rest =>
    if seen.contains (keyOf env m) then specGo env seen rest
    else { m with test := mergedTests env m rest } :: specGo env (keyOf env m :: seen) rest

def dedupSpec (env : MEnv) (ms : List Rule) : List Rule := specGo env [] ms

/-! ### sets -/

theorem mem_setInsert {x y : Nat} : ∀ {l : List Nat}, x ∈ setInsert y l ↔ x = y ∨ x ∈ l
  | [] => by simp [setInsert]
  | z :: zs => by
    simp only [setInsert]
    split
    · simp
    · split
      · rename_i h
        simp only [beq_iff_eq] at h
        subst h
        simp
      · simp only [List.mem_cons, mem_setInsert (l := zs)]
        constructor
        · rintro (h | h | h) <;> simp [h]
        · rintro (h | h | h) <;> simp [h]

theorem mem_setUnion {x : Nat} : ∀ {b a : List Nat}, x ∈ setUnion a b ↔ x ∈ a ∨ x ∈ b
  | [], a => by simp [setUnion]
  | y :: ys, a => by
    have ih := mem_setUnion (x := x) (b := ys) (a := setInsert y a)
    simp only [setUnion, List.foldl_cons] at ih ⊢
    rw [ih, mem_setInsert]
    simp only [List.mem_cons]
    constructor
    · rintro ((h | h) | h) <;> simp [h]
    · rintro (h | h | h) <;> simp [h]

theorem mem_mergedFrom {env : MEnv} {m : Rule} {x : Nat} : ∀ {rest : List Rule} {t : List Nat},
    x ∈ mergedFrom env m rest t ↔ x ∈ t ∨ ∃ m_ ∈ rest, sameKey env m m_ = true ∧ x ∈ m_.test
  | [], t => by simp [mergedFrom]
  | y :: ys, t => by
    have ih := fun t' => mem_mergedFrom (env := env) (m := m) (x := x) (rest := ys) (t := t')
    simp only [mergedFrom, List.foldl_cons] at ih ⊢
    rw [ih]
    by_cases hk : sameKey env m y = true
    · simp only [hk, if_true, mem_setUnion, List.mem_cons, exists_eq_or_imp, true_and]
      constructor
      · rintro ((h | h) | h)
        · exact Or.inl h
        · exact Or.inr (Or.inl h)
        · exact Or.inr (Or.inr h)
      · rintro (h | h | h)
        · exact Or.inl (Or.inl h)
        · exact Or.inl (Or.inr h)
        · exact Or.inr h
    · simp [hk]

theorem mergedTests_of_no_dup {env : MEnv} {m : Rule} : ∀ {rest : List Rule} {t : List Nat},
    (∀ m_ ∈ rest, sameKey env m m_ = false) → mergedFrom env m rest t = t
  | [], _, _ => rfl
  | y :: ys, t, h => by
    simp only [mergedFrom, List.foldl_cons, h y List.mem_cons_self]
    exact mergedTests_of_no_dup (rest := ys) (fun m_ hm => h m_ (List.mem_cons_of_mem _ hm))

/-! ### the inner loop -/

theorem scan_ok {env : MEnv} : ∀ {rest : List (Rule × Bool)} {m m' : Rule} {rest' : List (Rule × Bool)},
    scan env m rest = .ok (m', rest') →
      m' = { m with test := mergedFrom env m (rest.map (·.1)) m.test } ∧
      rest' = rest.map (fun x => (x.1, x.2 || sameKey env m x.1))
  | [], m, m', rest', h => by
    simp only [scan, Except.ok.injEq, Prod.mk.injEq] at h
    obtain ⟨rfl, rfl⟩ := h
    exact ⟨rfl, rfl⟩
  | (m_, d) :: rest, m, m', rest', h => by
    unfold scan at h
    split at h
    · rename_i hne
      have hk : sameKey env m m_ = false := by
        simp only [sameKey]
        simp only [bne_iff_ne, ne_eq] at hne
        simp [hne]
      cases hs : scan env m rest with
      | error e => simp [hs, Except.map] at h
      | ok v =>
        obtain ⟨a, b⟩ := v
        simp only [hs, Except.map, Except.ok.injEq, Prod.mk.injEq] at h
        obtain ⟨rfl, rfl⟩ := h
        obtain ⟨h1, h2⟩ := scan_ok hs
        refine ⟨?_, ?_⟩
        · rw [h1]; simp [mergedFrom, hk]
        · rw [h2]; simp [hk]
    · split at h
      · rename_i _ hne
        have hk : sameKey env m m_ = false := by
          simp only [sameKey]
          simp only [bne_iff_ne, ne_eq] at hne
          simp [hne]
        cases hs : scan env m rest with
        | error e => simp [hs, Except.map] at h
        | ok v =>
          obtain ⟨a, b⟩ := v
          simp only [hs, Except.map, Except.ok.injEq, Prod.mk.injEq] at h
          obtain ⟨rfl, rfl⟩ := h
          obtain ⟨h1, h2⟩ := scan_ok hs
          refine ⟨?_, ?_⟩
          · rw [h1]; simp [mergedFrom, hk]
          · rw [h2]; simp [hk]
      · rename_i he1 he2
        have hk : sameKey env m m_ = true := by
          simp only [sameKey]
          simp only [bne_iff_ne, ne_eq, Decidable.not_not] at he1 he2
          simp [he1, he2]
        simp only at h
        split at h
        · simp at h
        · cases hs : scan env { m with test := setUnion m.test m_.test } rest with
          | error e => simp [hs, Except.map] at h
          | ok v =>
            obtain ⟨a, b⟩ := v
            simp only [hs, Except.map, Except.ok.injEq, Prod.mk.injEq] at h
            obtain ⟨rfl, rfl⟩ := h
            obtain ⟨h1, h2⟩ := scan_ok hs
            refine ⟨?_, ?_⟩
            · rw [h1]
              simp only [mergedFrom, List.map_cons, List.foldl_cons, hk, if_true]
              rfl
            · rw [h2]
              simp only [List.map_cons, hk, Bool.or_true]
              rfl

/-! ### the outer loop -/

theorem specGo_cons_seen {env : MEnv} {K : List (Path × Nat)} {m : Rule} {rest : List Rule}
    (h : keyOf env m ∈ K) : specGo env K (m :: rest) = specGo env K rest := by
  simp [specGo, h]

theorem specGo_cons_new {env : MEnv} {K : List (Path × Nat)} {m : Rule} {rest : List Rule}
    (h : keyOf env m ∉ K) :
    specGo env K (m :: rest) = { m with test := mergedTests env m rest } :: specGo env (keyOf env m :: K) rest := by
  simp [specGo, h]

theorem dedupGo_eq_spec {env : MEnv} : ∀ (n : Nat) (l : List (Rule × Bool)) (K : List (Path × Nat)) (out : List Rule),
    (∀ x ∈ l, x.2 = K.contains (keyOf env x.1)) → l.length ≤ n → dedupGo env n l = .ok out →
    out = specGo env K (l.map (·.1))
  | _, [], K, out, _, _, h => by
    simp only [dedupGo, Except.ok.injEq] at h
    simp [← h, specGo]
  | _, [(m, d)], K, out, hf, _, h => by
    simp only [dedupGo, Except.ok.injEq] at h
    have := hf (m, d) (by simp)
    simp only at this
    subst h
    cases d with
    | true =>
      have hm : keyOf env m ∈ K := by simpa using this.symm
      rw [List.map_cons, specGo_cons_seen hm]
      simp [specGo]
    | false =>
      have hm : keyOf env m ∉ K := by simpa using this.symm
      rw [List.map_cons, specGo_cons_new hm]
      simp [specGo, mergedTests, mergedFrom]
  | 0, _ :: _ :: _, _, _, _, hn, _ => by simp at hn
  | n + 1, (m, d) :: x2 :: rest, K, out, hf, hn, h => by
    have hd := hf (m, d) (by simp)
    simp only at hd
    simp only [dedupGo] at h
    cases d with
    | true =>
      simp only [if_true] at h
      have := dedupGo_eq_spec n (x2 :: rest) K out (fun x hx => hf x (List.mem_cons_of_mem _ hx))
        (by simp at hn ⊢; omega) h
      have hm : keyOf env m ∈ K := by simpa using hd.symm
      rw [this, List.map_cons (l := x2 :: rest), specGo_cons_seen hm]
    | false =>
      simp only [Bool.false_eq_true, if_false] at h
      cases hs : scan env m (x2 :: rest) with
      | error e => simp [hs] at h
      | ok v =>
        obtain ⟨m', rest'⟩ := v
        simp only [hs] at h
        cases hg : dedupGo env n rest' with
        | error e => simp [hg, Except.map] at h
        | ok out' =>
          simp only [hg, Except.map, Except.ok.injEq] at h
          obtain ⟨h1, h2⟩ := scan_ok hs
          have hlen : rest'.length ≤ n := by
            rw [h2]; simp at hn ⊢; omega
          have hflags : ∀ x ∈ rest', x.2 = (keyOf env m :: K).contains (keyOf env x.1) := by
            intro x hx
            rw [h2] at hx
            simp only [List.mem_map] at hx
            obtain ⟨y, hy, rfl⟩ := hx
            simp only [List.contains_cons]
            rw [hf y (List.mem_cons_of_mem _ hy)]
            have : sameKey env m y.1 = (keyOf env y.1 == keyOf env m) := by
              rw [Bool.eq_iff_iff, sameKey_iff, beq_iff_eq]
              exact eq_comm
            rw [this, Bool.or_comm]
          have := dedupGo_eq_spec n rest' (keyOf env m :: K) out' hflags hlen hg
          have hm : keyOf env m ∉ K := by simpa using hd.symm
          have e : rest'.map (·.1) = (x2 :: rest).map (·.1) := by
            rw [h2, List.map_map]; rfl
          rw [← h, this, h1, e, List.map_cons (l := x2 :: rest), specGo_cons_new hm]
          rfl

theorem dedup_eq_spec {env : MEnv} {ms out : List Rule} (h : dedup env ms = .ok out) : out = dedupSpec env ms := by
  unfold dedup at h
  have := dedupGo_eq_spec ms.length (ms.map (·, false)) [] out (by simp) (by simp) h
  rw [this]
  simp [dedupSpec, List.map_map, Function.comp_def]

/-! ### consequences of the closed form -/

/-- every kept matcher is one of the given ones, with a possibly larger test set -/
theorem specGo_sound {env : MEnv} : ∀ {ms : List Rule} {K : List (Path × Nat)} {r' : Rule}, r' ∈ specGo env K ms →
    ∃ r ∈ ms, ∃ rest, (∀ x ∈ rest, x ∈ ms) ∧ r' = { r with test := mergedTests env r rest }
  | [], _, _, h => by simp [specGo] at h
  | m :: ms, K, r', h => by
    simp only [specGo] at h
    split at h
    · obtain ⟨r, hr, rest, h1, h2⟩ := specGo_sound h
      exact ⟨r, List.mem_cons_of_mem _ hr, rest, fun x hx => List.mem_cons_of_mem _ (h1 x hx), h2⟩
    · rcases List.mem_cons.1 h with rfl | h
      · exact ⟨m, List.mem_cons_self, ms, fun x hx => List.mem_cons_of_mem _ hx, rfl⟩
      · obtain ⟨r, hr, rest, h1, h2⟩ := specGo_sound h
        exact ⟨r, List.mem_cons_of_mem _ hr, rest, fun x hx => List.mem_cons_of_mem _ (h1 x hx), h2⟩

/-- every key that was not seen before keeps a representative -/
theorem specGo_covers {env : MEnv} : ∀ {ms : List Rule} {K : List (Path × Nat)} {r : Rule}, r ∈ ms →
    keyOf env r ∉ K → ∃ r' ∈ specGo env K ms, keyOf env r' = keyOf env r
  | [], _, _, h, _ => by simp at h
  | m :: ms, K, r, h, hK => by
    simp only [specGo]
    by_cases hm : keyOf env m = keyOf env r
    · have : K.contains (keyOf env m) = false := by
        rw [hm]; simpa using hK
      simp only [this, Bool.false_eq_true, if_false]
      exact ⟨_, List.mem_cons_self, hm⟩
    · rcases List.mem_cons.1 h with rfl | h
      · exact absurd rfl hm
      · split
        · exact specGo_covers h hK
        · obtain ⟨r', hr', hk⟩ := specGo_covers (K := keyOf env m :: K) h
            (by simp only [List.mem_cons, not_or]; exact ⟨fun e => hm e.symm, hK⟩)
          exact ⟨r', List.mem_cons_of_mem _ hr', hk⟩

/-- the position of a matcher that has no earlier duplicate -/
theorem specGo_split {env : MEnv} {r : Rule} {post : List Rule} : ∀ {pre : List Rule} {K : List (Path × Nat)},
    (∀ x ∈ pre, keyOf env x ≠ keyOf env r) → keyOf env r ∉ K →
    ∃ pre' post', specGo env K (pre ++ r :: post) = pre' ++ { r with test := mergedTests env r post } :: post' ∧
      ∀ x ∈ pre', ∃ y ∈ pre, x.l10n = y.l10n ∧ x.reference = y.reference
  | [], K, _, hK => by
    refine ⟨[], specGo env (keyOf env r :: K) post, ?_, by simp⟩
    rw [List.nil_append, specGo_cons_new hK, List.nil_append]
  | y :: ys, K, hpre, hK => by
    simp only [List.cons_append, specGo]
    split
    · obtain ⟨pre', post', h1, h2⟩ := specGo_split (pre := ys) (K := K)
        (fun x hx => hpre x (List.mem_cons_of_mem _ hx)) hK
      exact ⟨pre', post', h1, fun x hx => by
        obtain ⟨z, hz, h⟩ := h2 x hx
        exact ⟨z, List.mem_cons_of_mem _ hz, h⟩⟩
    · obtain ⟨pre', post', h1, h2⟩ := specGo_split (pre := ys) (K := keyOf env y :: K)
        (fun x hx => hpre x (List.mem_cons_of_mem _ hx))
        (by simp only [List.mem_cons, not_or]; exact ⟨fun e => hpre y List.mem_cons_self e.symm, hK⟩)
      refine ⟨_ :: pre', post', by rw [h1]; rfl, ?_⟩
      intro x hx
      rcases List.mem_cons.1 hx with rfl | hx
      · exact ⟨y, List.mem_cons_self, rfl, rfl⟩
      · obtain ⟨z, hz, h⟩ := h2 x hx
        exact ⟨z, List.mem_cons_of_mem _ hz, h⟩

end PF

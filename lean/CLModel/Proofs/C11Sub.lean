/- Dictionary lemmas for the environment `sub` builds, and the unfolding of `sub`. -/
import CLModel.Paths.Matcher
namespace PM

theorem lookup_map_replace {β} (k k' : Text) (v : β) (hne : (k' == k) = false) : ∀ (xs : List (Text × β)),
    (xs.map (fun p => if p.1 == k then (k, v) else p)).lookup k' = xs.lookup k'
  | [] => rfl
  | (a, b) :: xs => by
    simp only [List.map_cons]
    cases hak : (a == k) with
    | true =>
      have : a = k := by simpa using hak
      subst this
      simp only [if_true, List.lookup_cons, hne]
      exact lookup_map_replace a k' v hne xs
    | false =>
      simp only [Bool.false_eq_true, if_false, List.lookup_cons]
      cases (k' == a)
      · exact lookup_map_replace k k' v hne xs
      · rfl

theorem lookup_snoc {β} (k k' : Text) (v : β) : ∀ (xs : List (Text × β)),
    (xs ++ [(k, v)]).lookup k' = match xs.lookup k' with
      | some w => some w
      | none => if k' == k then some v else none
  | [] => by
    simp only [List.nil_append, List.lookup_cons, List.lookup_nil]
    cases hk : (k' == k) <;> simp
  | (a, b) :: xs => by
    simp only [List.cons_append, List.lookup_cons]
    cases (k' == a)
    · exact lookup_snoc k k' v xs
    · rfl

theorem lookup_none_of_not_any {β} (k : Text) : ∀ (xs : List (Text × β)), xs.any (fun p => p.1 == k) = false →
    xs.lookup k = none
  | [], _ => rfl
  | (a, b) :: xs, h => by
    simp only [List.any_cons, Bool.or_eq_false_iff] at h
    have hka : (k == a) = false := by
      cases hh : (k == a) with
      | false => rfl
      | true =>
        have : k = a := by simpa using hh
        subst this; simp at h
    simp only [List.lookup_cons, hka]
    exact lookup_none_of_not_any k xs h.2

theorem lookup_dset {β} (k k' : Text) (v : β) (d : List (Text × β)) :
    (dset d k v).lookup k' = if k' == k then some v else d.lookup k' := by
  unfold dset
  cases hany : d.any (fun p => p.1 == k) with
  | false =>
    simp only [Bool.false_eq_true, if_false]
    rw [lookup_snoc]
    cases hk : (k' == k) with
    | false => cases d.lookup k' <;> simp
    | true =>
      have : k' = k := by simpa using hk
      subst this
      rw [lookup_none_of_not_any k' d hany]
  | true =>
    simp only [if_true]
    cases hk : (k' == k) with
    | false =>
      simp only [Bool.false_eq_true, if_false]
      exact lookup_map_replace k k' v hk d
    | true =>
      have : k' = k := by simpa using hk
      subst this
      simp only [if_true]
      induction d with
      | nil => simp at hany
      | cons x xs ih =>
        obtain ⟨a, b⟩ := x
        simp only [List.map_cons]
        cases hak : (a == k') with
        | true =>
          have : a = k' := by simpa using hak
          subst this
          simp [List.lookup_cons]
        | false =>
          have hka : (k' == a) = false := by
            cases hh : (k' == a) with
            | false => rfl
            | true =>
              have : k' = a := by simpa using hh
              subst this; simp at hak
          simp only [Bool.false_eq_true, if_false, List.lookup_cons, hka]
          apply ih
          simpa [List.any_cons, hak] using hany

/-- `other.env` overrides the captures, and what it does not define is left alone -/
theorem lookup_dupdate {β} (k : Text) : ∀ (other d : List (Text × β)),
    (dupdate d other).lookup k = match other.reverse.lookup k with
      | some v => some v
      | none => d.lookup k := by
  intro other
  induction other with
  | nil => intro d; simp [dupdate]
  | cons x xs ih =>
    intro d
    obtain ⟨a, b⟩ := x
    have hstep : dupdate d ((a, b) :: xs) = dupdate (dset d a b) xs := by simp [dupdate]
    rw [hstep, ih]
    have hrev := lookup_snoc a k b xs.reverse
    simp only [List.reverse_cons]
    rw [hrev, lookup_dset]
    cases xs.reverse.lookup k with
    | some v => rfl
    | none =>
      simp only
      cases (k == a) <;> rfl

/-- `self.sub(other, path)` is `None` exactly when `self.match(path)` is `None` -/
theorem sub_none_iff (a b : Matcher) (path : Text) : a.sub b path = .ok none ↔ a.match path = .ok none := by
  unfold Matcher.sub
  simp only [bind, Except.bind]
  cases h : a.match path with
  | error e => simp
  | ok od =>
    cases od with
    | none => simp [pure, Except.pure]
    | some d =>
      simp only
      cases expandTop b.pattern (subEnv d b.env) <;> simp [pure, Except.pure]

/-- `sub` = match with one pattern, expand the other with the captured groups below its own environment -/
theorem sub_of_match {a b : Matcher} {path : Text} {d : GroupDict} (h : a.match path = .ok (some d)) :
    a.sub b path = (expandTop b.pattern (subEnv d b.env)).map some := by
  unfold Matcher.sub
  simp only [bind, Except.bind, h]
  cases expandTop b.pattern (subEnv d b.env) <;> simp [pure, Except.pure, Except.map]

end PM

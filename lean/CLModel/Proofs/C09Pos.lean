import CLModel.Proofs.C09Check
import CLModel.Proofs.RxSearch
namespace C09P
open Rx Android Android.Spec

theorem blankPairs_length (cond : Nat → Nat → Bool) : ∀ (n : Nat) (l : List Nat), l.length ≤ n →
    (blankPairs cond l).length = l.length := by
  intro n
  induction n with
  | zero => intro l h; cases l <;> simp_all [blankPairs]
  | succ n ih =>
    intro l h
    match l with
    | [] => simp [blankPairs]
    | [c] => simp [blankPairs]
    | a :: b :: rest =>
      unfold blankPairs
      split
      · simp [ih rest (by simp at h; omega)]
      · simp [ih (b :: rest) (by simp at h; omega)]

theorem dqPositions_bound : ∀ (n off : Nat) (l : List Nat), l.length ≤ n → ∀ i ∈ dqPositions off l, i < off + l.length := by
  intro n
  induction n with
  | zero => intro off l h i hi; cases l <;> simp_all [dqPositions]
  | succ n ih =>
    intro off l h i hi
    match l with
    | [] => simp [dqPositions] at hi
    | [c] => simp [dqPositions] at hi
    | a :: b :: rest =>
      unfold dqPositions at hi
      split at hi
      · rcases List.mem_cons.mp hi with rfl | hi
        · simp
        · have := ih (off + 2) rest (by simp at h; omega) i hi
          simp; omega
      · have := ih (off + 1) (b :: rest) (by simp at h; omega) i hi
        simp at this ⊢; omega

theorem indicesOf_bound (c : Nat) : ∀ (l : List Nat) (off : Nat), ∀ i ∈ indicesOf c off l, i < off + l.length := by
  intro l
  induction l with
  | nil => intro off i hi; simp [indicesOf] at hi
  | cons x xs ih =>
    intro off i hi
    unfold indicesOf at hi
    split at hi
    · rcases List.mem_cons.mp hi with rfl | hi
      · simp
      · have := ih (off + 1) i hi; simp; omega
    · have := ih (off + 1) i hi; simp; omega

theorem checkApostrophes_pos (v : List Nat) : ∀ r ∈ checkApostrophes v, r.pos < v.length := by
  classical
  intro r hr
  rw [checkApostrophes_eq] at hr
  rcases List.mem_append.mp hr with hr | hr
  · simp only [List.mem_map] at hr
    obtain ⟨i, hi, rfl⟩ := hr
    have := dqPositions_bound _ 0 (blankEsc v) (Nat.le_refl _) i hi
    simpa [blankEsc, blankPairs_length escCond _ v (Nat.le_refl _), err] using this
  · split at hr
    · cases hr
    · simp only [List.mem_map] at hr
      obtain ⟨i, hi, rfl⟩ := hr
      have := indicesOf_bound 39 (silence v) 0 i hi
      simpa [silence, blankPairs_length silCond _ v (Nat.le_refl _), err] using this

theorem lexL_pos : ∀ (f off : Nat) (l : List Nat), ∀ t ∈ lexL f off l, t.pos < off + l.length := by
  intro f
  induction f with
  | zero => intro off l t ht; simp [lexL] at ht
  | succ f ih =>
    intro off l t ht
    cases l with
    | nil => simp [lexL] at ht
    | cons c rest =>
      unfold lexL at ht
      split at ht
      · rename_i o fmt n hp
        rcases List.mem_cons.mp ht with rfl | ht
        · simp
        · by_cases hn : n ≤ (c :: rest).length
          · have := ih (off + n) ((c :: rest).drop n) t ht
            simp at this hn ⊢; omega
          · have hd : (c :: rest).drop n = [] := List.drop_eq_nil_of_le (by omega)
            rw [hd] at ht
            cases f <;> simp [lexL] at ht
      · have := ih (off + 1) rest t ht
        simp; omega

theorem uses_mem {n : Nat} {ts : List Tok} {u : Nat × Tok} (h : u ∈ uses n ts) : u.2 ∈ ts := by
  induction ts generalizing n with
  | nil => simp [uses] at h
  | cons t ts ih =>
    unfold uses at h
    split at h
    · rcases List.mem_cons.mp h with rfl | h
      · simp
      · exact List.mem_cons_of_mem _ (ih h)
    · rcases List.mem_cons.mp h with rfl | h
      · simp
      · exact List.mem_cons_of_mem _ (ih h)

theorem conflictsOf_pos (v : List Nat) : ∀ e ∈ conflictsOf (uses 1 (lex v)), e.2 < v.length := by
  intro e he
  unfold conflictsOf at he
  simp only [List.mem_filterMap] at he
  obtain ⟨u, hu, h⟩ := he
  have hp := lexL_pos _ 0 v u.2 (uses_mem hu)
  split at h
  · split at h
    · cases h
    · simp at h; subst h; simpa using hp
  · cases h

end C09P

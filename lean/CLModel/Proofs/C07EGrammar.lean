/- C07 (extension E), part 2: the `eref` scan on values of the grammar.
   `ValueN d v ns` is `ValueGrammar d v` together with the list `ns` of the names of its entity
   reference items (in element content and in attribute values), in order; the opaque bodies of
   comments, CDATA sections and processing instructions contribute the `&name;` texts they contain
   (`plainRefs body`) — the regex cannot tell them from references.
   Main results: `ValueN d v ns → erefNames v = ns` (names in the BMP), hence every grammar value is a
   grammar value over the names the checker finds in it. -/
import CLModel.Proofs.C07ERx
import CLModel.Proofs.C07Xml
namespace C07E
open XmlContent (isName isNameStart isNameChar isS isDigit hexVal crOk decAcc hexAcc predefined isXmlChar
  isTextChar commentOk cdataOk piOk isXmlTarget RefText AttrValText AttrsText ValueGrammar)

/-! ### the grammar with the names of its references -/

inductive RefN (d : List Text) : Text → List Text → Prop
  | ent (n : Text) : isName n = true → (d.contains n || predefined.contains n) = true →
      RefN d (38 :: n ++ [59]) [n]
  | dec (d0 : Nat) (ds : Text) : isDigit d0 = true → ds.all isDigit = true → crOk (decAcc (d0 - 48) ds) = true →
      RefN d (38 :: 35 :: d0 :: ds ++ [59]) []
  | hex (h0 x0 : Nat) (hs : Text) : hexVal h0 = some x0 → hs.all (fun c => (hexVal c).isSome) = true →
      crOk (hexAcc x0 hs) = true → RefN d (38 :: 35 :: 120 :: h0 :: hs ++ [59]) []

inductive AttrValN (d : List Text) (q : Nat) : Text → List Text → Prop
  | nil : AttrValN d q [] []
  | char (c : Nat) (v : Text) (ns : List Text) : isXmlChar c = true → c ≠ 60 → c ≠ 38 → c ≠ q → AttrValN d q v ns →
      AttrValN d q (c :: v) ns
  | ref (r v : Text) (n1 n2 : List Text) : RefN d r n1 → AttrValN d q v n2 → AttrValN d q (r ++ v) (n1 ++ n2)

inductive AttrsN (d : List Text) : List Text → Text → List Text → List Text → Prop
  | nil (seen : List Text) : AttrsN d seen [] seen []
  | cons (seen : List Text) (a : Text) (s0 : Nat) (ws1 ws2 ws3 : Text) (q : Nat) (val rest : Text)
      (seen' : List Text) (n1 n2 : List Text) :
      isS s0 = true → ws1.all isS = true → ws2.all isS = true → ws3.all isS = true →
      isName a = true → seen.contains a = false → (q = 34 ∨ q = 39) →
      AttrValN d q val n1 → AttrsN d (a :: seen) rest seen' n2 →
      AttrsN d seen (s0 :: ws1 ++ a ++ ws2 ++ [61] ++ ws3 ++ [q] ++ val ++ [q] ++ rest) seen' (n1 ++ n2)

/-- `ValueGrammar d v` with the names of the reference items of `v`, in order -/
inductive ValueN (d : List Text) : Text → List Text → Prop
  | nil : ValueN d [] []
  | text (c : Nat) (v : Text) (ns : List Text) : isTextChar c = true → ValueN d v ns → ValueN d (c :: v) ns
  | ref (r v : Text) (n1 n2 : List Text) : RefN d r n1 → ValueN d v n2 → ValueN d (r ++ v) (n1 ++ n2)
  | elem (n attrs ws ws' body v : Text) (seen' : List Text) (na nb nv : List Text) :
      isName n = true → AttrsN d [] attrs seen' na → ws.all isS = true → ws'.all isS = true →
      ValueN d body nb → ValueN d v nv →
      ValueN d (60 :: n ++ attrs ++ ws ++ [62] ++ body ++ [60, 47] ++ n ++ ws' ++ [62] ++ v) (na ++ nb ++ nv)
  | empty (n attrs ws v : Text) (seen' : List Text) (na nv : List Text) :
      isName n = true → AttrsN d [] attrs seen' na → ws.all isS = true → ValueN d v nv →
      ValueN d (60 :: n ++ attrs ++ ws ++ [47, 62] ++ v) (na ++ nv)
  | comment (body v : Text) (nv : List Text) : commentOk false body = true → ValueN d v nv →
      ValueN d ([60, 33, 45, 45] ++ body ++ [45, 45, 62] ++ v) (plainRefs body ++ nv)
  | cdata (body v : Text) (nv : List Text) : cdataOk 0 body = true → ValueN d v nv →
      ValueN d ([60, 33, 91, 67, 68, 65, 84, 65, 91] ++ body ++ [93, 93, 62] ++ v) (plainRefs body ++ nv)
  | pi (target : Text) (v : Text) (nv : List Text) : isName target = true → isXmlTarget target = false →
      ValueN d v nv → ValueN d ([60, 63] ++ target ++ [63, 62] ++ v) nv
  | piData (target : Text) (s : Nat) (body v : Text) (nv : List Text) : isName target = true →
      isXmlTarget target = false → isS s = true → piOk false body = true → ValueN d v nv →
      ValueN d ([60, 63] ++ target ++ s :: body ++ [63, 62] ++ v) (plainRefs body ++ nv)

/-! ### it is the same language -/

theorem RefN.toRefText {d r ns} (h : RefN d r ns) : RefText d r := by
  cases h with
  | ent n h1 h2 => exact .ent n h1 h2
  | dec d0 ds h1 h2 h3 => exact .dec d0 ds h1 h2 h3
  | hex h0 x0 hs h1 h2 h3 => exact .hex h0 x0 hs h1 h2 h3

theorem RefN.ofRefText {d r} (h : RefText d r) : ∃ ns, RefN d r ns := by
  cases h with
  | ent n h1 h2 => exact ⟨_, .ent n h1 h2⟩
  | dec d0 ds h1 h2 h3 => exact ⟨_, .dec d0 ds h1 h2 h3⟩
  | hex h0 x0 hs h1 h2 h3 => exact ⟨_, .hex h0 x0 hs h1 h2 h3⟩

theorem AttrValN.toText {d q v ns} (h : AttrValN d q v ns) : AttrValText d q v := by
  induction h with
  | nil => exact .nil
  | char c v ns h1 h2 h3 h4 _ ih => exact .char c v h1 h2 h3 h4 ih
  | ref r v n1 n2 hr _ ih => exact .ref r v hr.toRefText ih

theorem AttrValN.ofText {d q v} (h : AttrValText d q v) : ∃ ns, AttrValN d q v ns := by
  induction h with
  | nil => exact ⟨_, .nil⟩
  | char c v h1 h2 h3 h4 _ ih => obtain ⟨ns, ih⟩ := ih; exact ⟨_, .char c v ns h1 h2 h3 h4 ih⟩
  | ref r v hr _ ih =>
    obtain ⟨n2, ih⟩ := ih
    obtain ⟨n1, hr⟩ := RefN.ofRefText hr
    exact ⟨_, .ref r v n1 n2 hr ih⟩

theorem AttrsN.toText {d seen t seen' ns} (h : AttrsN d seen t seen' ns) : AttrsText d seen t seen' := by
  induction h with
  | nil seen => exact .nil seen
  | cons seen a s0 ws1 ws2 ws3 q val rest seen' n1 n2 h1 h2 h3 h4 h5 h6 h7 hv _ ih =>
    exact .cons seen a s0 ws1 ws2 ws3 q val rest seen' h1 h2 h3 h4 h5 h6 h7 hv.toText ih

theorem AttrsN.ofText {d seen t seen'} (h : AttrsText d seen t seen') : ∃ ns, AttrsN d seen t seen' ns := by
  induction h with
  | nil seen => exact ⟨_, .nil seen⟩
  | cons seen a s0 ws1 ws2 ws3 q val rest seen' h1 h2 h3 h4 h5 h6 h7 hv _ ih =>
    obtain ⟨n2, ih⟩ := ih
    obtain ⟨n1, hv⟩ := AttrValN.ofText hv
    exact ⟨_, .cons seen a s0 ws1 ws2 ws3 q val rest seen' n1 n2 h1 h2 h3 h4 h5 h6 h7 hv ih⟩

/-- forgetting the names gives a derivation of `ValueGrammar` … -/
theorem ValueN.toGrammar {d v ns} (h : ValueN d v ns) : ValueGrammar d v := by
  induction h with
  | nil => exact .nil
  | text c v ns hc _ ih => exact .text c v hc ih
  | ref r v n1 n2 hr _ ih => exact .ref r v hr.toRefText ih
  | elem n attrs ws ws' body v seen' na nb nv hn ha hws hws' _ _ ihb ihv =>
    exact .elem n attrs ws ws' body v seen' hn ha.toText hws hws' ihb ihv
  | empty n attrs ws v seen' na nv hn ha hws _ ihv => exact .empty n attrs ws v seen' hn ha.toText hws ihv
  | comment body v nv hb _ ihv => exact .comment body v hb ihv
  | cdata body v nv hb _ ihv => exact .cdata body v hb ihv
  | pi target v nv ht hx _ ihv => exact .pi target v ht hx ihv
  | piData target s body v nv ht hx hs hb _ ihv => exact .piData target s body v ht hx hs hb ihv

/-- … and every derivation of `ValueGrammar` has its list of names -/
theorem ValueN.ofGrammar {d v} (h : ValueGrammar d v) : ∃ ns, ValueN d v ns := by
  induction h with
  | nil => exact ⟨_, .nil⟩
  | text c v hc _ ih => obtain ⟨ns, ih⟩ := ih; exact ⟨_, .text c v ns hc ih⟩
  | ref r v hr _ ih =>
    obtain ⟨n2, ih⟩ := ih
    obtain ⟨n1, hr⟩ := RefN.ofRefText hr
    exact ⟨_, .ref r v n1 n2 hr ih⟩
  | elem n attrs ws ws' body v seen' hn ha hws hws' _ _ ihb ihv =>
    obtain ⟨nb, ihb⟩ := ihb
    obtain ⟨nv, ihv⟩ := ihv
    obtain ⟨na, ha⟩ := AttrsN.ofText ha
    exact ⟨_, .elem n attrs ws ws' body v seen' na nb nv hn ha hws hws' ihb ihv⟩
  | empty n attrs ws v seen' hn ha hws _ ihv =>
    obtain ⟨nv, ihv⟩ := ihv
    obtain ⟨na, ha⟩ := AttrsN.ofText ha
    exact ⟨_, .empty n attrs ws v seen' na nv hn ha hws ihv⟩
  | comment body v hb _ ihv => obtain ⟨nv, ihv⟩ := ihv; exact ⟨_, .comment body v nv hb ihv⟩
  | cdata body v hb _ ihv => obtain ⟨nv, ihv⟩ := ihv; exact ⟨_, .cdata body v nv hb ihv⟩
  | pi target v ht hx _ ihv => obtain ⟨nv, ihv⟩ := ihv; exact ⟨_, .pi target v nv ht hx ihv⟩
  | piData target s body v ht hx hs hb _ ihv =>
    obtain ⟨nv, ihv⟩ := ihv; exact ⟨_, .piData target s body v nv ht hx hs hb ihv⟩

/-! ### the scanner on pieces of a grammar value -/

/-- names in the Basic Multilingual Plane (the generated Name classes stop at U+FFFD) -/
def Bmp (ns : List Text) : Prop := ∀ n ∈ ns, ∀ c ∈ n, c < 65536

theorem Bmp.left {a b : List Text} (h : Bmp (a ++ b)) : Bmp a := fun n hn => h n (List.mem_append_left _ hn)
theorem Bmp.right {a b : List Text} (h : Bmp (a ++ b)) : Bmp b := fun n hn => h n (List.mem_append_right _ hn)

theorem refRun_noamp : ∀ (l : Text), (∀ c ∈ l, c ≠ 38) → refRun none l = ([], none)
  | [], _ => rfl
  | c :: cs, h => by
    rw [refRun_cons_ne c cs (h c (by simp))]
    exact refRun_noamp cs (fun x hx => h x (by simp [hx]))

theorem refRun_none_append {a b : Text} {na nb : List Text} (ha : refRun none a = (na, none))
    (hb : refRun none b = (nb, none)) : refRun none (a ++ b) = (na ++ nb, none) := by
  rw [refRun_append, ha]; simp only [hb]

theorem refRun_noamp_append {a b : Text} {nb : List Text} (ha : ∀ c ∈ a, c ≠ 38)
    (hb : refRun none b = (nb, none)) : refRun none (a ++ b) = (nb, none) := by
  have := refRun_none_append (refRun_noamp a ha) hb
  simpa using this

theorem noamp_app {a b : Text} (ha : ∀ c ∈ a, c ≠ 38) (hb : ∀ c ∈ b, c ≠ 38) : ∀ c ∈ a ++ b, c ≠ 38 := by
  intro c hc
  rcases List.mem_append.mp hc with h | h
  · exact ha c h
  · exact hb c h

theorem noamp_cons {x : Nat} {l : Text} (hx : x ≠ 38) (hl : ∀ c ∈ l, c ≠ 38) : ∀ c ∈ x :: l, c ≠ 38 := by
  intro c hc
  rcases List.mem_cons.mp hc with rfl | h
  · exact hx
  · exact hl c h

theorem noamp_nil : ∀ c ∈ ([] : Text), c ≠ 38 := by simp

theorem isS_noamp {s : Nat} (h : isS s = true) : s ≠ 38 := by
  rintro rfl; revert h; decide

/-- a terminator: characters other than `&` and `;`, then `>` — whatever the scanner was doing, it
    emits nothing and is back in the idle state -/
theorem refRun_term : ∀ (t : Text) (st : Option Text), (∀ c ∈ t, c ≠ 38 ∧ c ≠ 59) →
    refRun st (t ++ [62]) = ([], none)
  | [], st, _ => by
    cases st with
    | none => simp [refRun, refStep]
    | some acc =>
      have : nameStart 62 = false := by decide
      have h2 : nameChar 62 = false := by decide
      cases acc <;> simp [refRun, refStep, this, h2]
  | c :: t, st, h => by
    have hc := h c (by simp)
    have ih := fun st' => refRun_term t st' (fun x hx => h x (by simp [hx]))
    cases st with
    | none => simp [refRun, refStep, hc.1, ih]
    | some acc =>
      simp only [List.cons_append, refRun, refStep, hc.1, hc.2, beq_iff_eq, if_false]
      split <;> split <;> simp [ih]

theorem name_noamp {n : Text} (h : isName n = true) : ∀ c ∈ n, c ≠ 38 := by
  cases n with
  | nil => simp [isName] at h
  | cons a as =>
    simp only [isName, Bool.and_eq_true, List.all_eq_true] at h
    intro c hc
    rcases List.mem_cons.mp hc with rfl | hc
    · exact (XmlContent.nameChar_ne (XmlContent.nameStart_nameChar h.1)).2.2.2.2.2.1
    · exact (XmlContent.nameChar_ne (h.2 c hc)).2.2.2.2.2.1

theorem ws_noamp {ws : Text} (h : ws.all isS = true) : ∀ c ∈ ws, c ≠ 38 := by
  intro c hc
  have := List.all_eq_true.mp h c hc
  rintro rfl
  revert this; decide

theorem digits_noamp {ds : Text} (h : ds.all isDigit = true) : ∀ c ∈ ds, c ≠ 38 := by
  intro c hc
  have := List.all_eq_true.mp h c hc
  rintro rfl
  revert this; decide

theorem hexes_noamp {hs : Text} (h : hs.all (fun c => (hexVal c).isSome) = true) : ∀ c ∈ hs, c ≠ 38 := by
  intro c hc
  have := List.all_eq_true.mp h c hc
  rintro rfl
  revert this; decide

/-- a reference item: `&name;` emits its name, a character reference emits nothing -/
theorem refRun_ref {d r ns} (h : RefN d r ns) (hb : Bmp ns) : refRun none r = (ns, none) := by
  cases h with
  | ent n hn _ =>
    have hbn := hb n (by simp)
    cases n with
    | nil => simp [isName] at hn
    | cons c cs =>
      simp only [isName, Bool.and_eq_true, List.all_eq_true] at hn
      have hns : nameStart c = true := by
        simp only [nameStart, Bool.and_eq_true, decide_eq_true_eq]
        exact ⟨hn.1, hbn c (by simp)⟩
      have hall : cs.all nameChar = true := by
        rw [List.all_eq_true]
        intro x hx
        simp only [nameChar, Bool.and_eq_true, decide_eq_true_eq]
        exact ⟨hn.2 x hx, hbn x (by simp [hx])⟩
      have hne := nc_ne (ns_nc hns)
      simp only [List.cons_append]
      rw [refRun_amp]
      have hrun : refRun (some []) (c :: (cs ++ [59])) = refRun (some [c]) (cs ++ [59]) := by
        simp [refRun, refStep, hne.1, hns]
      rw [hrun, refRun_name cs [] hall [c] (by simp)]
      simp [refRun]
  | dec d0 ds h0 hds _ =>
    simp only [List.cons_append]
    rw [refRun_amp]
    have h35 : nameStart 35 = false := by decide
    have : refRun (some []) (35 :: d0 :: (ds ++ [59])) = refRun none (d0 :: (ds ++ [59])) := by
      simp [refRun, refStep, h35]
    rw [this]
    apply refRun_noamp
    have hd0 : d0 ≠ 38 := by rintro rfl; revert h0; decide
    exact noamp_cons hd0 (noamp_app (digits_noamp hds) (by decide))
  | hex h0 x0 hs hh0 hhs _ =>
    simp only [List.cons_append]
    rw [refRun_amp]
    have h35 : nameStart 35 = false := by decide
    have : refRun (some []) (35 :: 120 :: h0 :: (hs ++ [59])) = refRun none (120 :: h0 :: (hs ++ [59])) := by
      simp [refRun, refStep, h35]
    rw [this]
    apply refRun_noamp
    have hh : h0 ≠ 38 := by rintro rfl; simp [hexVal] at hh0
    exact noamp_cons (by decide) (noamp_cons hh (noamp_app (hexes_noamp hhs) (by decide)))

theorem refRun_attrVal {d q v ns} (h : AttrValN d q v ns) (hb : Bmp ns) : refRun none v = (ns, none) := by
  induction h with
  | nil => rfl
  | char c v ns _ _ h38 _ _ ih => rw [refRun_cons_ne c v h38]; exact ih hb
  | ref r v n1 n2 hr _ ih => exact refRun_none_append (refRun_ref hr hb.left) (ih hb.right)

theorem refRun_attrs {d seen t seen' ns} (h : AttrsN d seen t seen' ns) (hb : Bmp ns) :
    refRun none t = (ns, none) := by
  induction h with
  | nil seen => rfl
  | cons seen a s0 ws1 ws2 ws3 q val rest seen' n1 n2 hs0 h1 h2 h3 ha _ hq hv _ ih =>
    have hq38 : q ≠ 38 := by rcases hq with rfl | rfl <;> decide
    have e : s0 :: ws1 ++ a ++ ws2 ++ [61] ++ ws3 ++ [q] ++ val ++ [q] ++ rest
        = (s0 :: ws1 ++ a ++ ws2 ++ [61] ++ ws3 ++ [q]) ++ (val ++ ([q] ++ rest)) := by simp
    rw [e]
    apply refRun_noamp_append
    · exact noamp_app (noamp_app (noamp_app (noamp_app (noamp_app (noamp_cons (isS_noamp hs0) (ws_noamp h1))
        (name_noamp ha)) (ws_noamp h2)) (by decide)) (ws_noamp h3)) (noamp_cons hq38 noamp_nil)
    · apply refRun_none_append (refRun_attrVal hv hb.left)
      apply refRun_noamp_append (a := [q])
      · exact noamp_cons hq38 noamp_nil
      · exact ih hb.right

/-- an opaque body followed by its terminator: what the body contains as `&name;`, idle afterwards -/
theorem refRun_opaque (body t rest : Text) (nr : List Text) (ht : ∀ c ∈ t, c ≠ 38 ∧ c ≠ 59)
    (hr : refRun none rest = (nr, none)) :
    refRun none (body ++ (t ++ [62]) ++ rest) = (plainRefs body ++ nr, none) := by
  rw [List.append_assoc, refRun_append, refRun_append, refRun_term t _ ht]
  simp [plainRefs, hr]

/-- **the scanner on a grammar value**: it emits exactly the names of the reference items, in order,
    and ends idle -/
theorem refRun_value {d v ns} (h : ValueN d v ns) (hb : Bmp ns) : refRun none v = (ns, none) := by
  induction h with
  | nil => rfl
  | text c v ns hc _ ih =>
    have h38 : c ≠ 38 := by
      rintro rfl; revert hc; decide
    rw [refRun_cons_ne c v h38]; exact ih hb
  | ref r v n1 n2 hr _ ih => exact refRun_none_append (refRun_ref hr hb.left) (ih hb.right)
  | elem n attrs ws ws' body v seen' na nb nv hn ha hws hws' _ _ ihb ihv =>
    have e : 60 :: n ++ attrs ++ ws ++ [62] ++ body ++ [60, 47] ++ n ++ ws' ++ [62] ++ v
        = (60 :: n) ++ (attrs ++ ((ws ++ [62]) ++ (body ++ (([60, 47] ++ n ++ ws' ++ [62]) ++ v)))) := by simp
    rw [e, List.append_assoc na nb nv]
    apply refRun_noamp_append
    · exact noamp_cons (by decide) (name_noamp hn)
    · apply refRun_none_append (refRun_attrs ha hb.left.left)
      apply refRun_noamp_append
      · exact noamp_app (ws_noamp hws) (by decide)
      · apply refRun_none_append (ihb hb.left.right)
        apply refRun_noamp_append
        · exact noamp_app (noamp_app (noamp_app (by decide) (name_noamp hn)) (ws_noamp hws')) (by decide)
        · exact ihv hb.right
  | empty n attrs ws v seen' na nv hn ha hws _ ihv =>
    have e : 60 :: n ++ attrs ++ ws ++ [47, 62] ++ v = (60 :: n) ++ (attrs ++ ((ws ++ [47, 62]) ++ v)) := by simp
    rw [e]
    apply refRun_noamp_append
    · exact noamp_cons (by decide) (name_noamp hn)
    · apply refRun_none_append (refRun_attrs ha hb.left)
      apply refRun_noamp_append
      · exact noamp_app (ws_noamp hws) (by decide)
      · exact ihv hb.right
  | comment body v nv _ _ ihv =>
    have e : [60, 33, 45, 45] ++ body ++ [45, 45, 62] ++ v = [60, 33, 45, 45] ++ (body ++ ([45, 45] ++ [62]) ++ v) := by simp
    rw [e]
    apply refRun_noamp_append (by decide)
    exact refRun_opaque body [45, 45] v nv (by decide) (ihv hb.right)
  | cdata body v nv _ _ ihv =>
    have e : [60, 33, 91, 67, 68, 65, 84, 65, 91] ++ body ++ [93, 93, 62] ++ v
        = [60, 33, 91, 67, 68, 65, 84, 65, 91] ++ (body ++ ([93, 93] ++ [62]) ++ v) := by simp
    rw [e]
    apply refRun_noamp_append (by decide)
    exact refRun_opaque body [93, 93] v nv (by decide) (ihv hb.right)
  | pi target v nv ht _ _ ihv =>
    have e : [60, 63] ++ target ++ [63, 62] ++ v = ([60, 63] ++ target ++ [63, 62]) ++ v := by simp
    rw [e]
    apply refRun_noamp_append
    · exact noamp_app (noamp_app (by decide) (name_noamp ht)) (by decide)
    · exact ihv hb
  | piData target s body v nv ht _ hs _ _ ihv =>
    have e : [60, 63] ++ target ++ s :: body ++ [63, 62] ++ v
        = ([60, 63] ++ target ++ [s]) ++ (body ++ ([63] ++ [62]) ++ v) := by simp
    rw [e]
    apply refRun_noamp_append
    · exact noamp_app (noamp_app (by decide) (name_noamp ht)) (noamp_cons (isS_noamp hs) noamp_nil)
    · exact refRun_opaque body [63] v nv (by decide) (ihv hb.right)

/-! ### consequences for the checker's scan -/

/-- **erefNames_of_grammar**: on a grammar value the `eref` regex scan of the checker returns exactly
    the names of the reference items, in order -/
theorem erefNames_of_valueN {d v ns} (h : ValueN d v ns) (hb : Bmp ns) : Dtd.erefNames v = ns := by
  rw [erefNames_eq_plainRefs, plainRefs, refRun_value h hb]

/-- a value of the grammar over any declared names is a value of the grammar over its own reference names -/
theorem ValueN.overNames {d v ns} (h : ValueN d v ns) :
    ∀ D : List Text, (∀ n ∈ ns, D.contains n = true) → ValueGrammar D v := by
  have href : ∀ {r n1}, RefN d r n1 → ∀ D : List Text, (∀ n ∈ n1, D.contains n = true) → RefText D r := by
    intro r n1 hr D hD
    cases hr with
    | ent n h1 _ => exact .ent n h1 (by rw [hD n (by simp)]; rfl)
    | dec d0 ds h1 h2 h3 => exact .dec d0 ds h1 h2 h3
    | hex h0 x0 hs h1 h2 h3 => exact .hex h0 x0 hs h1 h2 h3
  have hval : ∀ {q val n1}, AttrValN d q val n1 → ∀ D : List Text, (∀ n ∈ n1, D.contains n = true) →
      AttrValText D q val := by
    intro q val n1 hv
    induction hv with
    | nil => intro D _; exact .nil
    | char c v ns h1 h2 h3 h4 _ ih => intro D hD; exact .char c v h1 h2 h3 h4 (ih D hD)
    | ref r v n1 n2 hr _ ih =>
      intro D hD
      exact .ref r v (href hr D (fun n hn => hD n (List.mem_append_left _ hn)))
        (ih D (fun n hn => hD n (List.mem_append_right _ hn)))
  have hattrs : ∀ {seen t seen' na}, AttrsN d seen t seen' na → ∀ D : List Text, (∀ n ∈ na, D.contains n = true) →
      AttrsText D seen t seen' := by
    intro seen t seen' na ha
    induction ha with
    | nil seen => intro D _; exact .nil seen
    | cons seen a s0 ws1 ws2 ws3 q val rest seen' n1 n2 h1 h2 h3 h4 h5 h6 h7 hv _ ih =>
      intro D hD
      exact .cons seen a s0 ws1 ws2 ws3 q val rest seen' h1 h2 h3 h4 h5 h6 h7
        (hval hv D (fun n hn => hD n (List.mem_append_left _ hn)))
        (ih D (fun n hn => hD n (List.mem_append_right _ hn)))
  induction h with
  | nil => intro D _; exact .nil
  | text c v ns hc _ ih => intro D hD; exact .text c v hc (ih D hD)
  | ref r v n1 n2 hr _ ih =>
    intro D hD
    exact .ref r v (href hr D (fun n hn => hD n (List.mem_append_left _ hn)))
      (ih D (fun n hn => hD n (List.mem_append_right _ hn)))
  | elem n attrs ws ws' body v seen' na nb nv hn ha hws hws' _ _ ihb ihv =>
    intro D hD
    exact .elem n attrs ws ws' body v seen' hn
      (hattrs ha D (fun x hx => hD x (List.mem_append_left _ (List.mem_append_left _ hx)))) hws hws'
      (ihb D (fun x hx => hD x (List.mem_append_left _ (List.mem_append_right _ hx))))
      (ihv D (fun x hx => hD x (List.mem_append_right _ hx)))
  | empty n attrs ws v seen' na nv hn ha hws _ ihv =>
    intro D hD
    exact .empty n attrs ws v seen' hn (hattrs ha D (fun x hx => hD x (List.mem_append_left _ hx))) hws
      (ihv D (fun x hx => hD x (List.mem_append_right _ hx)))
  | comment body v nv hb _ ihv => intro D hD; exact .comment body v hb (ihv D (fun x hx => hD x (List.mem_append_right _ hx)))
  | cdata body v nv hb _ ihv => intro D hD; exact .cdata body v hb (ihv D (fun x hx => hD x (List.mem_append_right _ hx)))
  | pi target v nv ht hx _ ihv => intro D hD; exact .pi target v ht hx (ihv D hD)
  | piData target s body v nv ht hx hs hb _ ihv =>
    intro D hD; exact .piData target s body v ht hx hs hb (ihv D (fun x hx => hD x (List.mem_append_right _ hx)))

/-! ### names are made of characters of the value -/

theorem refRun_chars : ∀ (l : Text) (st : Option Text) (P : Nat → Prop), (∀ c ∈ l, P c) →
    (∀ acc, st = some acc → ∀ c ∈ acc, P c) → ∀ n ∈ (refRun st l).1, ∀ c ∈ n, P c
  | [], _, _, _, _ => by simp [refRun]
  | x :: xs, st, P, hl, hst => by
    have hx : P x := hl x (by simp)
    have hxs : ∀ c ∈ xs, P c := fun c hc => hl c (by simp [hc])
    intro n hn
    simp only [refRun, List.mem_append] at hn
    rcases hn with hn | hn
    · -- emitted by this character
      simp only [refStep] at hn
      split at hn
      · simp at hn
      · cases st with
        | none => simp at hn
        | some acc =>
          simp only at hn
          split at hn
          · split at hn <;> simp at hn
          · split at hn
            · simp only [Option.toList_some, List.mem_singleton] at hn
              subst hn
              intro c hc
              exact hst acc rfl c (by simpa using hc)
            · split at hn <;> simp at hn
    · refine refRun_chars xs _ P hxs ?_ n hn
      intro acc' hacc'
      simp only [refStep] at hacc'
      split at hacc'
      · cases hacc'; simp
      · cases st with
        | none => simp at hacc'
        | some acc =>
          simp only at hacc'
          split at hacc'
          · split at hacc'
            · cases hacc'; simpa using hx
            · simp at hacc'
          · split at hacc'
            · simp at hacc'
            · split at hacc'
              · cases hacc'
                intro c hc
                rcases List.mem_cons.mp hc with rfl | hc
                · exact hx
                · exact hst acc rfl c hc
              · simp at hacc'

theorem plainRefs_chars (l : Text) (P : Nat → Prop) (h : ∀ c ∈ l, P c) : ∀ n ∈ plainRefs l, ∀ c ∈ n, P c :=
  refRun_chars l none P h (by simp)

/-- the names of a grammar value consist of characters of the value -/
theorem ValueN.chars {d v ns} (h : ValueN d v ns) (P : Nat → Prop) : (∀ c ∈ v, P c) → ∀ n ∈ ns, ∀ c ∈ n, P c := by
  have href : ∀ {r n1}, RefN d r n1 → (∀ c ∈ r, P c) → ∀ n ∈ n1, ∀ c ∈ n, P c := by
    intro r n1 hr hP
    cases hr with
    | ent n _ _ =>
      intro m hm c hc
      simp only [List.mem_singleton] at hm
      subst hm
      exact hP c (by simp [hc])
    | dec d0 ds _ _ _ => simp
    | hex h0 x0 hs _ _ _ => simp
  have hval : ∀ {q val n1}, AttrValN d q val n1 → (∀ c ∈ val, P c) → ∀ n ∈ n1, ∀ c ∈ n, P c := by
    intro q val n1 hv
    induction hv with
    | nil => simp
    | char c v ns _ _ _ _ _ ih => intro hP; exact ih (fun x hx => hP x (by simp [hx]))
    | ref r v n1 n2 hr _ ih =>
      intro hP n hn
      rcases List.mem_append.mp hn with hn | hn
      · exact href hr (fun x hx => hP x (by simp [hx])) n hn
      · exact ih (fun x hx => hP x (by simp [hx])) n hn
  have hattrs : ∀ {seen t seen' na}, AttrsN d seen t seen' na → (∀ c ∈ t, P c) → ∀ n ∈ na, ∀ c ∈ n, P c := by
    intro seen t seen' na ha
    induction ha with
    | nil seen => simp
    | cons seen a s0 ws1 ws2 ws3 q val rest seen' n1 n2 _ _ _ _ _ _ _ hv _ ih =>
      intro hP n hn
      rcases List.mem_append.mp hn with hn | hn
      · exact hval hv (fun x hx => hP x (by simp [hx])) n hn
      · exact ih (fun x hx => hP x (by simp [hx])) n hn
  induction h with
  | nil => simp
  | text c v ns _ _ ih => intro hP; exact ih (fun x hx => hP x (by simp [hx]))
  | ref r v n1 n2 hr _ ih =>
    intro hP n hn
    rcases List.mem_append.mp hn with hn | hn
    · exact href hr (fun x hx => hP x (by simp [hx])) n hn
    · exact ih (fun x hx => hP x (by simp [hx])) n hn
  | elem n attrs ws ws' body v seen' na nb nv _ ha _ _ _ _ ihb ihv =>
    intro hP m hm
    rcases List.mem_append.mp hm with hm | hm
    · rcases List.mem_append.mp hm with hm | hm
      · exact hattrs ha (fun x hx => hP x (by simp [hx])) m hm
      · exact ihb (fun x hx => hP x (by simp [hx])) m hm
    · exact ihv (fun x hx => hP x (by simp [hx])) m hm
  | empty n attrs ws v seen' na nv _ ha _ _ ihv =>
    intro hP m hm
    rcases List.mem_append.mp hm with hm | hm
    · exact hattrs ha (fun x hx => hP x (by simp [hx])) m hm
    · exact ihv (fun x hx => hP x (by simp [hx])) m hm
  | comment body v nv _ _ ihv =>
    intro hP m hm
    rcases List.mem_append.mp hm with hm | hm
    · exact plainRefs_chars body P (fun x hx => hP x (by simp [hx])) m hm
    · exact ihv (fun x hx => hP x (by simp [hx])) m hm
  | cdata body v nv _ _ ihv =>
    intro hP m hm
    rcases List.mem_append.mp hm with hm | hm
    · exact plainRefs_chars body P (fun x hx => hP x (by simp [hx])) m hm
    · exact ihv (fun x hx => hP x (by simp [hx])) m hm
  | pi target v nv _ _ _ ihv => intro hP; exact ihv (fun x hx => hP x (by simp [hx]))
  | piData target s body v nv _ _ _ _ _ ihv =>
    intro hP m hm
    rcases List.mem_append.mp hm with hm | hm
    · exact plainRefs_chars body P (fun x hx => hP x (by simp [hx])) m hm
    · exact ihv (fun x hx => hP x (by simp [hx])) m hm

/-- **the link that was assumed**: a grammar value (over whatever declared names) whose characters are in
    the BMP is a grammar value over the names the `eref` scan finds in it -/
theorem grammar_over_erefNames {d v} (h : ValueGrammar d v) (hb : ∀ c ∈ v, c < 65536) :
    ValueGrammar (Dtd.erefNames v) v := by
  obtain ⟨ns, hn⟩ := ValueN.ofGrammar h
  have hbmp : Bmp ns := hn.chars (fun c => c < 65536) hb
  rw [erefNames_of_valueN hn hbmp]
  exact hn.overNames ns (fun n hn' => by simpa using hn')

/-! ### `&name;` anywhere in a text is found -/

theorem refRun_occurs (a b n : Text) (hn : isName n = true) (hb : ∀ c ∈ n, c < 65536) (st : Option Text) :
    n ∈ (refRun st (a ++ (38 :: n ++ [59]) ++ b)).1 := by
  rw [List.append_assoc, refRun_append, refRun_append]
  have hr : RefN [n] (38 :: n ++ [59]) [n] := .ent n hn (by simp)
  have h1 : refRun (refRun st a).2 (38 :: n ++ [59]) = ([n], none) := by
    have := refRun_ref hr (fun m hm => by simp only [List.mem_singleton] at hm; subst hm; exact hb)
    rw [← this]
    simp only [List.cons_append, refRun_amp]
  rw [h1]
  simp

/-- every textual occurrence of `&n;` (n a Name in the BMP) in `v` is found by the checker's scan -/
theorem mem_erefNames_of_occurs (v a b n : Text) (hn : isName n = true) (hb : ∀ c ∈ n, c < 65536)
    (hv : v = a ++ (38 :: n ++ [59]) ++ b) : n ∈ Dtd.erefNames v := by
  rw [erefNames_eq_plainRefs, plainRefs, hv]
  exact refRun_occurs a b n hn hb none

/-! ### … and nothing else is: the scan as a set, without any scanning -/

/-- a Name all of whose characters are in the BMP -/
def isBmpName : Text → Bool
  | [] => false
  | c :: cs => nameStart c && cs.all nameChar

theorem isBmpName_iff (n : Text) : isBmpName n = true ↔ isName n = true ∧ ∀ c ∈ n, c < 65536 := by
  cases n with
  | nil => simp [isBmpName, isName]
  | cons c cs =>
    simp only [isBmpName, isName, nameStart, nameChar, Bool.and_eq_true, List.all_eq_true, decide_eq_true_eq,
      List.mem_cons, forall_eq_or_imp]
    constructor
    · rintro ⟨⟨h1, h2⟩, h3⟩
      exact ⟨⟨h1, fun x hx => (h3 x hx).1⟩, h2, fun x hx => (h3 x hx).2⟩
    · rintro ⟨⟨h1, h2⟩, h3, h4⟩
      exact ⟨⟨h1, h3⟩, fun x hx => ⟨h2 x hx, h4 x hx⟩⟩

theorem isBmpName_snoc {n : Text} {x : Nat} (hn : isBmpName n = true) (hx : nameChar x = true) :
    isBmpName (n ++ [x]) = true := by
  cases n with
  | nil => simp [isBmpName] at hn
  | cons c cs =>
    simp only [isBmpName, Bool.and_eq_true, List.cons_append, List.all_append, List.all_cons, List.all_nil,
      Bool.and_true] at hn ⊢
    exact ⟨hn.1, hn.2, hx⟩

/-- whatever the scanner emits stands in the text as `&name;` -/
theorem refRun_sound (n : Text) : ∀ (l : Text) (st : Option Text) (pre : Text),
    (∀ acc, st = some acc → (∃ p0, pre = p0 ++ 38 :: acc.reverse) ∧ (acc = [] ∨ isBmpName acc.reverse = true)) →
    n ∈ (refRun st l).1 → isBmpName n = true ∧ ∃ a b, pre ++ l = a ++ (38 :: n ++ [59]) ++ b
  | [], _, _, _, h => by simp [refRun] at h
  | x :: xs, st, pre, hinv, h => by
    simp only [refRun, List.mem_append] at h
    have hnext : (∀ acc, (refStep st x).1 = some acc →
        (∃ p0, pre ++ [x] = p0 ++ 38 :: acc.reverse) ∧ (acc = [] ∨ isBmpName acc.reverse = true)) := by
      intro acc' hacc'
      simp only [refStep] at hacc'
      split at hacc'
      · rename_i h38
        cases hacc'
        simp only [beq_iff_eq] at h38
        subst h38
        exact ⟨⟨pre, by simp⟩, Or.inl rfl⟩
      · cases st with
        | none => simp at hacc'
        | some acc =>
          obtain ⟨⟨p0, hp0⟩, hok⟩ := hinv acc rfl
          simp only at hacc'
          split at hacc'
          · rename_i hemp
            have : acc = [] := by simpa using hemp
            subst this
            split at hacc'
            · rename_i hns
              cases hacc'
              exact ⟨⟨p0, by simp [hp0]⟩, Or.inr (by simp [isBmpName, hns])⟩
            · simp at hacc'
          · rename_i hemp
            split at hacc'
            · simp at hacc'
            · split at hacc'
              · rename_i hnc
                cases hacc'
                refine ⟨⟨p0, by simp [hp0]⟩, Or.inr ?_⟩
                rcases hok with rfl | hok
                · simp at hemp
                · simpa using isBmpName_snoc hok hnc
              · simp at hacc'
    rcases h with h | h
    · -- emitted by this character: it is `;` after a name
      simp only [refStep] at h
      split at h
      · simp at h
      · cases st with
        | none => simp at h
        | some acc =>
          obtain ⟨⟨p0, hp0⟩, hok⟩ := hinv acc rfl
          simp only at h
          split at h
          · split at h <;> simp at h
          · rename_i hemp
            split at h
            · rename_i h59
              simp only [Option.toList_some, List.mem_singleton] at h
              subst h
              simp only [beq_iff_eq] at h59
              subst h59
              rcases hok with rfl | hok
              · simp at hemp
              · exact ⟨hok, p0, xs, by simp [hp0]⟩
            · split at h <;> simp at h
    · obtain ⟨hn, a, b, hab⟩ := refRun_sound n xs _ (pre ++ [x]) hnext h
      exact ⟨hn, a, b, by rw [← hab]; simp⟩

/-- **the `eref` scan as a set**: the names the checker finds in `v` are exactly the Names `n` (in the BMP)
    such that `&n;` stands somewhere in `v` -/
theorem mem_erefNames_iff (v n : Text) :
    n ∈ Dtd.erefNames v ↔ isBmpName n = true ∧ ∃ a b, v = a ++ (38 :: n ++ [59]) ++ b := by
  constructor
  · intro h
    rw [erefNames_eq_plainRefs, plainRefs] at h
    have := refRun_sound n v none [] (by simp) h
    simpa using this
  · rintro ⟨hn, a, b, hv⟩
    obtain ⟨h1, h2⟩ := (isBmpName_iff n).mp hn
    exact mem_erefNames_of_occurs v a b n h1 h2 hv

end C07E

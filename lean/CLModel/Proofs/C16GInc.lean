/-
C16G, part 8: `.inc` — `#define key value⏎` per record with a NON-EMPTY value (an empty value means the `val` group
did not match and `Entity.wrap` misbehaves: finding C16-inc-reference-without-value).
A leading blank line is Junk for `DefinesParser` (finding C16-inc-leading-blank): the theorem is stated for the inputs
where the output provably has none (`no_lead_printed`).
-/
import CLModel.Proofs.C16GIdem
import CLModel.Proofs.C02XInc
namespace C16G
open AR Ser C16L C16R
open P (PRec)
open C02X (printInc printIncRec SafeIncRec defPrefix incLen incEntity incExpEntries)

/-- `#define key ` … -/
def incF : RFmt := { pre := fun k => defPrefix ++ k ++ [32], post := [] }

/-- safe `.inc` record with a value -/
def SafeIncV (r : PRec) : Prop := SafeIncRec r ∧ r.2 ≠ []

theorem printIncRec_val (r : PRec) (hv : r.2 ≠ []) : printIncRec r = recText incF r ++ [10] := by
  simp [printIncRec, recText, incF, hv]

theorem printF_inc (rs : List PRec) (h : ∀ r ∈ rs, r.2 ≠ []) : printF incF rs = printInc rs := by
  unfold printF printInc
  congr 1
  apply List.map_congr_left
  intro r hr
  rw [printIncRec_val r (h r hr)]

theorem ofEntry_incEntity (s : Array Nat) (off : Nat) (r : PRec) (rest : List Nat) (hv : r.2 ≠ [])
    (h : s.toList.drop off = printIncRec r ++ rest) :
    ofEntry .inc s (incEntity off r.1.length r.2.length) = entF incF r := by
  have hv0 : r.2.length ≠ 0 := by simpa using hv
  have hlen : (printIncRec r ++ rest).length = s.size - off := by rw [← h]; simp
  rw [List.length_append, C02X.printIncRec_length] at hlen
  have hinc : incLen r.1.length r.2.length = 8 + r.1.length + (1 + r.2.length) := by simp [incLen, hv0]
  rw [hinc] at hlen
  have h1 : s.toList.drop off = defPrefix ++ (r.1 ++ ([32] ++ (r.2 ++ (10 :: rest)))) := by
    simp [h, printIncRec, hv]
  have h2 : s.toList.drop (off + 8) = r.1 ++ ([32] ++ (r.2 ++ (10 :: rest))) := C02X.drop_app s off _ _ h1
  have h3 : s.toList.drop (off + 8 + r.1.length) = [32] ++ (r.2 ++ (10 :: rest)) := C02X.drop_app s _ _ _ h2
  have h4 : s.toList.drop (off + 8 + r.1.length + 1) = r.2 ++ (10 :: rest) := C02X.drop_app s _ _ _ h3
  have hk : P.slice s (off + 8) (off + 8 + r.1.length) = r.1 := by
    rw [P.slice_take s (off + 8) r.1.length _ h2 (by simp)]
    simp
  have hval : P.slice s (off + 8 + r.1.length + 1) (off + 8 + r.1.length + 1 + r.2.length) = r.2 := by
    rw [P.slice_take s _ r.2.length _ h4 (by simp)]
    simp
  have hall : P.slice s off (off + (8 + r.1.length + 1 + r.2.length)) = defPrefix ++ r.1 ++ [32] ++ r.2 := by
    rw [P.slice_take s off _ _ h1 (by simp [defPrefix]; omega)]
    have : defPrefix ++ (r.1 ++ ([32] ++ (r.2 ++ (10 :: rest)))) = (defPrefix ++ r.1 ++ [32] ++ r.2) ++ (10 :: rest) := by simp
    rw [this, List.take_left' (by simp [defPrefix]; omega)]
  have hpre : P.slice s off (off + (8 + r.1.length + 1)) = defPrefix ++ r.1 ++ [32] := by
    rw [P.slice_take s off _ _ h1 (by simp [defPrefix]; omega)]
    have : defPrefix ++ (r.1 ++ ([32] ++ (r.2 ++ (10 :: rest)))) = (defPrefix ++ r.1 ++ [32]) ++ (r.2 ++ (10 :: rest)) := by simp
    rw [this, List.take_left' (by simp [defPrefix]; omega)]
  have hpost : P.slice s (off + 8 + r.1.length + 1 + r.2.length) (off + 8 + r.1.length + 1 + r.2.length) = [] :=
    C02X.slice_self s _
  unfold ofEntry incEntity entF incF
  simp only [hv0, if_false, P.Entry.all]
  rw [C16L.pySlice_nat s (off + 8) (off + 8 + r.1.length) (by omega) (by omega),
    C16L.pySlice_nat s (off + 8 + r.1.length + 1) (off + 8 + r.1.length + 1 + r.2.length) (by omega) (by omega),
    C16L.pySlice_nat s off (off + 8 + r.1.length + 1) (by omega) (by omega),
    C16L.pySlice_nat s (off + 8 + r.1.length + 1 + r.2.length) (off + 8 + r.1.length + 1 + r.2.length) (by omega) (by omega),
    hk, hval, hpost,
    show off + 8 + r.1.length + 1 + r.2.length = off + (8 + r.1.length + 1 + r.2.length) by omega, hall,
    show off + 8 + r.1.length + 1 = off + (8 + r.1.length + 1) by omega, hpre]
  simp

theorem map_ofEntry_incExpEntries (s : Array Nat) :
    ∀ (rs : List PRec) (off : Nat), s.toList.drop off = printInc rs → (∀ r ∈ rs, SafeIncV r) →
      (incExpEntries off rs).map (ofEntry .inc s) = entsF incF rs := by
  intro rs
  induction rs with
  | nil => intro off _ _; rfl
  | cons r rs ih =>
    intro off h hs
    have hpp : printInc (r :: rs) = printIncRec r ++ printInc rs := by simp [printInc]
    rw [hpp] at h
    have hv := (hs r (by simp)).2
    have hv0 : r.2.length ≠ 0 := by simpa using hv
    have hrec := C02X.incRecAt_of_drop s off r _ (hs r (by simp)).1 h
    have hdrop : s.toList.drop (off + incLen r.1.length r.2.length + 1) = printInc rs := by
      have := C02X.drop_app s off _ _ h
      rw [C02X.printIncRec_length] at this
      rw [← this]; congr 1
    have hnl : s[off + incLen r.1.length r.2.length]? = some 10 := by
      unfold incLen
      simp only [hv0, if_false]
      rw [show off + (8 + r.1.length + (1 + r.2.length)) = off + 8 + r.1.length + 1 + r.2.length by omega]
      exact hrec.nl (by omega)
    simp only [incExpEntries, List.map_cons, entsF_cons]
    rw [ofEntry_incEntity s off r _ hv h, ofEntry_ws .inc s _ hnl,
      ih _ hdrop (fun r' hr' => hs r' (by simp [hr']))]

theorem walkEnts_printed_inc (rs : List PRec) (h : ∀ r ∈ rs, SafeIncV r) :
    walkEnts .inc (printInc rs).toArray = some (entsF incF rs) := by
  unfold walkEnts
  rw [C02X.walk_inc_printed rs (fun r hr => (h r hr).1)]
  simp only
  rw [map_ofEntry_incExpEntries _ rs 0 (by simp) h]

/-- RE-PARSE, `.inc`: see `C16.serialize_reparses_inc_partial` -/
theorem serialize_reparses_inc (r0 : PRec) (rs oldRecs : List PRec) (nd : NewData)
    (href : ∀ r ∈ r0 :: rs, SafeIncV r) (hold : ∀ r ∈ oldRecs, SafeIncV r)
    (hrk : ((r0 :: rs).map (·.1)).Nodup) (hok : (oldRecs.map (·.1)).Nodup) (hnd : (nd.map (·.1)).Nodup)
    (hv : ∀ r ∈ r0 :: rs, ∀ v, (r.1, some v) ∈ nd → SafeIncV (r.1, v))
    (hfirst : (expectedRec oldRecs nd r0).isSome = true)
    (hohead : ∀ o, oldRecs.head? = some o → o.1 ∈ (r0 :: rs).map (·.1)) :
    ∃ t es, serializeText .inc (printInc (r0 :: rs)).toArray (printInc oldRecs).toArray nd = some t ∧
      P.walk .inc t.toArray = .done es ∧
      P.entitiesOf .inc t.toArray es = (expectedRecs (r0 :: rs) oldRecs nd).map P.expectedView ∧
      P.junkOf t.toArray es = [] := by
  obtain ⟨ht, hsafe⟩ := out_text incF SafeIncV (r0 :: rs) oldRecs nd hold hrk hok hnd hv
  rw [no_lead_printed incF r0 rs nd oldRecs hrk hok hnd hfirst hohead,
    printF_inc _ (fun r hr => (hsafe r hr).2)] at ht
  simp only [Bool.false_eq_true, if_false, List.nil_append] at ht
  refine ⟨serializeOut (entsF incF (r0 :: rs)) (entsF incF oldRecs) nd,
    incExpEntries 0 (expectedRecs (r0 :: rs) oldRecs nd), ?_, ?_, ?_, ?_⟩
  · unfold serializeText
    rw [walkEnts_printed_inc (r0 :: rs) href, walkEnts_printed_inc oldRecs hold]
  · show P.walk .inc (serializeOut _ _ nd).toArray = _
    rw [ht]
    exact C02X.walk_inc_printed _ (fun r hr => (hsafe r hr).1)
  · show P.entitiesOf .inc (serializeOut _ _ nd).toArray _ = _
    rw [ht]
    exact (C02X.entitiesOf_incExpEntries _ _ 0 (by simp)).1
  · show P.junkOf (serializeOut _ _ nd).toArray _ = _
    rw [ht]
    exact (C02X.entitiesOf_incExpEntries _ _ 0 (by simp)).2

/-- TEXT-LEVEL IDEMPOTENCE, `.inc` (the class of `serialize_reparses_inc`) -/
theorem idempotent_text_inc (r0 : PRec) (rs oldRecs : List PRec) (nd : NewData)
    (href : ∀ r ∈ r0 :: rs, SafeIncV r) (hold : ∀ r ∈ oldRecs, SafeIncV r)
    (hrk : ((r0 :: rs).map (·.1)).Nodup) (hok : (oldRecs.map (·.1)).Nodup) (hnd : (nd.map (·.1)).Nodup)
    (hv : ∀ r ∈ r0 :: rs, ∀ v, (r.1, some v) ∈ nd → SafeIncV (r.1, v))
    (hfirst : (expectedRec oldRecs nd r0).isSome = true)
    (hohead : ∀ o, oldRecs.head? = some o → o.1 ∈ (r0 :: rs).map (·.1)) :
    ∃ t, serializeText .inc (printInc (r0 :: rs)).toArray (printInc oldRecs).toArray nd = some t ∧
      serializeText .inc (printInc (r0 :: rs)).toArray t.toArray [] = some t := by
  have hl := no_lead_printed incF r0 rs nd oldRecs hrk hok hnd hfirst hohead
  obtain ⟨ht, hsafe, hagain⟩ := text_idempotent incF SafeIncV (r0 :: rs) oldRecs nd hold hrk hok hnd hv false hl
  rw [printF_inc _ (fun r hr => (hsafe r hr).2)] at ht
  simp only [Bool.false_eq_true, if_false, List.nil_append] at ht
  rw [reparsed_false] at hagain
  refine ⟨serializeOut (entsF incF (r0 :: rs)) (entsF incF oldRecs) nd, ?_, ?_⟩
  · unfold serializeText
    rw [walkEnts_printed_inc (r0 :: rs) href, walkEnts_printed_inc oldRecs hold]
  · unfold serializeText
    rw [walkEnts_printed_inc (r0 :: rs) href]
    conv => lhs; rw [ht]
    rw [walkEnts_printed_inc _ hsafe]
    simp only
    rw [hagain]

end C16G

/- `mozpath.match`: the tokenising regex analysed position by position (`moz_hit`), the lexer `mozLex` and the
   theorem that the cached regular expression is the translation of the lexer's token list, for every pattern text. -/
import CLModel.Paths.Matcher
import CLModel.Proofs.C12Scan
namespace C12M
open Rx PM C12S

inductive MTok where
  | chr (c : Nat) | star | dirs | below | all
  deriving Repr, DecidableEq

/-- what the tokenising regex of `mozpath.match` finds at a position -/
inductive Kind where
  | slashDirs   -- "/**/"
  | below       -- "/**" at the end (`$`: also before a final newline)
  | startDirs   -- "**/" at position 0
  | all         -- "**" at position 0 and at the end
  | star        -- "*"
  deriving Repr, DecidableEq

/-- `$` (not MULTILINE) right here: the end, or a newline that ends the text -/
def endHere (r : Text) : Bool := r == [] || r == [10]

def mozLocal (atStart : Bool) (suf : Text) : Option Kind :=
  if [47, 42, 42, 47].isPrefixOf suf then some .slashDirs
  else if [47, 42, 42].isPrefixOf suf && endHere (suf.drop 3) then some .below
  else if atStart && [42, 42, 47].isPrefixOf suf then some .startDirs
  else if atStart && [42, 42].isPrefixOf suf && endHere (suf.drop 2) then some .all
  else if [42].isPrefixOf suf then some .star
  else none

def Kind.len : Kind → Nat
  | .slashDirs => 4 | .below => 3 | .startDirs => 3 | .all => 2 | .star => 1

def Kind.toks : Kind → List MTok
  | .slashDirs => [.chr 47, .dirs] | .below => [.below] | .startDirs => [.dirs] | .all => [.all] | .star => [.star]

/-- the final state of the tokenising regex for a match of that kind at `p` -/
def Kind.st (p : Nat) : Kind → St
  | .slashDirs => ⟨p + 4, [(2, p + 3, p + 4), (1, p, p + 1)]⟩
  | .below => ⟨p + 3, [(2, p + 3, p + 3), (1, p, p + 1)]⟩
  | .startDirs => ⟨p + 3, [(2, p + 2, p + 3), (1, p, p)]⟩
  | .all => ⟨p + 2, [(2, p + 2, p + 2), (1, p, p)]⟩
  | .star => ⟨p + 1, [(3, p, p + 1)]⟩

theorem drop_getElem? (s : Array Nat) (p i : Nat) : (s.toList.drop p)[i]? = s[p + i]? := by
  simp [List.getElem?_drop]

theorem moz_hit (s : Array Nat) (p : Nat) (l : Text) (g : ∀ i, s[p + i]? = l[i]?) (hsz : s.size = p + l.length) :
    matchAt s Gen.Pat.mozpath_match_0 p = (mozLocal (p == 0) l).map (Kind.st p) := by
  have g0 := g 0
  have g1 := g 1
  have g2 := g 2
  have g3 := g 3
  simp only [Nat.add_zero] at g0
  match l, g0, g1, g2, g3, hsz with
  | [], g0, _, _, _, hsz =>
    simp at g0
    simp [matchAt, Gen.Pat.mozpath_match_0, m, mozLocal, g0, List.isPrefixOf]
  | c0 :: l1, g0, g1, g2, g3, hsz =>
    simp only [List.getElem?_cons_zero, List.getElem?_cons_succ] at g0 g1 g2 g3
    by_cases a0 : c0 = 47
    · subst a0
      match l1, g1, g2, g3, hsz with
      | [], g1, _, _, hsz =>
        simp at g1
        cases hb : (p == 0) <;>
          simp [matchAt, Gen.Pat.mozpath_match_0, m, mozLocal, g0, g1, List.isPrefixOf, hb]
      | c1 :: l2, g1, g2, g3, hsz =>
        simp only [List.getElem?_cons_zero, List.getElem?_cons_succ] at g1 g2 g3
        by_cases a1 : c1 = 42
        · subst a1
          match l2, g2, g3, hsz with
          | [], g2, _, hsz =>
            simp at g2
            cases hb : (p == 0) <;>
              simp [matchAt, Gen.Pat.mozpath_match_0, m, mozLocal, g0, g1, g2, List.isPrefixOf, hb]
          | c2 :: l3, g2, g3, hsz =>
            simp only [List.getElem?_cons_zero, List.getElem?_cons_succ] at g2 g3
            by_cases a2 : c2 = 42
            · subst a2
              match l3, g3, hsz with
              | [], g3, hsz =>
                simp at g3
                have e : (p + 3 == s.size) = true := by simp [hsz]
                cases hb : (p == 0) <;>
                  simp [matchAt, Gen.Pat.mozpath_match_0, m, mozLocal, g0, g1, g2, g3, List.isPrefixOf, endHere,
                    Kind.st, e, hb]
              | c3 :: l4, g3, hsz =>
                simp only [List.getElem?_cons_zero] at g3
                by_cases a3 : c3 = 47
                · subst a3
                  cases hb : (p == 0) <;>
                    simp [matchAt, Gen.Pat.mozpath_match_0, m, mozLocal, g0, g1, g2, g3, List.isPrefixOf, Kind.st, hb]
                · have a3' : ¬ 47 = c3 := fun e => a3 e.symm
                  have e1 : (p + 3 == s.size) = false := by simp [hsz] <;> omega
                  cases l4 with
                  | nil =>
                    have e2 : (p + 3 + 1 == s.size) = true := by simp [hsz]
                    by_cases a4 : c3 = 10
                    · subst a4
                      cases hb : (p == 0) <;>
                        simp [matchAt, Gen.Pat.mozpath_match_0, m, mozLocal, g0, g1, g2, g3, List.isPrefixOf, endHere,
                          Kind.st, e1, e2, hb]
                    · have a4' : ¬ 10 = c3 := fun e => a4 e.symm
                      cases hb : (p == 0) <;>
                        simp [matchAt, Gen.Pat.mozpath_match_0, m, mozLocal, g0, g1, g2, g3, List.isPrefixOf, endHere,
                          Kind.st, e1, e2, hb, a3, a3', a4, a4']
                  | cons c4 l5 =>
                    have e2 : (p + 3 + 1 == s.size) = false := by simp [hsz] <;> omega
                    cases hb : (p == 0) <;>
                      simp [matchAt, Gen.Pat.mozpath_match_0, m, mozLocal, g0, g1, g2, g3, List.isPrefixOf, endHere,
                        Kind.st, e1, e2, hb, a3, a3']
            · have a2' : ¬ 42 = c2 := fun e => a2 e.symm
              cases hb : (p == 0) <;>
                simp [matchAt, Gen.Pat.mozpath_match_0, m, mozLocal, g0, g1, g2, List.isPrefixOf, a2, a2', hb]
        · have a1' : ¬ 42 = c1 := fun e => a1 e.symm
          cases hb : (p == 0) <;>
            simp [matchAt, Gen.Pat.mozpath_match_0, m, mozLocal, g0, g1, List.isPrefixOf, a1, a1', hb]
    · have a0' : ¬ 47 = c0 := fun e => a0 e.symm
      by_cases b0 : c0 = 42
      · subst b0
        cases hb : (p == 0) with
        | false =>
          -- not at the start: only a single star can match here
          simp [matchAt, Gen.Pat.mozpath_match_0, m, mozLocal, g0, List.isPrefixOf, hb, Kind.st]
        | true =>
          match l1, g1, g2, g3, hsz with
          | [], g1, _, _, hsz =>
            simp at g1
            simp [matchAt, Gen.Pat.mozpath_match_0, m, mozLocal, g0, g1, List.isPrefixOf, hb, Kind.st]
          | c1 :: l2, g1, g2, g3, hsz =>
            simp only [List.getElem?_cons_zero, List.getElem?_cons_succ] at g1 g2 g3
            by_cases a1 : c1 = 42
            · subst a1
              match l2, g2, g3, hsz with
              | [], g2, _, hsz =>
                simp at g2
                have e : (p + 2 == s.size) = true := by simp [hsz]
                simp [matchAt, Gen.Pat.mozpath_match_0, m, mozLocal, g0, g1, g2, List.isPrefixOf, hb, Kind.st, endHere, e]
              | c2 :: l3, g2, g3, hsz =>
                simp only [List.getElem?_cons_zero, List.getElem?_cons_succ] at g2 g3
                have e1 : (p + 2 == s.size) = false := by simp [hsz] <;> omega
                by_cases a2 : c2 = 47
                · subst a2
                  simp [matchAt, Gen.Pat.mozpath_match_0, m, mozLocal, g0, g1, g2, List.isPrefixOf, hb, Kind.st]
                · have a2' : ¬ 47 = c2 := fun e => a2 e.symm
                  cases l3 with
                  | nil =>
                    have e2 : (p + 2 + 1 == s.size) = true := by simp [hsz]
                    by_cases a4 : c2 = 10
                    · subst a4
                      simp [matchAt, Gen.Pat.mozpath_match_0, m, mozLocal, g0, g1, g2, List.isPrefixOf, hb, Kind.st, endHere,
                        e1, e2]
                    · have a4' : ¬ 10 = c2 := fun e => a4 e.symm
                      simp [matchAt, Gen.Pat.mozpath_match_0, m, mozLocal, g0, g1, g2, List.isPrefixOf, hb, Kind.st, endHere,
                        e1, e2, a2, a2', a4, a4']
                  | cons c3 l4 =>
                    have e2 : (p + 2 + 1 == s.size) = false := by simp [hsz] <;> omega
                    simp [matchAt, Gen.Pat.mozpath_match_0, m, mozLocal, g0, g1, g2, List.isPrefixOf, hb, Kind.st, endHere,
                      e1, e2, a2, a2']
            · have a1' : ¬ 42 = c1 := fun e => a1 e.symm
              simp [matchAt, Gen.Pat.mozpath_match_0, m, mozLocal, g0, g1, List.isPrefixOf, hb, Kind.st, a1, a1']
      · have b0' : ¬ 42 = c0 := fun e => b0 e.symm
        cases hb : (p == 0) <;>
          simp [matchAt, Gen.Pat.mozpath_match_0, m, mozLocal, g0, List.isPrefixOf, hb, a0, a0', b0, b0']


/-- the lexer: what `mozpath.match` makes of a pattern text (`f` = fuel ≥ length of the text) -/
def mozLexF : Nat → Bool → Text → List MTok
  | 0, _, _ => []
  | _ + 1, _, [] => []
  | f + 1, atStart, c :: cs =>
    match mozLocal atStart (c :: cs) with
    | some k => k.toks ++ mozLexF f false ((c :: cs).drop k.len)
    | none => .chr c :: mozLexF f false cs

def mozLex (pat : Text) : List MTok := mozLexF pat.length true pat

def MTok.items : MTok → List Re
  | .chr c => [Re.lit c]
  | .star => [Gen.Pat.mozpath_frag_star]
  | .dirs => [Re.alt (seqOf [Gen.Pat.mozpath_frag_anyplus, Re.lit 47]) Re.eps]
  | .below => [Re.alt (seqOf [Re.lit 47, Gen.Pat.mozpath_frag_anyplus]) Re.eps]
  | .all => [Re.alt Gen.Pat.mozpath_frag_anyplus Re.eps]

def mozItems (ts : List MTok) : List Re := ts.flatMap MTok.items

theorem mozItems_append (a b : List MTok) : mozItems (a ++ b) = mozItems a ++ mozItems b := by
  simp [mozItems]

theorem slice_eq (s : Array Nat) (a b : Nat) : slice s a b = (s.toList.drop a).take (b - a) := by
  simp [slice, List.take_drop]

/-- what the text looks like where a token of that kind was found -/
theorem local_shape {b : Bool} {l : Text} {k : Kind} (h : mozLocal b l = some k) :
    match k with
    | .slashDirs => ∃ r, l = 47 :: 42 :: 42 :: 47 :: r
    | .below => l = [47, 42, 42] ∨ l = [47, 42, 42, 10]
    | .startDirs => b = true ∧ ∃ r, l = 42 :: 42 :: 47 :: r
    | .all => b = true ∧ (l = [42, 42] ∨ l = [42, 42, 10])
    | .star => ∃ r, l = 42 :: r := by
  have pre : ∀ {x l : Text}, x.isPrefixOf l = true → ∃ r, l = x ++ r := by
    intro x l h
    obtain ⟨r, hr⟩ := List.isPrefixOf_iff_prefix.mp h
    exact ⟨r, hr.symm⟩
  unfold mozLocal at h
  split at h
  · rename_i h1
    cases h
    obtain ⟨r, rfl⟩ := pre h1
    exact ⟨r, rfl⟩
  · split at h
    · rename_i h1
      cases h
      simp only [Bool.and_eq_true] at h1
      obtain ⟨h1, h2⟩ := h1
      obtain ⟨r, rfl⟩ := pre h1
      simp [endHere] at h2
      rcases h2 with rfl | rfl
      · left; rfl
      · right; rfl
    · split at h
      · rename_i h1
        cases h
        simp only [Bool.and_eq_true] at h1
        obtain ⟨h1, h2⟩ := h1
        obtain ⟨r, rfl⟩ := pre h2
        exact ⟨h1, r, rfl⟩
      · split at h
        · rename_i h1
          cases h
          simp only [Bool.and_eq_true] at h1
          obtain ⟨⟨h0, h1⟩, h2⟩ := h1
          obtain ⟨r, rfl⟩ := pre h1
          simp [endHere] at h2
          refine ⟨h0, ?_⟩
          rcases h2 with rfl | rfl
          · left; rfl
          · right; rfl
        · split at h
          · rename_i h1
            cases h
            obtain ⟨r, rfl⟩ := pre h1
            exact ⟨r, rfl⟩
          · cases h

theorem kind_len_le {b : Bool} {l : Text} {k : Kind} (h : mozLocal b l = some k) : k.len ≤ l.length ∧ 0 < k.len := by
  have := local_shape h
  cases k <;> simp only at this
  · obtain ⟨r, rfl⟩ := this; simp [Kind.len]
  · rcases this with rfl | rfl <;> simp [Kind.len]
  · obtain ⟨_, r, rfl⟩ := this; simp [Kind.len]
  · obtain ⟨_, rfl | rfl⟩ := this <;> simp [Kind.len]
  · obtain ⟨r, rfl⟩ := this; simp [Kind.len]

/-- one step of the loop of `mozpath.match` on a match of kind `k` at `p` -/
theorem mozStep_kind (ps : Array Nat) (p : Nat) {k : Kind} (h : mozLocal (p == 0) (ps.toList.drop p) = some k)
    (items : List Re) (last : Nat) :
    mozStep ps (items, last) p (k.st p) =
      .ok ((if p > last then items ++ (slice ps last p).map Re.lit else items) ++ mozItems k.toks, p + k.len) := by
  have hs := local_shape h
  have e1 : ∀ n, slice ps p (p + n) = (ps.toList.drop p).take n := by
    intro n; rw [slice_eq]; congr 1; omega
  have e2 : ∀ a n, slice ps (p + a) (p + a + n) = ((ps.toList.drop p).drop a).take n := by
    intro a n; rw [slice_eq, List.drop_drop]; congr 1; omega
  cases k <;> simp only at hs
  · obtain ⟨r, hl⟩ := hs
    have g1 : slice ps p (p + 1) = [47] := by rw [e1, hl]; rfl
    have g2 : slice ps (p + 3) (p + 4) = [47] := by rw [e2 3 1, hl]; rfl
    simp [mozStep, groupText, St.group, capOf, Kind.st, Gen.Pat.mozpath_match_0_g_star, truthy, g1, g2, mozItems, MTok.items,
      Kind.toks, Kind.len, bind, Except.bind, pure, Except.pure]
  · have g1 : slice ps p (p + 1) = [47] := by rw [e1]; rcases hs with hl | hl <;> rw [hl] <;> rfl
    have g2 : slice ps (p + 3) (p + 3) = [] := by rw [slice_eq]; simp
    simp [mozStep, groupText, St.group, capOf, Kind.st, Gen.Pat.mozpath_match_0_g_star, truthy, g1, g2, mozItems, MTok.items,
      Kind.toks, Kind.len, bind, Except.bind, pure, Except.pure]
  · obtain ⟨_, r, hl⟩ := hs
    have g1 : slice ps p p = [] := by rw [slice_eq]; simp
    have g2 : slice ps (p + 2) (p + 3) = [47] := by rw [e2 2 1, hl]; rfl
    simp [mozStep, groupText, St.group, capOf, Kind.st, Gen.Pat.mozpath_match_0_g_star, truthy, g1, g2, mozItems, MTok.items,
      Kind.toks, Kind.len, bind, Except.bind, pure, Except.pure]
  · have g1 : slice ps p p = [] := by rw [slice_eq]; simp
    have g2 : slice ps (p + 2) (p + 2) = [] := by rw [slice_eq]; simp
    simp [mozStep, groupText, St.group, capOf, Kind.st, Gen.Pat.mozpath_match_0_g_star, truthy, g1, g2, mozItems, MTok.items,
      Kind.toks, Kind.len, bind, Except.bind, pure, Except.pure, seqOf]
  · obtain ⟨r, hl⟩ := hs
    have g1 : slice ps p (p + 1) = [42] := by rw [e1, hl]; rfl
    simp [mozStep, groupText, St.group, capOf, Kind.st, Gen.Pat.mozpath_match_0_g_star, truthy, g1, mozItems, MTok.items,
      Kind.toks, Kind.len, bind, Except.bind, pure, Except.pure]

theorem mozLexF_fuel : ∀ (n : Nat) (f f' : Nat) (b : Bool) (l : Text), l.length ≤ n → l.length ≤ f → l.length ≤ f' →
    mozLexF f b l = mozLexF f' b l
  | _, 0, 0, _, _, _, _, _ => rfl
  | _, 0, f' + 1, b, l, _, h, _ => by
    have : l = [] := by cases l <;> simp_all
    subst this; rfl
  | _, f + 1, 0, b, l, _, _, h => by
    have : l = [] := by cases l <;> simp_all
    subst this; rfl
  | _, f + 1, f' + 1, b, [], _, _, _ => rfl
  | 0, f + 1, f' + 1, b, c :: cs, h, _, _ => by simp at h
  | n + 1, f + 1, f' + 1, b, c :: cs, hn, h, h' => by
    simp only [mozLexF]
    cases hk : mozLocal b (c :: cs) with
    | none =>
      simp only
      rw [mozLexF_fuel n f f' false cs (by simpa using hn) (by simpa using h) (by simpa using h')]
    | some k =>
      simp only
      have hl := kind_len_le hk
      have hd : ((c :: cs).drop k.len).length ≤ n := by
        simp only [List.length_drop, List.length_cons] at hn hl ⊢; omega
      rw [mozLexF_fuel n f f' false _ hd (by simp only [List.length_drop, List.length_cons] at h hl ⊢; omega)
        (by simp only [List.length_drop, List.length_cons] at h' hl ⊢; omega)]

theorem minLen_moz : 1 ≤ minLen Gen.Pat.mozpath_match_0 := by decide

theorem kind_st_pos (p : Nat) (k : Kind) : (k.st p).pos = p + k.len := by cases k <;> rfl

theorem slice_succ (ps : Array Nat) {last p c : Nat} (h1 : last ≤ p) (hc : ps[p]? = some c) :
    slice ps last (p + 1) = slice ps last p ++ [c] := by
  rw [slice_eq, slice_eq]
  have e : p + 1 - last = (p - last) + 1 := by omega
  rw [e, List.take_succ]
  congr 1
  rw [List.getElem?_drop]
  have : last + (p - last) = p := by omega
  rw [this]
  have : ps.toList[p]? = some c := by simpa using hc
  rw [this]; rfl

/-- the end of `mozpath.match`'s translation: the rest of the pattern text, then the tail -/
def finish (ps : Array Nat) (acc : List Re × Nat) : Re :=
  seqOf (acc.1 ++ (slice ps acc.2 ps.size).map Re.lit ++ [Gen.Pat.mozpath_frag_tail])

theorem mozLoop_scan (ps : Array Nat) : ∀ (f p : Nat) (items : List Re) (last : Nat), p ≤ ps.size → last ≤ p →
    ps.size + 1 - p ≤ f →
    (mozLoop ps (scanPos ps Gen.Pat.mozpath_match_0 f p) (items, last)).map (finish ps) =
      .ok (seqOf (items ++ (slice ps last p).map Re.lit ++
        mozItems (mozLexF (ps.size - p) (p == 0) (ps.toList.drop p)) ++ [Gen.Pat.mozpath_frag_tail]))
  | 0, p, _, _, hp, _, hf => by omega
  | f + 1, p, items, last, hp, hl, hf => by
    have hhit := moz_hit ps p (ps.toList.drop p) (fun i => (drop_getElem? ps p i).symm) (by simp; omega)
    simp only [scanPos, show ¬ p > ps.size by omega, if_false, hhit]
    cases hk : mozLocal (p == 0) (ps.toList.drop p) with
    | none =>
      simp only [Option.map_none]
      by_cases hend : p = ps.size
      · subst hend
        have hd : ps.toList.drop ps.size = [] := List.drop_eq_nil_of_le (by simp)
        rw [scanPos_beyond _ _ _ _ (by omega)]
        simp only [mozLoop, pure, Except.pure, Except.map, finish, hd, Nat.sub_self]
        cases ps.size <;> simp [mozLexF, mozItems]
      · have hlt : p < ps.size := by omega
        have hc : ∃ c, ps[p]? = some c := ⟨ps[p], by simp [hlt]⟩
        obtain ⟨c, hc⟩ := hc
        have hd : ps.toList.drop p = c :: ps.toList.drop (p + 1) := by
          have hlt' : p < ps.toList.length := by simpa using hlt
          rw [List.drop_eq_getElem_cons hlt']
          congr 1
          have : ps.toList[p]? = some c := by simpa using hc
          rw [List.getElem?_eq_getElem hlt'] at this
          simpa using this
        have ih := mozLoop_scan ps f (p + 1) items last (by omega) (by omega) (by omega)
        rw [ih]
        have e : ps.size - p = (ps.size - (p + 1)) + 1 := by omega
        rw [hd] at hk
        rw [hd, e]
        simp only [mozLexF, hk, slice_succ ps hl hc, List.map_append, List.map_cons, List.map_nil]
        have : (p + 1 == 0) = false := by simp
        simp [this, mozItems, MTok.items, List.append_assoc]
    | some k =>
      simp only [Option.map_some, kind_st_pos]
      have hlen := kind_len_le hk
      simp only [List.length_drop, Array.length_toList] at hlen
      simp only [mozLoop, mozStep_kind ps p hk, bind, Except.bind]
      have ih := mozLoop_scan ps f (p + k.len)
        ((if p > last then items ++ (slice ps last p).map Re.lit else items) ++ mozItems k.toks) (p + k.len)
        (by omega) (Nat.le_refl _) (by omega)
      rw [ih]
      have hs0 : slice ps (p + k.len) (p + k.len) = [] := by rw [slice_eq]; simp
      have hz : (p + k.len == 0) = false := by simp; omega
      have hslice : (if p > last then items ++ (slice ps last p).map Re.lit else items) = items ++ (slice ps last p).map Re.lit := by
        split
        · rfl
        · have : p = last := by omega
          subst this
          have : slice ps p p = [] := by rw [slice_eq]; simp
          simp [this]
      -- unfold the lexer once
      obtain ⟨c, cs, hd⟩ : ∃ c cs, ps.toList.drop p = c :: cs := by
        cases hd : ps.toList.drop p with
        | nil => rw [hd] at hk; simp [mozLocal, List.isPrefixOf] at hk
        | cons c cs => exact ⟨c, cs, rfl⟩
      have e : ps.size - p = (ps.size - p - 1) + 1 := by omega
      rw [hs0, hz, hslice, e, hd]
      rw [hd] at hk
      simp only [mozLexF, hk, mozItems_append, List.map_nil, List.append_nil]
      have hdd : (c :: cs).drop k.len = ps.toList.drop (p + k.len) := by
        rw [← hd, List.drop_drop]
      rw [hdd, mozLexF_fuel (ps.size - (p + k.len)) (ps.size - p - 1) (ps.size - (p + k.len)) false _
        (by simp) (by simp; omega) (by simp)]
      simp [List.append_assoc]

/-- **`mozpath.match` translates the token list of the lexer**: for every pattern text the regular expression it
    caches is the translation of `mozLex pattern`, followed by the "or anything below" tail -/
theorem mozRegex_lex (pat : Text) :
    mozRegex pat = .ok (seqOf (mozItems (mozLex pat) ++ [Gen.Pat.mozpath_frag_tail])) := by
  have hne : NonEmpty pat.toArray Gen.Pat.mozpath_match_0 := nonEmpty_of_minLen minLen_moz
  have h := mozLoop_scan pat.toArray (pat.toArray.size + 1) 0 [] 0 (by omega) (Nat.le_refl _) (by omega)
  rw [← finditer_scan _ _ hne] at h
  unfold mozRegex
  simp only [bind, Except.bind]
  cases hl : mozLoop pat.toArray (finditer pat.toArray Gen.Pat.mozpath_match_0) ([], 0) with
  | error e => rw [hl] at h; simp [Except.map] at h
  | ok acc =>
    rw [hl] at h
    obtain ⟨items, last⟩ := acc
    simp only [Except.map, Except.ok.injEq, finish] at h
    simp only [pure, Except.pure]
    rw [h]
    have : slice pat.toArray 0 0 = [] := by rw [slice_eq]; simp
    simp [this, mozLex]

end C12M

/-
C01 round 4 (complexity guard, part 2): a decidable syntactic criterion under which the body of a
repeat has AT MOST ONE outcome from every state (`Single`), and its soundness for `ends`.

The criterion knows four reasons for "at most one outcome":
  * one-character tests, anchors, back-references, look-arounds;
  * a sequence of such things;
  * an alternation whose branches start with disjoint one-character tests (`\\[\\trn"]|[^"\n\\]`);
  * an optional prefix whose first character cannot start what follows (`-?[^-]`);
  * a DELIMITED run: `x*` (any bounds, greedy or lazy) of a one-character test `x` followed by
    something that starts with a character outside `x` (`[^\n]*\n`, `.*?\n`): only the end of the
    run can continue.
A repeat (`x*`, `x+`, `x{a,b}`) that is not delimited in this way is never `Single`.
-/
import CLModel.Proofs.C01Ends
namespace C01P
open Rx

/-! ### one-character tests and first characters -/

def atomHas : Re → Nat → Bool
  | .lit c, d => d == c
  | .notLit c, d => d != c
  | .any dotall, d => dotall || d != 10
  | .cls neg items, d => (items.any (·.has d)) != neg
  | _, _ => false

def isAtom : Re → Bool
  | .lit _ | .notLit _ | .any _ | .cls _ _ => true
  | _ => false

def zeroWidth : Re → Bool
  | .eps | .bol _ | .eol _ | .eos => true
  | _ => false

/-- the one-character test every match of `r` starts with, when the syntax shows one -/
def firstAtom : Re → Option Re
  | .lit c => some (.lit c)
  | .notLit c => some (.notLit c)
  | .any d => some (.any d)
  | .cls n i => some (.cls n i)
  | .group _ r => firstAtom r
  | .seq a b =>
    match firstAtom a with
    | some x => some x
    | none => if zeroWidth a then firstAtom b else none
  | .rep mn _ _ r => if mn > 0 then firstAtom r else none
  | _ => none

def litOf : Re → Option Nat
  | .lit c => some c
  | _ => none

/-- sound, incomplete disjointness of two one-character tests: one of them is a literal that the other rejects -/
def atomDisj (x y : Re) : Bool :=
  match litOf x with
  | some c => !atomHas y c
  | none =>
    match litOf y with
    | some c => !atomHas x c
    | none => false

def disjFirst (a b : Re) : Bool :=
  match firstAtom a, firstAtom b with
  | some x, some y => atomDisj x y
  | _, _ => false

def disjAtomFirst (x b : Re) : Bool :=
  match firstAtom b with
  | some y => atomDisj x y
  | none => false

/-- at most one outcome from every state (syntactic, sufficient) -/
def Single : Re → Bool
  | .eps | .lit _ | .notLit _ | .any _ | .cls _ _ | .backref _ | .bol _ | .eol _ | .eos | .look _ _ _ => true
  | .group _ r => Single r
  | .alt a b => Single a && Single b && disjFirst a b
  | .seq (.alt a1 .eps) b => Single a1 && Single b && disjFirst a1 b
  | .seq (.rep _ _ _ x) b => isAtom x && Single b && disjAtomFirst x b
  | .seq a b => Single a && Single b
  | .rep _ _ _ _ => false

/-- every repeat in `r` has a `Single` body -/
def Safe : Re → Bool
  | .eps | .lit _ | .notLit _ | .any _ | .cls _ _ | .backref _ | .bol _ | .eol _ | .eos => true
  | .seq a b => Safe a && Safe b
  | .alt a b => Safe a && Safe b
  | .group _ r => Safe r
  | .look _ _ r => Safe r
  | .rep _ _ _ r => Single r && Safe r

/-! ### semantics of the pieces -/

theorem atom_ends (s : Array Nat) (x : Re) (hx : isAtom x = true) (st : St) :
    ends s x st =
      match s[st.pos]? with
      | some c => if atomHas x c then [{ st with pos := st.pos + 1 }] else []
      | none => [] := by
  cases x <;> simp only [isAtom, Bool.false_eq_true] at hx <;> simp only [ends, atomHas]
  · rename_i c
    cases s[st.pos]? with
    | none => simp
    | some d => by_cases h : d = c <;> simp [h]
  all_goals rfl

theorem atomDisj_sound {x y : Re} (h : atomDisj x y = true) {d : Nat}
    (hx : atomHas x d = true) (hy : atomHas y d = true) : False := by
  unfold atomDisj at h
  cases hlx : litOf x with
  | some c =>
    rw [hlx] at h
    cases x <;> simp only [litOf, Option.some.injEq] at hlx <;> try cases hlx
    simp only [atomHas, beq_iff_eq] at hx
    subst hx
    simp [hy] at h
  | none =>
    rw [hlx] at h
    cases hly : litOf y with
    | some c =>
      rw [hly] at h
      cases y <;> simp only [litOf, Option.some.injEq] at hly <;> try cases hly
      simp only [atomHas, beq_iff_eq] at hy
      subst hy
      simp [hx] at h
    | none => rw [hly] at h; cases h

theorem zeroWidth_ends {s : Array Nat} {a : Re} (h : zeroWidth a = true) {st st' : St}
    (hm : st' ∈ ends s a st) : st' = st := by
  cases a <;> simp only [zeroWidth, Bool.false_eq_true] at h <;> simp only [ends] at hm
  · simpa using hm
  · split at hm <;> simp_all
  · split at hm <;> simp_all
  · split at hm <;> simp_all

theorem loopE_pos_mem (body : St → List St) (g : Bool) :
    ∀ fuel mn mx st st', 0 < mn → st' ∈ loopE body g fuel mn mx st →
      ∃ st1 ∈ body st, True := by
  intro fuel
  cases fuel with
  | zero => intro mn mx st st' _ h; simp [loopE] at h
  | succ fuel =>
    intro mn mx st st' hmn h
    simp only [loopE, hmn, if_true] at h
    split at h
    · cases h
    · obtain ⟨st1, h1, _⟩ := List.mem_flatMap.mp h
      exact ⟨st1, h1, trivial⟩

/-- every match of `r` starts with a character accepted by `firstAtom r` -/
theorem firstAtom_sound (s : Array Nat) : ∀ (r x : Re), firstAtom r = some x → ∀ st st', st' ∈ ends s r st →
    ∃ c, s[st.pos]? = some c ∧ atomHas x c = true := by
  intro r
  induction r with
  | eps | backref _ | bol _ | eol _ | eos | look _ _ _ _ | alt _ _ _ _ =>
    intro x h; simp [firstAtom] at h
  | lit c =>
    intro x h st st' hm
    simp only [firstAtom, Option.some.injEq] at h
    subst h
    rw [atom_ends s _ rfl] at hm
    cases hs : s[st.pos]? with
    | none => simp [hs] at hm
    | some d =>
      rw [hs] at hm
      simp only at hm
      split at hm
      · rename_i hh; exact ⟨d, rfl, hh⟩
      · cases hm
  | notLit c =>
    intro x h st st' hm
    simp only [firstAtom, Option.some.injEq] at h
    subst h
    rw [atom_ends s _ rfl] at hm
    cases hs : s[st.pos]? with
    | none => simp [hs] at hm
    | some d =>
      rw [hs] at hm
      simp only at hm
      split at hm
      · rename_i hh; exact ⟨d, rfl, hh⟩
      · cases hm
  | any da =>
    intro x h st st' hm
    simp only [firstAtom, Option.some.injEq] at h
    subst h
    rw [atom_ends s _ rfl] at hm
    cases hs : s[st.pos]? with
    | none => simp [hs] at hm
    | some d =>
      rw [hs] at hm
      simp only at hm
      split at hm
      · rename_i hh; exact ⟨d, rfl, hh⟩
      · cases hm
  | cls neg items =>
    intro x h st st' hm
    simp only [firstAtom, Option.some.injEq] at h
    subst h
    rw [atom_ends s _ rfl] at hm
    cases hs : s[st.pos]? with
    | none => simp [hs] at hm
    | some d =>
      rw [hs] at hm
      simp only at hm
      split at hm
      · rename_i hh; exact ⟨d, rfl, hh⟩
      · cases hm
  | group i r ih =>
    intro x h st st' hm
    simp only [firstAtom] at h
    simp only [ends, List.mem_map] at hm
    obtain ⟨st1, h1, _⟩ := hm
    exact ih x h st st1 h1
  | seq a b iha ihb =>
    intro x h st st' hm
    simp only [ends, List.mem_flatMap] at hm
    obtain ⟨st1, h1, h2⟩ := hm
    simp only [firstAtom] at h
    cases hfa : firstAtom a with
    | some y =>
      rw [hfa] at h
      simp only [Option.some.injEq] at h
      subst h
      exact iha y hfa st st1 h1
    | none =>
      rw [hfa] at h
      simp only at h
      split at h
      · rename_i hz
        have := zeroWidth_ends hz h1
        subst this
        exact ihb x h _ st' h2
      · cases h
  | rep mn mx g r ih =>
    intro x h st st' hm
    simp only [firstAtom] at h
    split at h
    · rename_i hmn
      simp only [ends] at hm
      obtain ⟨st1, h1, _⟩ := loopE_pos_mem _ g _ mn mx st st' hmn hm
      exact ih x h st st1 h1
    · cases h

end C01P

namespace C01P
open Rx

/-! ### list lemmas -/

theorem flatMap_length_le {α β} (l : List α) (f : α → List β) (k : Nat)
    (h : ∀ x ∈ l, (f x).length ≤ k) : (l.flatMap f).length ≤ l.length * k := by
  induction l with
  | nil => simp
  | cons x xs ih =>
    have h1 := h x (List.mem_cons_self ..)
    have h2 := ih (fun y hy => h y (List.mem_cons_of_mem _ hy))
    simp only [List.flatMap_cons, List.length_append, List.length_cons, Nat.succ_mul]
    omega

theorem sum_map_le {α} (l : List α) (f : α → Nat) (k : Nat)
    (h : ∀ x ∈ l, f x ≤ k) : (l.map f).sum ≤ l.length * k := by
  induction l with
  | nil => simp
  | cons x xs ih =>
    have h1 := h x (List.mem_cons_self ..)
    have h2 := ih (fun y hy => h y (List.mem_cons_of_mem _ hy))
    simp only [List.map_cons, List.sum_cons, List.length_cons, Nat.succ_mul]
    omega

theorem flatMap_nil_of_all {α β} (l : List α) (f : α → List β) (h : ∀ x ∈ l, f x = []) :
    l.flatMap f = [] := by
  induction l with
  | nil => rfl
  | cons x xs ih =>
    simp only [List.flatMap_cons, h x (List.mem_cons_self ..), List.nil_append]
    exact ih (fun y hy => h y (List.mem_cons_of_mem _ hy))

/-- if no two elements can both continue and each continues in at most one way, the whole
    list continues in at most one way -/
theorem flatMap_le_one {α β} (l : List α) (f : α → List β)
    (hp : l.Pairwise (fun a b => f a = [] ∨ f b = [])) (h1 : ∀ x ∈ l, (f x).length ≤ 1) :
    (l.flatMap f).length ≤ 1 := by
  induction l with
  | nil => simp
  | cons x xs ih =>
    rw [List.pairwise_cons] at hp
    simp only [List.flatMap_cons, List.length_append]
    by_cases hx : f x = []
    · rw [hx]
      have := ih hp.2 (fun y hy => h1 y (List.mem_cons_of_mem _ hy))
      simpa using this
    · have : xs.flatMap f = [] :=
        flatMap_nil_of_all xs f (fun y hy => (hp.1 y hy).resolve_left hx)
      rw [this]
      simpa using h1 x (List.mem_cons_self ..)

theorem length_le_one_of_le_one {α β} (l : List α) (f : α → List β) (hl : l.length ≤ 1)
    (h1 : ∀ x ∈ l, (f x).length ≤ 1) : (l.flatMap f).length ≤ 1 := by
  have := flatMap_length_le l f 1 h1
  omega

/-! ### a run of a one-character test -/

/-- what the outcomes `L` of a repeat of a one-character test `x` from `st` look like: pairwise
    different positions, each at or after `st`, with only `x`-characters in between -/
def RunOut (s : Array Nat) (x : Re) (st : St) (L : List St) : Prop :=
  L.Pairwise (fun a b => a.pos ≠ b.pos) ∧
  ∀ st' ∈ L, st.pos ≤ st'.pos ∧ ∀ p, st.pos ≤ p → p < st'.pos → ∃ c, s[p]? = some c ∧ atomHas x c = true

theorem loopE_atom (s : Array Nat) (x : Re) (hx : isAtom x = true) (g : Bool) :
    ∀ fuel mn mx st, RunOut s x st (loopE (fun st' => ends s x st') g fuel mn mx st) := by
  intro fuel
  induction fuel with
  | zero => intro mn mx st; exact ⟨by simp [loopE], by simp [loopE]⟩
  | succ fuel ih =>
    intro mn mx st
    -- the outcomes of further iterations
    have hmore : ∀ more : List St,
        more = (if mx == some 0 then [] else
          (ends s x st).flatMap (fun st' =>
            if st'.pos ≤ st.pos then [] else loopE (fun st' => ends s x st') g fuel (mn - 1) (mx.map (· - 1)) st')) →
        RunOut s x st more ∧ ∀ st' ∈ more, st.pos < st'.pos := by
      intro more hdef
      subst hdef
      split
      · exact ⟨⟨by simp, by simp⟩, by simp⟩
      · rw [atom_ends s x hx]
        cases hs : s[st.pos]? with
        | none => exact ⟨⟨by simp, by simp⟩, by simp⟩
        | some c =>
          simp only
          split
          · rename_i hc
            simp only [List.flatMap_cons, List.flatMap_nil, List.append_nil]
            have hlt : ¬ (st.pos + 1 ≤ st.pos) := by omega
            simp only [hlt, if_false]
            obtain ⟨hp, hr⟩ := ih (mn - 1) (mx.map (· - 1)) { st with pos := st.pos + 1 }
            refine ⟨⟨hp, ?_⟩, ?_⟩
            · intro st' hm
              obtain ⟨h1, h2⟩ := hr st' hm
              simp only at h1 h2
              refine ⟨by omega, fun p hp1 hp2 => ?_⟩
              by_cases hpe : p = st.pos
              · subst hpe; exact ⟨c, hs, hc⟩
              · exact h2 p (by omega) hp2
            · intro st' hm
              have := (hr st' hm).1
              simp only at this
              omega
          · exact ⟨⟨by simp, by simp⟩, by simp⟩
    obtain ⟨⟨hp, hr⟩, hlt⟩ := hmore _ rfl
    simp only [loopE]
    split
    · exact ⟨hp, hr⟩
    · split
      · refine ⟨?_, ?_⟩
        · rw [List.pairwise_append]
          refine ⟨hp, by simp, ?_⟩
          intro a ha b hb
          simp only [List.mem_singleton] at hb
          subst hb
          have := hlt a ha
          omega
        · intro st' hm
          rcases List.mem_append.mp hm with hm | hm
          · exact hr st' hm
          · simp only [List.mem_singleton] at hm
            subst hm
            exact ⟨Nat.le_refl _, fun p h1 h2 => by omega⟩
      · refine ⟨?_, ?_⟩
        · rw [List.pairwise_cons]
          refine ⟨?_, hp⟩
          intro a ha
          have := hlt a ha
          omega
        · intro st' hm
          rcases List.mem_cons.mp hm with hm | hm
          · subst hm
            exact ⟨Nat.le_refl _, fun p h1 h2 => by omega⟩
          · exact hr st' hm

/-- a delimited run continues in at most one way -/
theorem delim_le_one (s : Array Nat) (x y : Re) (hd : atomDisj x y = true) (st : St) (L : List St)
    (hL : RunOut s x st L) (f : St → List St)
    (hf1 : ∀ st', (f st').length ≤ 1)
    (hfy : ∀ st' st'', st'' ∈ f st' → ∃ c, s[st'.pos]? = some c ∧ atomHas y c = true) :
    (L.flatMap f).length ≤ 1 := by
  refine flatMap_le_one L f ?_ (fun st' _ => hf1 st')
  obtain ⟨hp, hr⟩ := hL
  refine List.Pairwise.imp_of_mem ?_ hp
  intro a b ha hb hne
  -- the one with the smaller position sits on an `x` character, so nothing that starts with `y` follows it
  have key : ∀ a b : St, a ∈ L → b ∈ L → a.pos < b.pos → f a = [] := by
    intro a b ha hb hlt
    cases hfa : f a with
    | nil => rfl
    | cons z zs =>
      exfalso
      obtain ⟨c, hc1, hc2⟩ := hfy a z (by rw [hfa]; exact List.mem_cons_self ..)
      obtain ⟨c', hc1', hc2'⟩ := (hr b hb).2 a.pos (hr a ha).1 hlt
      rw [hc1] at hc1'
      cases hc1'
      exact atomDisj_sound hd hc2' hc2
  rcases Nat.lt_or_gt_of_ne hne with h | h
  · exact Or.inl (key a b ha hb h)
  · exact Or.inr (key b a hb ha h)

end C01P

namespace C01P
open Rx

theorem atom_len_le_one (s : Array Nat) (x : Re) (hx : isAtom x = true) (st : St) :
    (ends s x st).length ≤ 1 := by
  rw [atom_ends s x hx]
  split
  · split <;> simp
  · simp

/-- `Single` is sound: at most one outcome from every state -/
theorem Single_sound (s : Array Nat) : ∀ r, Single r = true → ∀ st, (ends s r st).length ≤ 1 := by
  intro r
  induction r using Single.induct with
  | case1 => intro _ st; simp [ends]
  | case2 c => intro _ st; exact atom_len_le_one s _ rfl st
  | case3 c => intro _ st; exact atom_len_le_one s _ rfl st
  | case4 d => intro _ st; exact atom_len_le_one s _ rfl st
  | case5 n i => intro _ st; exact atom_len_le_one s _ rfl st
  | case6 i =>
    intro _ st
    simp only [ends]
    split
    · split <;> simp
    · simp
  | case7 ml => intro _ st; simp only [ends]; split <;> simp
  | case8 ml => intro _ st; simp only [ends]; split <;> simp
  | case9 => intro _ st; simp only [ends]; split <;> simp
  | case10 ahead neg r =>
    intro _ st
    cases ahead <;> simp only [ends] <;> split <;> split <;> simp
  | case11 i r ih =>
    intro h st
    simp only [Single] at h
    simpa [ends] using ih h st
  | case12 a b iha ihb =>
    intro h st
    simp only [Single, Bool.and_eq_true] at h
    obtain ⟨⟨ha, hb⟩, hd⟩ := h
    simp only [ends, List.length_append]
    have h1 := iha ha st
    have h2 := ihb hb st
    -- both branches cannot succeed: their first characters are disjoint
    unfold disjFirst at hd
    cases hfa : firstAtom a with
    | none => rw [hfa] at hd; cases hd
    | some x =>
      cases hfb : firstAtom b with
      | none => rw [hfa, hfb] at hd; cases hd
      | some y =>
        rw [hfa, hfb] at hd
        simp only at hd
        cases hea : ends s a st with
        | nil => simp; exact h2
        | cons z zs =>
          cases heb : ends s b st with
          | nil => rw [hea] at h1; simpa using h1
          | cons w ws =>
            exfalso
            obtain ⟨c, hc1, hc2⟩ := firstAtom_sound s a x hfa st z (by rw [hea]; exact List.mem_cons_self ..)
            obtain ⟨c', hc1', hc2'⟩ := firstAtom_sound s b y hfb st w (by rw [heb]; exact List.mem_cons_self ..)
            rw [hc1] at hc1'
            cases hc1'
            exact atomDisj_sound hd hc2 hc2'
  | case13 a1 b iha ihb =>
    intro h st
    simp only [Single, Bool.and_eq_true] at h
    obtain ⟨⟨ha, hb⟩, hd⟩ := h
    have h1 := iha ha st
    simp only [ends, List.flatMap_append, List.flatMap_cons, List.flatMap_nil, List.append_nil,
      List.length_append]
    have h2 := ihb hb st
    have h3 : ((ends s a1 st).flatMap (fun st' => ends s b st')).length ≤ 1 :=
      length_le_one_of_le_one _ _ h1 (fun x _ => ihb hb x)
    unfold disjFirst at hd
    cases hfa : firstAtom a1 with
    | none => rw [hfa] at hd; cases hd
    | some x =>
      cases hfb : firstAtom b with
      | none => rw [hfa, hfb] at hd; cases hd
      | some y =>
        rw [hfa, hfb] at hd
        simp only at hd
        cases hea : ends s a1 st with
        | nil => simpa using h2
        | cons z zs =>
          cases heb : ends s b st with
          | nil => rw [hea] at h3; simpa using h3
          | cons w ws =>
            exfalso
            obtain ⟨c, hc1, hc2⟩ := firstAtom_sound s a1 x hfa st z (by rw [hea]; exact List.mem_cons_self ..)
            obtain ⟨c', hc1', hc2'⟩ := firstAtom_sound s b y hfb st w (by rw [heb]; exact List.mem_cons_self ..)
            rw [hc1] at hc1'
            cases hc1'
            exact atomDisj_sound hd hc2 hc2'
  | case14 mn mx g x b ihb =>
    intro h st
    simp only [Single, Bool.and_eq_true] at h
    obtain ⟨⟨hx, hb⟩, hd⟩ := h
    simp only [ends]
    unfold disjAtomFirst at hd
    cases hfb : firstAtom b with
    | none => rw [hfb] at hd; cases hd
    | some y =>
      rw [hfb] at hd
      simp only at hd
      exact delim_le_one s x y hd st _ (loopE_atom s x hx g _ mn mx st) _ (fun st' => ihb hb st')
        (fun st' st'' hm => firstAtom_sound s b y hfb st' st'' hm)
  | case15 a b hn1 hn2 iha ihb =>
    intro h st
    have h' : Single a = true ∧ Single b = true := by
      have : Single (.seq a b) = (Single a && Single b) := by
        rw [Single]
        · intro a1 he; exact hn1 a1 he
        · intro mn mx g x he; exact hn2 mn mx g x he
      rw [this] at h
      simpa using h
    simp only [ends]
    exact length_le_one_of_le_one _ _ (iha h'.1 st) (fun x _ => ihb h'.2 x)
  | case16 mn mx g r => intro h; simp [Single] at h

end C01P

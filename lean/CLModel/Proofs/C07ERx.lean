/- C07 (extension E), part 1: the `eref` scan of DTDChecker without the regex engine.
   `Dtd.erefNames v` (= `finditer` of the generated `&(Name);`, group 1) is computed by a one-pass
   scanner `plainRefs` that knows nothing about regexes: after `&` it collects NameStartChar NameChar*
   and emits the name at `;`.  The generated Name classes are related to the XML 1.0 (5th edition)
   classes of the specification (`XmlContent.isNameStart/isNameChar`) by evaluating `ClsItem.has`:
   they are the BMP part of them (the source leaves out U+10000–U+EFFFF). -/
import CLModel.Checks.Dtd
import CLModel.Checks.XmlGrammar
import CLModel.Proofs.C09Scan
import CLModel.Proofs.C09Rx
namespace C07E
open Rx

abbrev Text := List Nat

/-! ### the shape of the generated regex; its classes vs. the XML classes -/

/-- `DTDParser.NameStartChar` as generated -/
def nsCls : List ClsItem :=
  [.ch 58, .range 65 90, .ch 95, .range 97 122, .range 192 214, .range 216 246, .range 248 767, .range 880 893,
   .range 895 8191, .range 8204 8205, .range 8304 8591, .range 11264 12271, .range 12289 55295, .range 63744 64975,
   .range 65008 65533]

/-- `DTDParser.NameChar` as generated -/
def ncCls : List ClsItem :=
  [.ch 58, .range 65 90, .ch 95, .range 97 122, .range 192 214, .range 216 246, .range 248 767, .range 880 893,
   .range 895 8191, .range 8204 8205, .range 8304 8591, .range 11264 12271, .range 12289 55295, .range 63744 64975,
   .range 65008 65533, .ch 45, .ch 46, .range 48 57, .ch 183, .range 768 879, .range 8255 8256]

/-- `&(NameStartChar NameChar*);` — if the source regex changes, this `rfl` and everything below breaks -/
theorem eref_shape : Gen.Pat.DTDChecker_eref =
    .seq (.lit 38) (.seq (.group 1 (.seq (.cls false nsCls) (.rep 0 none true (.cls false ncCls)))) (.lit 59)) := rfl

/-- NameStartChar of the specification, restricted to the Basic Multilingual Plane -/
def nameStart (c : Nat) : Bool := XmlContent.isNameStart c && decide (c < 65536)

/-- NameChar of the specification, restricted to the Basic Multilingual Plane -/
def nameChar (c : Nat) : Bool := XmlContent.isNameChar c && decide (c < 65536)

theorem inC_ns (c : Nat) : inC false nsCls c = nameStart c := by
  rw [Bool.eq_iff_iff]
  simp only [inC, nsCls, nameStart, XmlContent.isNameStart, ClsItem.has, List.any_cons, List.any_nil, Bool.or_false,
    bne_iff_ne, ne_eq, Bool.not_eq_false, Bool.or_eq_true, Bool.and_eq_true, beq_iff_eq, decide_eq_true_eq]
  omega

theorem inC_nc (c : Nat) : inC false ncCls c = nameChar c := by
  rw [Bool.eq_iff_iff]
  simp only [inC, ncCls, nameChar, XmlContent.isNameChar, XmlContent.isNameStart, ClsItem.has, List.any_cons,
    List.any_nil, Bool.or_false, bne_iff_ne, ne_eq, Bool.not_eq_false, Bool.or_eq_true, Bool.and_eq_true, beq_iff_eq,
    decide_eq_true_eq]
  omega

theorem ns_nc {c : Nat} (h : nameStart c = true) : nameChar c = true := by
  simp only [nameStart, nameChar, XmlContent.isNameChar, Bool.and_eq_true, Bool.or_eq_true] at h ⊢
  exact ⟨Or.inl (Or.inl (Or.inl (Or.inl (Or.inl (Or.inl h.1))))), h.2⟩

theorem nc_ne {c : Nat} (h : nameChar c = true) : c ≠ 38 ∧ c ≠ 59 ∧ c ≠ 62 := by
  refine ⟨?_, ?_, ?_⟩ <;> (rintro rfl; revert h; decide)

/-! ### a greedy class star whose continuation fails inside the run -/

theorem star_cls_then (s : Array Nat) (neg : Bool) (items : List ClsItem) (caps) (k : K) (pos : Nat)
    (hpos : pos ≤ s.size)
    (hk : ∀ j c, s[j]? = some c → inC neg items c = true → k ⟨j, caps⟩ = none) :
    loop (m s (.cls neg items)) true (s.size + 2 - pos) 0 none ⟨pos, caps⟩ k =
      k ⟨pos + ((s.toList.drop pos).takeWhile (inC neg items)).length, caps⟩ := by
  have hrun := run_eq_takeWhile s neg items (s.size + 2 - pos) pos (by omega)
  have hle : ((s.toList.drop pos).takeWhile (inC neg items)).length ≤ s.size - pos := by
    have := (List.takeWhile_prefix (inC neg items) (l := s.toList.drop pos)).length_le
    simpa using this
  rw [star_greedy_cls s neg items caps k (s.size + 2 - pos) pos (by rw [hrun]; omega), hrun,
    firstSome_downFrom_last]
  intro j h1 h2
  obtain ⟨c, hc, hp⟩ := takeWhile_getElem? (p := inC neg items) (s.toList.drop pos) (j - pos) (by omega)
  have : s[j]? = some c := by
    rw [List.getElem?_drop] at hc
    have e : pos + (j - pos) = j := by omega
    rw [e] at hc; simpa using hc
  exact hk j c this hp

theorem dropWhile_eq_drop (p : Nat → Bool) : ∀ l : List Nat, l.dropWhile p = l.drop (l.takeWhile p).length
  | [] => rfl
  | x :: xs => by
    simp only [List.dropWhile_cons, List.takeWhile_cons]
    split
    · simpa using dropWhile_eq_drop p xs
    · rfl

/-! ### the match at one position, on the suffix of the text -/

/-- `eref.match(text, off)` on the suffix at `off`: `&`, a name start, the maximal run of name characters, `;` -/
def erefAt (off : Nat) : List Nat → Option St
  | c0 :: c :: rest =>
    if c0 == 38 && nameStart c && (rest.dropWhile nameChar).head? == some 59 then
      some ⟨off + 2 + (rest.takeWhile nameChar).length + 1, [(1, off + 1, off + 2 + (rest.takeWhile nameChar).length)]⟩
    else none
  | _ => none

theorem eref_local (s : Array Nat) (p : Nat) (hp : p ≤ s.size) :
    matchAt s Gen.Pat.DTDChecker_eref p = erefAt p (s.toList.drop p) := by
  rw [eref_shape]
  simp only [matchAt, m_seq, m_lit, m_group, m_cls_apply, m_rep]
  have hnc : inC false ncCls = nameChar := funext inC_nc
  by_cases h0 : p < s.size
  · have hd0 : s.toList.drop p = s[p] :: s.toList.drop (p + 1) := by
      rw [← Array.getElem_toList (h := by simpa using h0)]
      exact (List.drop_eq_getElem_cons (by simpa using h0))
    have hs0 : s[p]? = some s[p] := by simp [h0]
    rw [hd0, hs0]
    by_cases h1 : p + 1 < s.size
    · have hd1 : s.toList.drop (p + 1) = s[p + 1] :: s.toList.drop (p + 1 + 1) := by
        rw [← Array.getElem_toList (h := by simpa using h1)]
        exact (List.drop_eq_getElem_cons (by simpa using h1))
      have hs1 : s[p + 1]? = some s[p + 1] := by simp [h1]
      rw [hd1]
      simp only [erefAt, hs1, inC_ns]
      by_cases ha : s[p] = 38
      · by_cases hb : nameStart s[p + 1] = true
        · simp only [ha, hb, beq_self_eq_true, if_true, Bool.true_and]
          rw [star_cls_then s false ncCls _ _ (p + 1 + 1) (by omega)]
          · simp only [hnc, dropWhile_eq_drop, List.head?_drop, List.getElem?_drop]
            have e : ∀ n, (s.toList)[p + 1 + 1 + n]? = s[p + 1 + 1 + n]? := by intro n; simp
            rw [e]
          · intro j c hc hin
            rw [inC_nc] at hin
            have := (nc_ne hin).2.1
            simp [hc, this]
        · simp [ha, hb]
      · simp [ha]
    · have hd1 : s.toList.drop (p + 1) = [] := by simp; omega
      have hs1 : s[p + 1]? = none := by simp; omega
      rw [hd1]
      simp [erefAt, hs1]
  · have hd0 : s.toList.drop p = [] := by simp; omega
    have hs0 : s[p]? = none := by simp; omega
    rw [hd0]
    simp [erefAt, hs0]

/-! ### the regex-free scanner -/

/-- one character of the scanner.  State: `none` = not after `&`; `some acc` = after `&` and the name
    characters `acc` (reversed).  Result: new state and the name completed by this character, if any. -/
def refStep (st : Option Text) (c : Nat) : Option Text × Option Text :=
  if c == 38 then (some [], none) else
  match st with
  | none => (none, none)
  | some acc =>
    if acc.isEmpty then (if nameStart c then (some [c], none) else (none, none))
    else if c == 59 then (none, some acc.reverse)
    else if nameChar c then (some (c :: acc), none)
    else (none, none)

/-- run the scanner: the names emitted and the final state -/
def refRun : Option Text → Text → List Text × Option Text
  | st, [] => ([], st)
  | st, c :: cs =>
    ((refStep st c).2.toList ++ (refRun (refStep st c).1 cs).1, (refRun (refStep st c).1 cs).2)

/-- the names `n` of all `&n;` (n = NameStartChar NameChar* in the BMP) in the text, in order of occurrence -/
def plainRefs (v : Text) : List Text := (refRun none v).1

theorem refRun_append (st : Option Text) (a b : Text) :
    refRun st (a ++ b) = ((refRun st a).1 ++ (refRun (refRun st a).2 b).1, (refRun (refRun st a).2 b).2) := by
  induction a generalizing st with
  | nil => simp [refRun]
  | cons c cs ih => simp only [List.cons_append, refRun, ih, List.append_assoc]

theorem refRun_cons_ne (c : Nat) (cs : Text) (h : c ≠ 38) : refRun none (c :: cs) = refRun none cs := by
  simp [refRun, refStep, h]

theorem refRun_amp (st : Option Text) (cs : Text) : refRun st (38 :: cs) = refRun (some []) cs := by
  simp [refRun, refStep]

/-- inside a name: the rest of the name characters, then `;` — the name is emitted -/
theorem refRun_name (xs tail : Text) (hx : xs.all nameChar = true) :
    ∀ acc : Text, acc ≠ [] →
      refRun (some acc) (xs ++ 59 :: tail) = ((acc.reverse ++ xs) :: (refRun none tail).1, (refRun none tail).2) := by
  induction xs with
  | nil =>
    intro acc hacc
    have : acc.isEmpty = false := by cases acc <;> simp_all
    simp [refRun, refStep, this]
  | cons x xs ih =>
    intro acc hacc
    simp only [List.all_cons, Bool.and_eq_true] at hx
    have hne := nc_ne hx.1
    have : acc.isEmpty = false := by cases acc <;> simp_all
    simp only [List.cons_append, refRun, refStep, this, hne.1, hne.2.1, hx.1, beq_iff_eq, if_false, if_true,
      Bool.false_eq_true, Option.toList_none, List.nil_append]
    rw [ih hx.2 (x :: acc) (by simp)]
    simp

/-- inside a name that is not followed by `;` : nothing is emitted for it -/
theorem refRun_noname : ∀ (r : Text) (acc : Text), acc ≠ [] → (r.dropWhile nameChar).head? ≠ some 59 →
    (refRun (some acc) r).1 = (refRun none r).1
  | [], _, _, _ => by simp [refRun]
  | x :: r, acc, hacc, h => by
    have hemp : acc.isEmpty = false := by cases acc <;> simp_all
    by_cases h38 : x = 38
    · subst h38; rw [refRun_amp, refRun_amp]
    · by_cases hnc : nameChar x = true
      · have hne := nc_ne hnc
        simp only [List.dropWhile_cons, hnc, if_true] at h
        have ih := refRun_noname r (x :: acc) (by simp) h
        rw [refRun_cons_ne x r h38]
        simp only [refRun, refStep, hemp, hne.1, hne.2.1, hnc, beq_iff_eq, if_false, if_true, Bool.false_eq_true,
          Option.toList_none, List.nil_append]
        exact ih
      · have h59 : x ≠ 59 := by
          intro h59; subst h59
          have hn59 : nameChar 59 = false := by decide
          simp [hn59] at h
        rw [refRun_cons_ne x r h38]
        simp [refRun, refStep, hemp, h38, h59, hnc]

theorem refRun_nomatch (off : Nat) (rest : Text) (h : erefAt off (38 :: rest) = none) :
    (refRun (some []) rest).1 = (refRun none rest).1 := by
  cases rest with
  | nil => simp [refRun]
  | cons c r =>
    by_cases h38 : c = 38
    · subst h38; rw [refRun_amp, refRun_amp]
    · rw [refRun_cons_ne c r h38]
      by_cases hns : nameStart c = true
      · have hh : (r.dropWhile nameChar).head? ≠ some 59 := by
          intro hc
          simp [erefAt, hns, hc] at h
        have := refRun_noname r [c] (by simp) hh
        simpa [refRun, refStep, h38, hns] using this
      · simp [refRun, refStep, h38, hns]

/-! ### `finditer` = list-level scan = the scanner -/

theorem minLen_eref : 1 ≤ minLen Gen.Pat.DTDChecker_eref := by decide

/-- group 1 of a match, as text -/
def nameOf (s : Array Nat) (p : Nat × St) : Option Text :=
  match p.2.group 1 with
  | some (a, b) => some (Dtd.slice s a b)
  | none => none

theorem slice_drop (s : Array Nat) (a n : Nat) : Dtd.slice s a (a + n) = (s.toList.drop a).take n := by
  simp [Dtd.slice, List.extract_eq_take_drop]

theorem takeWhile_all (p : Nat → Bool) : ∀ l : List Nat, (l.takeWhile p).all p = true
  | [] => rfl
  | x :: xs => by
    simp only [List.takeWhile_cons]
    split
    · rename_i h; simp [h, takeWhile_all p xs]
    · rfl

/-- a successful local match: the shape of the suffix and the state -/
theorem erefAt_some {off : Nat} {l : List Nat} {st : St} (h : erefAt off l = some st) :
    ∃ c tw tail, l = 38 :: c :: (tw ++ 59 :: tail) ∧ nameStart c = true ∧ tw.all nameChar = true ∧
      st = ⟨off + 2 + tw.length + 1, [(1, off + 1, off + 2 + tw.length)]⟩ := by
  rcases l with _ | ⟨c0, _ | ⟨c, r⟩⟩
  · simp [erefAt] at h
  · simp [erefAt] at h
  · simp only [erefAt] at h
    split at h
    · rename_i hcond
      simp only [Bool.and_eq_true, beq_iff_eq] at hcond
      obtain ⟨⟨h38, hns⟩, h59⟩ := hcond
      obtain ⟨tail, htail⟩ : ∃ tail, r.dropWhile nameChar = 59 :: tail := by
        cases hdw : r.dropWhile nameChar with
        | nil => rw [hdw] at h59; simp at h59
        | cons x t => rw [hdw] at h59; simp at h59; exact ⟨t, by rw [h59]⟩
      refine ⟨c, r.takeWhile nameChar, tail, ?_, hns, takeWhile_all _ _, by cases h; rfl⟩
      rw [h38, ← htail, List.takeWhile_append_dropWhile]
    · cases h

theorem drop_block (c0 c : Nat) (tw tail : List Nat) :
    (c0 :: c :: (tw ++ 59 :: tail)).drop (tw.length + 3) = tail := by
  have : (c0 :: c :: (tw ++ 59 :: tail)) = (c0 :: c :: tw ++ [59]) ++ tail := by simp
  rw [this, List.drop_left']
  simp

theorem scan_eref (s : Array Nat) : ∀ fuel off, s.size - off < fuel → off ≤ s.size →
    (scanL erefAt fuel off (s.toList.drop off)).filterMap (nameOf s) = (refRun none (s.toList.drop off)).1 := by
  intro fuel
  induction fuel with
  | zero => intro off h; omega
  | succ f ih =>
    intro off hf hle
    by_cases hlt : off < s.size
    · have hd : s.toList.drop off = s[off] :: s.toList.drop (off + 1) := by
        rw [← Array.getElem_toList (h := by simpa using hlt)]
        exact (List.drop_eq_getElem_cons (by simpa using hlt))
      rw [hd]
      simp only [scanL]
      cases hm : erefAt off (s[off] :: s.toList.drop (off + 1)) with
      | none =>
        simp only []
        rw [ih (off + 1) (by omega) (by omega)]
        by_cases h38 : s[off] = 38
        · rw [h38, refRun_amp]
          rw [h38] at hm
          exact (refRun_nomatch off _ hm).symm
        · rw [refRun_cons_ne _ _ h38]
      | some st =>
        simp only []
        obtain ⟨c, tw, tail, hl, hns, hall, rfl⟩ := erefAt_some hm
        rw [hl]
        have hl' : s.toList.drop off = 38 :: c :: (tw ++ 59 :: tail) := by rw [hd, hl]
        have e : off + 2 + tw.length + 1 - off = tw.length + 3 := by omega
        simp only [e, drop_block]
        have htl : s.toList.drop (off + 2 + tw.length + 1) = tail := by
          have e1 : s.toList.drop (off + 2 + tw.length + 1) = (s.toList.drop off).drop (tw.length + 3) := by
            rw [List.drop_drop]; congr 1; omega
          rw [e1, hl', drop_block]
        have hlen : (s.toList.drop off).length = s.size - off := by simp
        rw [hl'] at hlen
        simp only [List.length_cons, List.length_append] at hlen
        rw [List.filterMap_cons]
        have hname : nameOf s (off, (⟨off + 2 + tw.length + 1, [(1, off + 1, off + 2 + tw.length)]⟩ : St))
            = some (c :: tw) := by
          simp only [nameOf, St.group, capOf, List.find?_cons_of_pos, beq_self_eq_true]
          have e2 : off + 2 + tw.length = off + 1 + (tw.length + 1) := by omega
          have e3 : s.toList.drop (off + 1) = (s.toList.drop off).drop 1 := by rw [List.drop_drop]
          rw [e2, slice_drop, e3, hl']
          simp only [List.drop_succ_cons, List.drop_zero, List.take_succ_cons]
          rw [List.take_left']
          rfl
        rw [hname]
        simp only []
        have := ih (off + 2 + tw.length + 1) (by omega) (by omega)
        rw [htl] at this
        rw [this, refRun_amp]
        have hrun : refRun (some []) (c :: (tw ++ 59 :: tail)) = refRun (some [c]) (tw ++ 59 :: tail) := by
          have hne := nc_ne (ns_nc hns)
          simp [refRun, refStep, hne.1, hns]
        rw [hrun, refRun_name _ _ hall [c] (by simp)]
        simp
    · have : s.toList.drop off = [] := by simp; omega
      rw [this]
      simp [scanL, refRun]

/-- **the `eref` scan without the regex engine**: `{m.group(1) for m in eref.finditer(v)}` in order of
    occurrence is what the one-pass scanner emits -/
theorem erefNames_eq_plainRefs (v : Text) : Dtd.erefNames v = plainRefs v := by
  unfold Dtd.erefNames plainRefs
  simp only []
  rw [finditer_eq_scanL _ _ minLen_eref erefAt (fun p hp => eref_local _ p hp)]
  have := scan_eref v.toArray (v.toArray.size + 1) 0 (by omega) (by omega)
  simp only [List.drop_zero] at this
  rw [← this]
  rfl

end C07E

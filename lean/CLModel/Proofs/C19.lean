/-
Helper lemmas for C19 (`lint/linter.py`).  Core Lean only.
-/
import CLModel.Lint.Linter
import CLModel.Proofs.AddRemove
namespace Lint
open Gen.Tables

/-! ### specification vocabulary -/

/-- the last entity of the reference file with key `k` -/
def lastWithKey (ref : List RefEnt) (k : Text) : Option RefEnt := ref.reverse.find? (fun r => r.key == k)

/-- "the key is in the reference too and the value differs from the (last) reference entity with that key" -/
def changed (ref : List RefEnt) (e : Ent) : Bool :=
  match lastWithKey ref e.key with
  | some r => r.eq != e.eq
  | none => false

/-- `reference` as lint_file builds it -/
def FileIn.reference (f : FileIn) : List RefEnt := match f.ref with | some r => r | none => []

def FileIn.lines (f : FileIn) : List Nat := lineEnds f.contents.toList

/-- what `lint_entity` yields for one element of the file -/
def FileIn.entityResults (f : FileIn) (e : Ent) : Except String (List Result) :=
  lintEntity f.contents f.lines f.cur f.reference e

/-- the dict handle_junk builds -/
def junkResult (contents : Array Nat) (lines : List Nat) (e : Ent) : Result :=
  { lineno := (position lines e 0).1, column := (position lines e 0).2, level := lintJunkLevel,
    message := errorMessage contents lines e }

/-! ### reference lookup -/

theorem find?_eq_getElem?_idxOf {α κ : Type} [BEq κ] [LawfulBEq κ] (f : α → κ) (k : κ) (l : List α) :
    l.find? (fun x => f x == k) = l[(l.map f).idxOf k]? := by
  induction l with
  | nil => simp
  | cons x xs ih =>
    simp only [List.find?_cons, List.map_cons, List.idxOf_cons]
    by_cases h : f x == k
    · simp [h]
    · simp [h, ih]

/-- the reference entity the linter compares with is the LAST one with the key -/
theorem refLookup_eq (ref : List RefEnt) (k : Text) : refLookup ref k = lastWithKey ref k := by
  rw [refLookup, lastWithKey, AR.keyedIndex_eq]
  by_cases hc : (ref.map (·.key)).contains k
  · simp only [hc, if_true]
    rw [find?_eq_getElem?_idxOf (fun r : RefEnt => r.key) k ref.reverse, List.map_reverse]
    have hm : k ∈ (ref.map (·.key)).reverse := by simpa using hc
    have hlt := List.idxOf_lt_length_of_mem hm
    simp only [List.length_reverse, List.length_map] at hlt
    rw [List.getElem?_reverse hlt]
    simp
  · simp only [hc]
    have : ∀ r ∈ ref, ¬ (r.key == k) = true := by
      intro r hr hk
      apply hc
      simp only [List.contains_eq_mem, List.mem_map, decide_eq_true_eq]
      exact ⟨r, hr, by simpa using hk⟩
    symm
    simp only [Bool.false_eq_true, if_false, List.find?_eq_none, List.mem_reverse]
    exact this

theorem lastWithKey_isSome (ref : List RefEnt) (k : Text) :
    (lastWithKey ref k).isSome = (ref.map (·.key)).contains k := by
  rw [lastWithKey, Bool.eq_iff_iff, List.find?_isSome]
  simp only [List.mem_reverse, beq_iff_eq, List.contains_eq_mem, List.mem_map, decide_eq_true_eq]

theorem lastWithKey_key {ref : List RefEnt} {k : Text} {r : RefEnt} (h : lastWithKey ref k = some r) :
    r.key = k ∧ r ∈ ref := by
  have h1 := List.find?_some h
  have h2 := List.mem_of_find?_eq_some h
  exact ⟨by simpa using h1, by simpa using h2⟩

/-! ### lint_full_entity -/

/-- closed form of lint_full_entity: never raises; the duplicate error iff the key is counted more than
    once; the changed-ID warning iff the key is in the reference and the value class differs from the
    last reference entity with the key -/
theorem lintFullEntity_eq (lines : List Nat) (cur : List Ent) (ref : List RefEnt) (e : Ent) :
    lintFullEntity lines cur ref e =
      .ok ((if keyCount cur e.key > 1 then [dupResult lines e] else []) ++
           (if changed ref e then [changedResult lines e] else [])) := by
  unfold lintFullEntity
  rw [AR.keyedContains_eq, refLookup_eq, ← lastWithKey_isSome, changed]
  cases h : lastWithKey ref e.key with
  | none => simp
  | some r =>
    have hk := (lastWithKey_key h).1
    have hkey : (e.key == r.key) = true := by simp [hk]
    have heq : equals e r = (e.eq == r.eq) := by simp [equals, hkey]
    simp only [Option.isSome_some, if_true, heq]
    by_cases hq : e.eq = r.eq
    · have h1 : (e.eq == r.eq) = true := by simpa using hq
      have h2 : (r.eq != e.eq) = false := by simp [hq]
      simp [h1, h2]
    · have h1 : (e.eq == r.eq) = false := by simpa using hq
      have h2 : (r.eq != e.eq) = true := by simpa using fun h : r.eq = e.eq => hq h.symm
      simp [h1, h2]

/-! ### lint_value -/

/-- pointwise relation between two lists of the same length (core Lean has no `Forall₂`) -/
def All2 {α β : Type} (R : α → β → Prop) : List α → List β → Prop
  | [], [] => True
  | a :: as, b :: bs => R a b ∧ All2 R as bs
  | _, _ => False

theorem All2.length {α β : Type} {R : α → β → Prop} : ∀ {l : List α} {m : List β}, All2 R l m → l.length = m.length
  | [], [], _ => rfl
  | _ :: _, _ :: _, h => by simp [All2.length h.2]
  | [], _ :: _, h => h.elim
  | _ :: _, [], h => h.elim

theorem All2.mem_left {α β : Type} {R : α → β → Prop} : ∀ {l : List α} {m : List β}, All2 R l m →
    ∀ {a : α}, a ∈ l → ∃ b ∈ m, R a b
  | [], [], _, _, ha => by cases ha
  | x :: xs, y :: ys, h, a, ha => by
    cases ha with
    | head => exact ⟨y, List.mem_cons_self, h.1⟩
    | tail _ hm =>
      obtain ⟨b, hb, hR⟩ := All2.mem_left h.2 hm
      exact ⟨b, List.mem_cons_of_mem _ hb, hR⟩
  | [], _ :: _, h, _, _ => h.elim
  | _ :: _, [], h, _, _ => h.elim

theorem All2.mem_right {α β : Type} {R : α → β → Prop} : ∀ {l : List α} {m : List β}, All2 R l m →
    ∀ {b : β}, b ∈ m → ∃ a ∈ l, R a b
  | [], [], _, _, hb => by cases hb
  | x :: xs, y :: ys, h, b, hb => by
    cases hb with
    | head => exact ⟨x, List.mem_cons_self, h.1⟩
    | tail _ hm =>
      obtain ⟨a, ha, hR⟩ := All2.mem_right h.2 hm
      exact ⟨a, List.mem_cons_of_mem _ ha, hR⟩
  | [], _ :: _, h, _, _ => h.elim
  | _ :: _, [], h, _, _ => h.elim

theorem All2.imp {α β : Type} {R S : α → β → Prop} (hRS : ∀ {a b}, R a b → S a b) :
    ∀ {l : List α} {m : List β}, All2 R l m → All2 S l m
  | [], [], _ => trivial
  | _ :: _, _ :: _, h => ⟨hRS h.1, All2.imp hRS h.2⟩
  | [], _ :: _, h => h.elim
  | _ :: _, [], h => h.elim

theorem nodup_map_inj {α β : Type} {f : α → β} : ∀ {l : List α}, (l.map f).Nodup →
    ∀ {a b : α}, a ∈ l → b ∈ l → f a = f b → a = b
  | [], _, _, _, ha, _, _ => by cases ha
  | x :: xs, hn, a, b, ha, hb, hf => by
    rw [List.map_cons, List.nodup_cons] at hn
    cases ha with
    | head =>
      cases hb with
      | head => rfl
      | tail _ hb => exact (hn.1 (hf ▸ List.mem_map_of_mem hb)).elim
    | tail _ ha =>
      cases hb with
      | head => exact (hn.1 (hf ▸ List.mem_map_of_mem ha)).elim
      | tail _ hb => exact nodup_map_inj hn.2 ha hb hf

theorem checkResult_level_msg {lines : List Nat} {e : Ent} {c : Check} {r : Result}
    (h : checkResult lines e c = .ok r) : r.level = c.level ∧ r.message = c.msg := by
  unfold checkResult at h
  simp only at h
  split at h
  · cases h
  · cases h; exact ⟨rfl, rfl⟩

theorem lintValueGo_spec (lines : List Nat) (e : Ent) (cs : List Check) (rs : List Result) :
    lintValueGo lines e cs = .ok rs ↔ All2 (fun c r => checkResult lines e c = .ok r) cs rs := by
  induction cs generalizing rs with
  | nil =>
    cases rs <;> simp [lintValueGo, All2]
  | cons c cs ih =>
    cases rs with
    | nil =>
      simp only [lintValueGo, All2, iff_false]
      intro h
      split at h
      · cases h
      · split at h <;> cases h
    | cons r rs =>
      simp only [lintValueGo, All2]
      constructor
      · intro h
        split at h
        · cases h
        · rename_i r' hr
          split at h
          · cases h
          · rename_i rs' hrs
            cases h
            exact ⟨hr, (ih rs).1 hrs⟩
      · rintro ⟨hr, hrest⟩
        rw [hr]
        simp only
        rw [(ih _).2 hrest]

/-! ### lint_entity -/

theorem handleJunk_junk (contents : Array Nat) (lines : List Nat) (e : Ent) (h : e.kind = .junk) :
    handleJunk contents lines e = some (junkResult contents lines e) := by
  simp [handleJunk, h, junkResult]

theorem handleJunk_entity (contents : Array Nat) (lines : List Nat) (e : Ent) (h : e.kind = .entity) :
    handleJunk contents lines e = none := by
  simp [handleJunk, h]

theorem lintEntity_junk (contents : Array Nat) (lines : List Nat) (cur : List Ent) (ref : List RefEnt) (e : Ent)
    (h : e.kind = .junk) : lintEntity contents lines cur ref e = .ok [junkResult contents lines e] := by
  simp [lintEntity, handleJunk_junk _ _ _ h]

theorem lintEntity_entity (contents : Array Nat) (lines : List Nat) (cur : List Ent) (ref : List RefEnt) (e : Ent)
    (h : e.kind = .entity) (rs : List Result) :
    lintEntity contents lines cur ref e = .ok rs ↔
      ∃ cs, lintValue lines e = .ok cs ∧
        rs = (if keyCount cur e.key > 1 then [dupResult lines e] else []) ++
             (if changed ref e then [changedResult lines e] else []) ++ cs := by
  simp only [lintEntity, handleJunk_entity _ _ _ h, lintFullEntity_eq]
  constructor
  · intro hh
    split at hh
    · cases hh
    · rename_i b hb
      cases hh
      exact ⟨b, hb, rfl⟩
  · rintro ⟨cs, hcs, rfl⟩
    rw [hcs]

/-! ### the loop over the file -/

theorem lintAll_spec (contents : Array Nat) (lines : List Nat) (cur : List Ent) (ref : List RefEnt)
    (es : List Ent) (rs : List Result) :
    lintAll contents lines cur ref es = .ok rs ↔
      ∃ rss, All2 (fun e r => lintEntity contents lines cur ref e = .ok r) es rss ∧ rs = rss.flatten := by
  induction es generalizing rs with
  | nil =>
    simp only [lintAll]
    constructor
    · intro h; cases h; exact ⟨[], trivial, rfl⟩
    · rintro ⟨rss, h, rfl⟩
      cases rss with
      | nil => rfl
      | cons _ _ => exact h.elim
  | cons e es ih =>
    simp only [lintAll]
    constructor
    · intro h
      split at h
      · cases h
      · rename_i a ha
        split at h
        · cases h
        · rename_i b hb
          cases h
          obtain ⟨rss, hrss, rfl⟩ := (ih b).1 hb
          exact ⟨a :: rss, ⟨ha, hrss⟩, by simp⟩
    · rintro ⟨rss, h, rfl⟩
      cases rss with
      | nil => exact h.elim
      | cons a rss =>
        rw [h.1]
        simp only
        rw [(ih _).2 ⟨_, h.2, rfl⟩]
        simp

theorem lintFile_spec (f : FileIn) (rs : List Result) :
    lintFile f = .ok rs ↔
      ∃ rss, All2 (fun e r => f.entityResults e = .ok r) f.cur rss ∧ rs = rss.flatten := by
  unfold lintFile FileIn.entityResults FileIn.reference FileIn.lines
  exact lintAll_spec _ _ _ _ _ _

/-! ### Context.linecol -/

theorem lineEndsFrom_gt (t : List Nat) : ∀ (i : Nat), ∀ x ∈ lineEndsFrom i t, i < x := by
  induction t with
  | nil => intro i x hx; simp [lineEndsFrom] at hx
  | cons c rest ih =>
    intro i x hx
    simp only [lineEndsFrom] at hx
    split at hx
    · rcases List.mem_cons.1 hx with rfl | h
      · omega
      · have := ih (i + 1) x h; omega
    · have := ih (i + 1) x hx; omega

theorem bisectStart_of_gt (l : List Nat) (p : Int) (st : Nat) (h : ∀ x ∈ l, p < (x : Int)) :
    bisectStart l p st = (0, st) := by
  cases l with
  | nil => rfl
  | cons x xs =>
    have := h x List.mem_cons_self
    simp only [bisectStart]
    rw [if_neg (by omega)]

theorem takeWhile_append_all {α : Type} (p : α → Bool) (l m : List α) :
    (l ++ m).takeWhile p = if l.all p then l ++ m.takeWhile p else l.takeWhile p := by
  induction l with
  | nil => simp
  | cons x xs ih =>
    by_cases hx : p x
    · simp only [List.cons_append, List.takeWhile_cons, hx, if_true, List.all_cons, Bool.true_and, ih]
      split <;> rfl
    · simp [hx]

def ne10 (c : Nat) : Bool := c != 10

theorem length_takeWhile_le' {α : Type} (p : α → Bool) (l : List α) : (l.takeWhile p).length ≤ l.length := by
  induction l with
  | nil => simp
  | cons x xs ih => simp only [List.takeWhile_cons]; split <;> simp <;> omega

theorem takeWhile_of_all {α : Type} (p : α → Bool) (l : List α) (h : l.all p = true) : l.takeWhile p = l := by
  induction l with
  | nil => rfl
  | cons x xs ih =>
    simp only [List.all_cons, Bool.and_eq_true] at h
    simp [h.1, ih h.2]

theorem count_zero_iff_all (l : List Nat) : l.count 10 = 0 ↔ l.reverse.all ne10 = true := by
  simp only [List.count_eq_zero, ne10, List.all_reverse, List.all_eq_true, bne_iff_ne, ne_eq]
  constructor
  · intro h x hx hx10; exact h (hx10 ▸ hx)
  · intro h hm; exact h 10 hm rfl

/-- invariant of `bisectStart` over the line ends of `t` shifted by `i` -/
theorem bisectStart_lineEnds (t : List Nat) : ∀ (i pos st : Nat), pos ≤ t.length →
    bisectStart (lineEndsFrom i t) ((i + pos : Nat) : Int) st =
      ((t.take pos).count 10,
       if (t.take pos).count 10 = 0 then st else i + pos - ((t.take pos).reverse.takeWhile ne10).length) := by
  induction t with
  | nil =>
    intro i pos st h
    have : pos = 0 := by simpa using h
    subst this
    simp [lineEndsFrom, bisectStart]
  | cons c rest ih =>
    intro i pos st h
    cases pos with
    | zero =>
      rw [bisectStart_of_gt]
      · simp
      · intro x hx
        have := lineEndsFrom_gt (c :: rest) i x hx
        omega
    | succ n =>
      have hn : n ≤ rest.length := by simpa using h
      have hlen : (rest.take n).length = n := by simp [hn]
      have hp : ((i + (n + 1) : Nat) : Int) = ((i + 1 + n : Nat) : Int) := by congr 1; omega
      simp only [List.take_succ_cons, List.reverse_cons]
      rw [takeWhile_append_all]
      by_cases hc : c = 10
      · subst hc
        simp only [lineEndsFrom, beq_self_eq_true, if_true, bisectStart]
        rw [if_pos (by omega), hp, ih (i + 1) n (i + 1) hn]
        simp only [List.count_cons_self]
        by_cases h0 : (rest.take n).count 10 = 0
        · have hall := (count_zero_iff_all _).1 h0
          simp [h0, hall, ne10, hlen]
          omega
        · have hall : ((rest.take n).reverse.all ne10) = false := by
            simpa using fun h => h0 ((count_zero_iff_all _).2 h)
          simp [h0, hall]
          omega
      · have hc' : (c == 10) = false := by simpa using hc
        simp only [lineEndsFrom, hc', Bool.false_eq_true, if_false]
        rw [hp, ih (i + 1) n st hn]
        rw [List.count_cons_of_ne (fun h : c = 10 => hc h)]
        by_cases h0 : (rest.take n).count 10 = 0
        · simp [h0]
        · have hall : ((rest.take n).reverse.all ne10) = false := by
            simpa using fun h => h0 ((count_zero_iff_all _).2 h)
          simp [h0, hall]
          omega

theorem linecol_eq (t : List Nat) (pos : Nat) (h : pos ≤ t.length) :
    linecol (lineEnds t) (pos : Int) =
      (((1 + (t.take pos).count 10 : Nat) : Int), ((1 + ((t.take pos).reverse.takeWhile ne10).length : Nat) : Int)) := by
  have key := bisectStart_lineEnds t 0 pos 0 h
  simp only [Nat.zero_add] at key
  simp only [linecol, lineEnds, key]
  have hlen : (t.take pos).length = pos := by simp [h]
  have htw : ((t.take pos).reverse.takeWhile ne10).length ≤ pos := by
    have := length_takeWhile_le' ne10 (t.take pos).reverse
    simpa [hlen] using this
  by_cases h0 : (t.take pos).count 10 = 0
  · have hall := (count_zero_iff_all _).1 h0
    have : (t.take pos).reverse.takeWhile ne10 = (t.take pos).reverse := takeWhile_of_all _ _ hall
    simp [h0, this, hlen]
    omega
  · simp only [h0, if_false]
    refine Prod.ext ?_ ?_ <;> simp <;> omega

end Lint

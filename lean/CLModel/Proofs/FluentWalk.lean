/- Facts about the model of `FluentParser.walk`: junk trimming stays inside the junk span,
   the walk is lossless under the body contract, the localizable view is a filter. -/
import CLModel.Parser.Fluent
import CLModel.Proofs.RxLemmas
import CLModel.Proofs.RxStar
import CLModel.Proofs.Walk
namespace Rx

theorem run_le (s : Array Nat) (neg : Bool) (items : List ClsItem) :
    ∀ fuel pos, run s neg items fuel pos ≤ s.size - pos := by
  intro fuel
  induction fuel with
  | zero => intro pos; simp [run]
  | succ f ih =>
    intro pos
    simp only [run]
    split
    · rename_i c hc
      have := getElem?_some_lt hc
      split
      · have := ih (pos + 1); omega
      · omega
    · omega

/-- a run cannot cross a character outside the class -/
theorem run_stop (s : Array Nat) (neg : Bool) (items : List ClsItem) (p c : Nat) (hp : s[p]? = some c)
    (hc : inC neg items c = false) :
    ∀ fuel pos, pos ≤ p → pos + run s neg items fuel pos ≤ p := by
  intro fuel
  induction fuel with
  | zero => intro pos h; simp [run]; exact h
  | succ f ih =>
    intro pos h
    simp only [run]
    split
    · rename_i d hd
      split
      · rename_i hin
        have hne : pos ≠ p := by
          intro he; subst he; rw [hp] at hd; cases hd; rw [hc] at hin; cases hin
        have := ih (pos + 1) (by omega)
        omega
      · omega
    · omega

theorem firstSome_some {k : Nat → Option St} {l : List Nat} {r : St} (h : firstSome k l = some r) :
    ∃ j ∈ l, k j = some r := by
  induction l with
  | nil => simp [firstSome] at h
  | cons x xs ih =>
    simp only [firstSome] at h
    rcases orElse_some h with h' | ⟨_, h'⟩
    · exact ⟨x, List.mem_cons_self .., h'⟩
    · obtain ⟨j, hj, hk⟩ := ih h'
      exact ⟨j, List.mem_cons_of_mem _ hj, hk⟩

theorem mem_downFrom {pos n j : Nat} (h : j ∈ downFrom pos n) : pos ≤ j ∧ j ≤ pos + n := by
  induction n with
  | zero => simp [downFrom] at h; omega
  | succ n ih =>
    simp only [downFrom, List.mem_cons] at h
    rcases h with rfl | h
    · omega
    · have := ih h; omega

/-- a greedy class star followed by a continuation: the continuation succeeded at some position
    inside the maximal run -/
theorem star_cls_some (s : Array Nat) (neg : Bool) (items : List ClsItem) (pos : Nat) (k : K) (res : St)
    (hpos : pos ≤ s.size)
    (h : m s (.rep 0 none true (.cls neg items)) ⟨pos, []⟩ k = some res) :
    ∃ j, pos ≤ j ∧ j ≤ pos + run s neg items (s.size + 2 - pos) pos ∧ k ⟨j, []⟩ = some res := by
  have hr := run_le s neg items (s.size + 2 - pos) pos
  change loop (m s (.cls neg items)) true (s.size + 2 - pos) 0 none ⟨pos, []⟩ k = some res at h
  rw [star_greedy_cls s neg items [] k _ _ (by omega)] at h
  obtain ⟨j, hj, hk⟩ := firstSome_some h
  have := mem_downFrom hj
  exact ⟨j, this.1, this.2, hk⟩

end Rx

namespace P
open Rx Gen.Pat

def wsItems : List ClsItem := [.ch 32, .ch 9, .ch 13, .ch 10]

theorem inC_ws (c : Nat) : inC false wsItems c = (c == 32 || c == 9 || c == 13 || c == 10) := by
  simp [inC, wsItems, ClsItem.has, Bool.or_assoc]

/-- `lead` of the junk trimming is at most the position of any non-whitespace character -/
theorem lead_le (content : Array Nat) (p c : Nat) (hp : content[p]? = some c)
    (hc : inC false wsItems c = false) :
    (match matchAt content parser_fluent_FluentParser_walk_0 0 with | some st => st.pos | none => 0) ≤ p := by
  split
  · rename_i st hm
    obtain ⟨j, _, h2, h3⟩ := star_cls_some content false wsItems 0 some st (by omega) hm
    have := run_stop content false wsItems p c hp hc (content.size + 2 - 0) 0 (by omega)
    simp at h3; subst h3
    simp only
    omega
  · omega

/-- the trailing-whitespace match lies strictly after any non-whitespace character -/
theorem trail_le (content : Array Nat) (p c : Nat) (hp : content[p]? = some c)
    (hc : inC false wsItems c = false) :
    (match search content parser_fluent_FluentParser_walk_1 0 with | some (q, st) => st.pos - q | none => 0)
      + p < content.size := by
  have hplt := getElem?_some_lt hp
  split
  · rename_i q st hs
    obtain ⟨_, hq, hm, _⟩ := search_spec hs
    have hm' : m content (.rep 0 none true (.cls false wsItems)) ⟨q, []⟩
        (fun st' => m content (.eol false) st' some) = some st := hm
    obtain ⟨j, h1, h2, h3⟩ := star_cls_some content false wsItems q _ st hq hm'
    have hr := run_le content false wsItems (content.size + 2 - q) q
    simp only [m] at h3
    split at h3
    · rename_i hcond
      simp only [Option.some.injEq] at h3
      subst h3
      simp only
      by_cases hqp : q ≤ p
      · have hstop := run_stop content false wsItems p c hp hc (content.size + 2 - q) q hqp
        -- the match would end at or before p < size, so it ends on a final "\n" at p: contradiction
        exfalso
        simp only [Bool.false_and, Bool.or_false, Bool.not_false, Bool.true_and, Bool.or_eq_true,
          beq_iff_eq, Bool.and_eq_true] at hcond
        rcases hcond with hcond | ⟨h4, h5⟩
        · omega
        · have : j = p := by omega
          subst this
          rw [hp] at h5
          simp only [Option.some.injEq] at h5
          subst h5
          rw [inC_ws] at hc
          simp at hc
      · have h5 : j - q ≤ content.size - q := by omega
        omega
    · cases h3
  · omega

theorem exists_nonws (l : List Nat)
    (h : ¬ (l.all (fun c => c == 32 || c == 9 || c == 13 || c == 10)) = true) :
    ∃ p c : Nat, l.toArray[p]? = some c ∧ inC false wsItems c = false := by
  rw [Bool.not_eq_true, List.all_eq_false] at h
  obtain ⟨c, hc, hn⟩ := h
  obtain ⟨p, hp, rfl⟩ := List.mem_iff_getElem.mp hc
  refine ⟨p, l[p], by simp [hp], ?_⟩
  rw [inC_ws]
  simpa using hn

/-- the junk trimming keeps `start ≤ stop` inside the junk's span -/
theorem junk_trim (l : List Nat)
    (h : ¬ (l.all (fun c => c == 32 || c == 9 || c == 13 || c == 10)) = true) :
    (match matchAt l.toArray parser_fluent_FluentParser_walk_0 0 with | some st => st.pos | none => 0) +
    (match search l.toArray parser_fluent_FluentParser_walk_1 0 with | some (q, st) => st.pos - q | none => 0)
      ≤ l.length := by
  obtain ⟨p, c, hp, hc⟩ := exists_nonws l h
  have h1 := lead_le l.toArray p c hp hc
  have h2 := trail_le l.toArray p c hp hc
  simp only [List.size_toArray] at h2
  omega

/-! ### losslessness of the Fluent walk -/

theorem slice_append (s : Array Nat) (a b c : Nat) (h1 : a ≤ b) (h2 : b ≤ c) :
    slice s a b ++ slice s b c = slice s a c := by
  unfold slice
  simp only [Array.toList_extract, List.extract_eq_take_drop]
  have e : c - a = (b - a) + (c - b) := by omega
  rw [e, List.take_add, List.drop_drop]
  congr 3
  omega

theorem slice_self (s : Array Nat) (a : Nat) : slice s a a = [] := by
  simp [slice]

theorem slice_length (s : Array Nat) (a b : Nat) (h : b ≤ s.size) : (slice s a b).length = b - a := by
  simp [slice]; omega

theorem slice_full (s : Array Nat) : slice s 0 s.size = s.toList := by
  simp [slice]

/-- same recursion as `C01.BodyContract` -/
def BodyOK (s : Array Nat) : List FEntry → Nat → Prop
  | [], _ => True
  | b :: rest, last => last ≤ b.s ∧ b.s ≤ b.e ∧ b.e ≤ s.size ∧ BodyOK s rest b.e

/-- the three pieces of a trimmed junk -/
theorem junk_pieces (s : Array Nat) (bs be lead trail : Nat) (h : lead + trail ≤ be - bs) (hle : bs ≤ be) :
    (((if !false && bs < bs + lead then [({ kind := .whitespace, full := bs, s := bs, e := bs + lead, ks := bs, ke := (bs + lead : Nat), vs := bs, ve := (bs + lead : Nat) } : Entry)] else [])
      ++ [({ kind := .junk, full := bs + lead, s := bs + lead, e := be - trail } : Entry)]
      ++ (if !false && be - trail < be then [({ kind := .whitespace, full := be - trail, s := be - trail, e := be, ks := (be - trail : Nat), ke := be, vs := (be - trail : Nat), ve := be } : Entry)] else [])).map
        (Entry.all s)).flatten = slice s bs be := by
  have e1 : slice s bs (bs + lead) ++ (slice s (bs + lead) (be - trail) ++ slice s (be - trail) be) = slice s bs be := by
    rw [slice_append s _ _ _ (by omega) (by omega), slice_append s _ _ _ (by omega) (by omega)]
  rw [← e1]
  by_cases hl : lead = 0 <;> by_cases ht : trail = 0
  · subst hl; subst ht; simp [Entry.all, slice_self]
  · subst hl
    have : be - trail < be := by omega
    simp [Entry.all, slice_self, this]
  · subst ht
    have : 0 < lead := by omega
    simp [Entry.all, slice_self, this]
  · have h1 : 0 < lead := by omega
    have h2 : be - trail < be := by omega
    simp [Entry.all, h1, h2]

theorem fluentEntry_all (s : Array Nat) (b : FEntry) (h1 : b.s ≤ b.e) (h2 : b.e ≤ s.size)
    (hk : b.kind = .other → b.s = b.e) :
    ((fluentEntry s false b).map (Entry.all s)).flatten = slice s b.s b.e := by
  unfold fluentEntry
  split
  · simp [Entry.all]
  · simp [Entry.all]
  · simp only
    split
    · simp [Entry.all]
    · rename_i hws
      have ht := junk_trim (slice s b.s b.e) hws
      rw [slice_length s _ _ h2] at ht
      exact junk_pieces s b.s b.e _ _ ht h1
  · simp [Entry.all]
  · rename_i ho
    rw [hk ho]; simp [slice_self]

theorem fluentWalkFrom_all (s : Array Nat) :
    ∀ body last, BodyOK s body last → last ≤ s.size → (∀ b ∈ body, b.kind = .other → b.s = b.e) →
      ((fluentWalkFrom s false body last).map (Entry.all s)).flatten = slice s last s.size := by
  intro body
  induction body with
  | nil =>
    intro last _ hl _
    simp only [fluentWalkFrom]
    by_cases h : s.size > last
    · simp [h, Entry.all]
    · have : last = s.size := by omega
      subst this
      simp [slice_self]
  | cons b rest ih =>
    intro last hb hl hk
    obtain ⟨h1, h2, h3, h4⟩ := hb
    have hrest := ih b.e h4 h3 (fun b' hb' => hk b' (List.mem_cons_of_mem _ hb'))
    have hent := fluentEntry_all s b h2 h3 (hk b (List.mem_cons_self ..))
    simp only [fluentWalkFrom, List.map_append, List.flatten_append, hrest, hent]
    rw [← slice_append s last b.s s.size h1 (by omega), ← slice_append s b.s b.e s.size h2 h3]
    by_cases h : b.s > last
    · simp [h, Entry.all]
    · have : last = b.s := by omega
      subst this
      simp [slice_self]

/-! ### the localizable-only Fluent walk is the filtered full walk -/

theorem filter_pieces (c1 c2 : Prop) [Decidable c1] [Decidable c2] (w1 w2 j : Entry)
    (h1 : w1.localizable = false) (h2 : w2.localizable = false) (hj : j.localizable = true) :
    ((if c1 then [w1] else []) ++ [j] ++ (if c2 then [w2] else [])).filter Entry.localizable = [j] := by
  by_cases hc1 : c1 <;> by_cases hc2 : c2 <;> simp [hc1, hc2, h1, h2, hj]

theorem fluentEntry_filter (s : Array Nat) (b : FEntry) :
    fluentEntry s true b = (fluentEntry s false b).filter Entry.localizable := by
  unfold fluentEntry
  split
  · simp [Entry.localizable]
  · simp [Entry.localizable]
  · simp only
    split
    · simp [Entry.localizable]
    · rw [filter_pieces _ _ _ _ _ rfl rfl rfl]
      simp
  · simp [Entry.localizable]
  · simp

theorem fluentWalkFrom_filter (s : Array Nat) : ∀ body last,
    fluentWalkFrom s true body last = (fluentWalkFrom s false body last).filter Entry.localizable := by
  intro body
  induction body with
  | nil =>
    intro last
    simp only [fluentWalkFrom]
    by_cases h : s.size > last <;> simp [h, Entry.localizable]
  | cons b rest ih =>
    intro last
    simp only [fluentWalkFrom, List.filter_append, ← ih, ← fluentEntry_filter]
    by_cases h : b.s > last <;> simp [h, Entry.localizable]

end P

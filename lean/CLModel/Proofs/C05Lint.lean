/-
C05 pipeline: `Pipe.lintText` never raises (composition of C01 walk totality, the parse lemmas and C19 `lint_total`).
-/
import CLModel.Proofs.C05Pipe
import CLModel.Props.C19
namespace Pipe

/-- every check position the pipeline hands to the linter suits the entity (`C19.fits`) -/
theorem toLintEnt_fits (c : CkCtx) (cls : Cls) (vals : List Text) (e : PEnt) (le : Lint.Ent)
    (hk : e.junk = false → e.entry.kind = .entity)
    (hres : ∀ rs, runChecker c e e = .ok rs → ∀ r ∈ rs, Resolvable cls e r.pos)
    (h : toLintEnt c cls vals e = .ok le) : le.kind = .entity → ∀ r ∈ le.checks, C19.fits le r := by
  unfold toLintEnt at h
  cases hj : e.junk with
  | true =>
    simp only [hj, if_true, Except.ok.injEq] at h
    subst h
    intro hk; cases hk
  | false =>
    simp only [hj, Bool.false_eq_true, if_false] at h
    cases hr : runChecker c e e with
    | error x => rw [hr] at h; cases h
    | ok rs =>
      rw [hr] at h
      simp only [Except.ok.injEq] at h
      subst h
      intro _ r hc
      simp only [List.mem_map] at hc
      obtain ⟨r, hrm, rfl⟩ := hc
      have hke : e.entry.kind = .entity := hk hj
      rcases hres rs hr r hrm with ⟨n, hn⟩ | ⟨⟨n, hn⟩, _⟩ | ⟨⟨l, cc, hn⟩, hcls, _⟩
      · simp [C19.fits, toLintCheck, hn]
      · cases cls <;> simp [C19.fits, toLintCheck, hn, Pos.valSpan, hke, modeOf]
      · subst hcls
        simp [C19.fits, toLintCheck, hn, Pos.valSpan, hke, modeOf]

theorem lintParsed_ok (ext : Ext) (path : Text) (kind : CheckerKind) (cls : Cls) (reference : Option (List PEnt))
    (curText : Array Nat) (cur : List PEnt) (hk : ∀ e ∈ cur, e.junk = false → e.entry.kind = .entity)
    (hclash : lintJunkClash cls (refList reference) cur = false)
    (hchk : ∀ e ∈ cur, e.junk = false →
      ∃ rs, runChecker { kind := kind, locale := some referenceLocale, xml := ext.xml, refVals := cur.map (·.raw) } e e = .ok rs ∧
        ∀ c ∈ rs, Resolvable cls e c.pos) :
    ∃ rs, lintParsed ext path kind cls reference curText cur = .ok rs := by
  unfold lintParsed
  simp only
  rw [hclash]
  simp only [Bool.false_eq_true, if_false]
  generalize hvals : List.map (fun x => x.val) (refList reference ++ cur) = vals
  generalize hc : ({ kind := kind, locale := some referenceLocale, xml := ext.xml, refVals := cur.map (·.raw) } : CkCtx) = c at hchk
  obtain ⟨ents, hents, hmem⟩ := mapE_ok (f := toLintEnt c cls vals) (l := cur) (by
    intro e he
    unfold toLintEnt
    cases hj : e.junk with
    | true => exact ⟨_, rfl⟩
    | false =>
      obtain ⟨rs, hrs, _⟩ := hchk e he hj
      simp only [Bool.false_eq_true, if_false, hrs]
      exact ⟨_, rfl⟩)
  rw [hents]
  simp only
  obtain ⟨rs, hrs⟩ := C19.lint_total
    { path := path, contents := curText, cur := ents,
      ref := reference.map (fun r => r.map (toRefEnt cls vals)) } (by
    intro le hle hkind r hr
    obtain ⟨e, he, hmk⟩ := hmem le hle
    refine toLintEnt_fits c cls _ e le (hk e he) ?_ hmk hkind r hr
    intro rs' hrs' c' hc'
    have hnj : e.junk = false := by
      cases hj : e.junk with
      | false => rfl
      | true =>
        simp only [toLintEnt, hj, if_true, Except.ok.injEq] at hmk
        subst hmk
        cases hkind
    obtain ⟨rs2, h2, hres⟩ := hchk e he hnj
    rw [h2] at hrs'
    cases hrs'
    exact hres c' hc')
  rw [hrs]
  exact ⟨rs, rfl⟩

theorem lintJunkClash_regex (fmt : P.Fmt) (ref cur : List PEnt) : lintJunkClash (clsOf fmt) ref cur = false := by
  cases fmt <;> simp [lintJunkClash, clsOf]

/-- linting never raises when parsing and the checker do not -/
theorem lintText_ok (ext : Ext) (fmt : P.Fmt)
    (refText : Option (Array Nat)) (curText : Array Nat)
    (hwalk : ∀ s, ∃ es, P.walk fmt s = .done es)
    (hchk : ∀ cur n0 n1, parseFile ext fmt curText n0 = .ok (cur, n1) → ∀ e ∈ cur, PWf fmt e → e.junk = false →
      ∃ rs, runChecker { kind := checkerOf fmt, locale := some referenceLocale, xml := ext.xml, refVals := cur.map (·.raw) } e e = .ok rs ∧
        ∀ c ∈ rs, Resolvable (clsOf fmt) e c.pos) :
    ∃ rs, lintText ext fmt refText curText = .ok rs := by
  unfold lintText
  cases refText with
  | none =>
    obtain ⟨cur, n2, hcur, hwf⟩ := parseFile_ok ext fmt curText 0 (hwalk curText)
    simp only [hcur]
    exact lintParsed_ok ext _ _ _ none curText cur (fun e he hj => (hwf e he).entity hj) (lintJunkClash_regex fmt _ _)
      (fun e he hj => hchk cur 0 n2 hcur e he (hwf e he) hj)
  | some t =>
    obtain ⟨ref, n1, href, _⟩ := parseFile_ok ext fmt t 0 (hwalk t)
    obtain ⟨cur, n2, hcur, hwf⟩ := parseFile_ok ext fmt curText n1 (hwalk curText)
    simp only [href, hcur]
    exact lintParsed_ok ext _ _ _ (some ref) curText cur (fun e he hj => (hwf e he).entity hj) (lintJunkClash_regex fmt _ _)
      (fun e he hj => hchk cur n1 n2 hcur e he (hwf e he) hj)

/-- the base checker, as the linter calls it -/
theorem lint_checker_base (c : CkCtx) (hc : c.kind = .base) (cls : Cls) (e : PEnt) :
    ∃ rs, runChecker c e e = .ok rs ∧ ∀ r ∈ rs, Resolvable cls e r.pos := by
  refine ⟨runBase e, by simp [runChecker, hc], ?_⟩
  intro r hr
  simp only [runBase, List.mem_map] at hr
  obtain ⟨x, _, rfl⟩ := hr
  exact Or.inl ⟨_, rfl⟩

end Pipe

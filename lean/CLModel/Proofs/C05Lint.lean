/-
C05 pipeline: `Pipe.lintText` never raises (composition of C01 walk totality, the parse lemmas and C19 `lint_total`).
-/
import CLModel.Proofs.C05Pipe
import CLModel.Props.C19
namespace Pipe

/-- every check position the pipeline hands to the linter suits the entity (`C19.fits`) -/
theorem toLintEnt_fits (fmt : P.Fmt) (ck : CheckerKind) (vals : List Text) (e : PEnt) (le : Lint.Ent) (hwf : PWf fmt e)
    (hres : ∀ rs, runChecker ck (some referenceLocale) e e = .ok rs → ∀ c ∈ rs, Resolvable e.entry c.pos)
    (h : toLintEnt ck vals e = .ok le) : le.kind = .entity → ∀ c ∈ le.checks, C19.fits le c := by
  unfold toLintEnt at h
  cases hj : e.junk with
  | true =>
    simp only [hj, if_true, Except.ok.injEq] at h
    subst h
    intro hk; cases hk
  | false =>
    simp only [hj, Bool.false_eq_true, if_false] at h
    cases hr : runChecker ck (some referenceLocale) e e with
    | error x => rw [hr] at h; cases h
    | ok rs =>
      rw [hr] at h
      simp only [Except.ok.injEq] at h
      subst h
      intro _ c hc
      simp only [List.mem_map] at hc
      obtain ⟨r, hrm, rfl⟩ := hc
      have hk : e.entry.kind = .entity := hwf.entity hj
      rcases hres rs hr r hrm with ⟨n, hn⟩ | ⟨⟨n, hn⟩, _⟩
      · simp [C19.fits, toLintCheck, hn]
      · simp [C19.fits, toLintCheck, hn, Pos.valSpan, hk]

theorem lintParsed_ok (fmt : P.Fmt) (ck : CheckerKind) (reference : Option (List PEnt)) (curText : Array Nat)
    (cur : List PEnt) (hwf : ∀ e ∈ cur, PWf fmt e)
    (hchk : ∀ e : PEnt, PWf fmt e → e.junk = false →
      ∃ rs, runChecker ck (some referenceLocale) e e = .ok rs ∧ ∀ c ∈ rs, Resolvable e.entry c.pos) :
    ∃ rs, lintParsed fmt ck reference curText cur = .ok rs := by
  unfold lintParsed
  simp only
  generalize hvals : List.map (fun x => x.val) ((match reference with | some r => r | none => []) ++ cur) = vals
  obtain ⟨ents, hents, hmem⟩ := mapE_ok (f := toLintEnt ck vals) (l := cur) (by
    intro e he
    unfold toLintEnt
    cases hj : e.junk with
    | true => exact ⟨_, rfl⟩
    | false =>
      obtain ⟨rs, hrs, _⟩ := hchk e (hwf e he) hj
      simp only [Bool.false_eq_true, if_false, hrs]
      exact ⟨_, rfl⟩)
  rw [hents]
  simp only
  obtain ⟨rs, hrs⟩ := C19.lint_total
    { path := fileName fmt, contents := curText, cur := ents,
      ref := reference.map (fun r => r.map (toRefEnt vals)) } (by
    intro le hle hk c hc
    obtain ⟨e, he, hmk⟩ := hmem le hle
    refine toLintEnt_fits fmt ck _ e le (hwf e he) ?_ hmk hk c hc
    intro rs' hrs' c' hc'
    have hnj : e.junk = false := by
      cases hj : e.junk with
      | false => rfl
      | true =>
        simp only [toLintEnt, hj, if_true, Except.ok.injEq] at hmk
        subst hmk
        cases hk
    obtain ⟨rs2, h2, hres⟩ := hchk e (hwf e he) hnj
    rw [h2] at hrs'
    cases hrs'
    exact hres c' hc')
  rw [hrs]
  exact ⟨rs, rfl⟩

/-- linting never raises when parsing and the checker do not -/
theorem lintText_ok (fmt : P.Fmt) (ck : CheckerKind) (hck : checkerOf fmt = some ck)
    (refText : Option (Array Nat)) (curText : Array Nat)
    (hwalk : ∀ s, ∃ es, P.walk fmt s = .done es)
    (hchk : ∀ e : PEnt, PWf fmt e → e.junk = false →
      ∃ rs, runChecker ck (some referenceLocale) e e = .ok rs ∧ ∀ c ∈ rs, Resolvable e.entry c.pos) :
    ∃ rs, lintText fmt refText curText = .ok rs := by
  have hcov : covered fmt = true := by simp [covered, hck]
  unfold lintText
  simp only [hck]
  cases refText with
  | none =>
    obtain ⟨cur, n2, hcur, hwf⟩ := parseFile_ok fmt hcov curText 0 (hwalk curText)
    simp only [hcur]
    exact lintParsed_ok fmt ck none curText cur hwf hchk
  | some t =>
    obtain ⟨ref, n1, href, _⟩ := parseFile_ok fmt hcov t 0 (hwalk t)
    obtain ⟨cur, n2, hcur, hwf⟩ := parseFile_ok fmt hcov curText n1 (hwalk curText)
    simp only [href, hcur]
    exact lintParsed_ok fmt ck (some ref) curText cur hwf hchk

/-- the base checker, as the linter calls it -/
theorem lint_checker_base (e : PEnt) :
    ∃ rs, runChecker .base (some referenceLocale) e e = .ok rs ∧ ∀ c ∈ rs, Resolvable e.entry c.pos := by
  refine ⟨runBase e, rfl, ?_⟩
  intro c hc
  simp only [runBase, List.mem_map] at hc
  obtain ⟨x, _, rfl⟩ := hc
  exact Or.inl ⟨_, rfl⟩

end Pipe

#!/bin/sh
# MANIFEST.setup_cmd: regenerate the generated Lean files from /repo and build everything (offline).
set -e
HERE="$(cd "$(dirname "$0")" && pwd)"
cd "$HERE"
PYTHONPATH="$HERE/harness:${VERIF_REPO:-/repo}" /venv/bin/python -W ignore harness/translate.py
cd lean
lake build CLModel cldriver
